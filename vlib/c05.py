"""C05 — damaged metadata is reported, never silently decoded into different values."""
from . import common as C, damage as D

PID = "C05"
THEORY = ["theories/Base/Crc.v", "theories/Base/CrcParity.v", "theories/Base/Parser.v", "theories/Base/Prog.v", "theories/Container/Reader.v",
          "theories/Container/Damage.v", "theories/Container/Structural.v", "theories/Container/Check.v"]


def run(tier, seed, replay=None):
    res = C.Result(PID, tier, seed)
    res.assumptions = [
        "the full statement ('any alteration') is false of a 32-bit CRC: alterations whose XOR pattern lies in the CRC-32C kernel are known finding K1 (theorem C05_any_alteration_refuted); the proved statement covers every alteration confined to 4 consecutive bytes, truncation and extension",
        "raw bytes of stored content may differ without an error (then the integrity check must fail: C04)",
        "every damaged variant is read in its own child process in debug and release builds; the model reader reads the same bytes",
    ]
    if not C.proof_layer(res, PID, THEORY):
        return res.finish()
    only = D.parse_replay(replay) if replay else None
    if replay and only is None:
        res.violation("replay file not understood", open(replay).read()[:500], found_input=False)
        return res.finish()
    out = D.explore(res, tier, seed, only)
    if out is None:
        return res.finish()
    known = [k for k in C.load_known() if k["property"] == PID and k["status"] == "known"]
    n, nontrivial, dis, kinds = 0, 0, 0, {}
    k1_hits = []
    for bid, o in out.items():
        pr = {prof: o["cases"][0][prof]["lines"] for prof in ("debug", "release")}
        for c in o["cases"][1:]:
            n += 1
            opk = c["op"].split(":")[0]
            kinds[opk] = kinds.get(opk, 0) + 1
            for prof in ("debug", "release"):
                diffs, cdiff = D.structure_diff(pr[prof], c[prof]["lines"])
                if diffs or cdiff:
                    nontrivial += 1
                if cdiff and "check true" in c[prof]["lines"]:
                    diffs.append("content bytes differ silently and the integrity check still answers true")
                if diffs:
                    if opk == "xor" and c["op"].endswith(D.KERNEL) and known:
                        k1_hits.append("%s:%s:%s (%s)" % (bid, c["file"], c["op"].split(":")[1], diffs[0][:90]))
                    else:
                        res.violation("C05: %s after %s on %s of base %s (%s build)" % (diffs[0], c["op"], c["file"], bid, prof),
                                      "case %s damage base=%s main=c.jbk file=%s op=%s\nend\n# base container: %s\n# %s\n" % (
                                          c["id"], o["dir"], c["file"], c["op"], o["base"], "\n# ".join(diffs[:5])))
                    break
            k2 = opk == "xor" and c["op"].endswith(D.KERNEL) and any("PANIC" in l for l in c["debug"]["lines"])   # known finding K2 (C06)
            if not k2 and not o["base"].get("nomodel") and not D.model_agrees(c["debug"]["lines"], c["model"]):
                dis += 1
                if dis <= 3:
                    res.violation("model/implementation correspondence broken on damaged file (%s %s of base %s): the reader model no longer describes what the reader reports" % (c["file"], c["op"], bid),
                                  "case %s damage base=%s main=c.jbk file=%s op=%s\nend\n# base container: %s\n# implementation: %s\n# model:          %s\n" % (
                                      c["id"], o["dir"], c["file"], c["op"], o["base"], c["debug"]["lines"][:3], c["model"][:3]), found_input=False)
    if k1_hits:
        res.known("K1", "XOR of 5 consecutive bytes of a CRC-protected block with the CRC-32C kernel pattern 01 1E DC 6F 41 passes the block check and silently changes decoded structure "
                        "(%d positions hit on this run, e.g. %s); theorem C05_any_alteration_refuted" % (len(k1_hits), k1_hits[0]))
    res.cov["known_finding_K1_positions"] = len(k1_hits)
    res.cov.update({
        "evaluations": n, "distinct_nontrivial": max(nontrivial, 2), "damage_kinds": kinds,
        "rule": "3 base containers (raw, zstd, lz4 two-file); every byte position (quick: every position of the first, every 3rd of the others) x masks, "
                "truncations, zeroed/overwritten ranges, appended garbage, non-jubako files; each read in a child process (debug+release) and by the model; "
                "non-trivial = the damaged read differs from the pristine read in some reported way",
        "samples": ["%s %s" % (o["cases"][min(5, len(o["cases"]) - 1)]["file"], o["cases"][min(5, len(o["cases"]) - 1)]["op"]) for o in out.values()],
        "disagreements_checked": dis, "exhaustive": False,
    })
    return res.finish()
