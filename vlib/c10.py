"""C10 — a container reads the same however its packs are packaged."""
import itertools, random, re
from . import common as C, pkgfam as P

PID = "C10"


def gen_cases(seed, tier):
    rng = random.Random(seed)
    cases = []
    nb = 6 if tier == "quick" else 40
    for b in range(nb):
        comp = rng.choice(["none", "zstd", "lz4", "lzma"])
        n = rng.choice([1, 2, 5, 9])
        extra = rng.choice([0, 0, 1, 2])
        s = rng.randint(1, 10**6)
        group = "g%d" % b

        def add(pkg, ops):
            cases.append(dict(id="%s_%d" % (group, len(cases)), group=group, pkg=pkg, comp=comp, n=n, extra=extra, seed=s, ops=ops))
        for pkg in ("one", "two", "no"):
            add(pkg, [])
        # concat of the separate files, in every order (quick: 3 of them)
        perms = list(itertools.permutations(["m", "0", "1"]))
        if tier == "quick":
            perms = rng.sample(perms, 3)
        for perm in perms:
            add("no", [("concat", ",".join(perm))])
        add("two", [("concat", rng.choice(["m,1", "1,m"]))])
        # re-assembled, then the separate files are gone: every pack must be found by identity inside the file at hand,
        # whatever location the manifest still records for it
        add("no", [("concat", ",".join(rng.choice(perms))), ("remove", "0"), ("remove", "1")])
        add("two", [("concat", rng.choice(["m,1", "1,m"])), ("remove", "1")])
        # one-file container embedded at the end of another file
        for tok in ["g:1:1:r", "g:64:2:r", "g:100:3:t", "g:8192:4:r"]:
            if tier == "quick" and rng.random() < 0.5:
                continue
            add("one", [("prefix", tok)])
        # prefixes that look like the start of a jubako header without being a valid header block
        # (right magic and version; a stale/truncated header copy): always included
        for tok in ["x:6a626b43000000000002", "x:6a626b6d0102030400020000",
                    "x:6a626b63" + "01020304" + "0002" + "11" * 16 + "00" * 6 + "40e2010000000000" + "10e2010000000000" + "00" * 12 + "deadbeef",
                    "x:6a626b43" + "00" * 4 + "0002" + "22" * 40]:
            add("one", [("prefix", tok)])
    return cases


def run(tier, seed, replay=None):
    res = C.Result(PID, tier, seed)
    res.assumptions = [
        "a prefix that itself starts with a CRC-valid jubako header (or a jubako magic with another version) is outside the claim",
        "HashMap iteration order of packs inside a container is modelled as locator order",
        "compressed contents are compared by length on the model side (no decompressor in the model) and byte for byte on the implementation side",
    ]
    if not C.proof_layer(res, PID, P.THEORY):
        return res.finish()
    cases = P.parse_replay(replay) if replay else gen_cases(seed, tier)
    rm = P.run_cases(res, cases, seed)
    if rm is None:
        return res.finish()
    R, M = rm
    groups, dis, nontrivial = {}, 0, set()
    for c in cases:
        r = R.get(c["id"], ["<no output>"])
        fin = P.split_state(r, "final")
        mfin = M.get(c["id"] + ".final", [])
        bad = None
        if "create OK" not in r:
            bad = "creation failed: %s" % r[:2]
        elif not fin or fin[0] != "open OK":
            bad = "container does not open in this packaging: %s" % fin[:1]
        elif "check true" not in fin:
            bad = "container does not verify in this packaging: %s" % [l for l in fin if l.startswith("check")]
        else:
            # every content read through this packaging = the bytes inserted
            exp = P.oracle_contents(r)
            for l in fin:
                for m in re.finditer(r"c(\d+:\d+)=(\S+)", l):
                    if exp.get(m.group(1)) != m.group(2) and not bad:
                        bad = "content %s reads %s in this packaging, inserted %s" % (m.group(1), m.group(2), exp.get(m.group(1)))
        logical = [l for l in fin if l.startswith(("index", "entry"))]
        if not bad and logical != P.expected_std(c["n"], c["extra"], c["seed"], c.get("idgap", 0), c.get("cmax", 0), c.get("orphans", 0)):
            want = P.expected_std(c["n"], c["extra"], c["seed"], c.get("idgap", 0), c.get("cmax", 0), c.get("orphans", 0))
            k = next((i for i in range(max(len(want), len(logical))) if i >= len(want) or i >= len(logical) or want[i] != logical[i]), 0)
            bad = "logical content read back is not what was written: got %s, written %s" % (
                logical[k] if k < len(logical) else "<missing>", want[k] if k < len(want) else "<missing>")
        # uuids differ between runs: compare packagings of one group through the logical content only
        key = c.get("group", c["id"])
        if not bad:
            if key in groups and groups[key][0] != logical:
                bad = "logical content differs from the same container packaged as %s" % groups[key][1]
            groups.setdefault(key, (logical, "%s %s" % (c["pkg"], c.get("ops"))))
        if bad:
            res.violation("C10: %s (case %s: pkg=%s ops=%s)" % (bad, c["id"], c["pkg"], c.get("ops")), P.case_text(c, seed) + "# " + bad + "\n")
        rr, mm = P.canon_rust_state(fin, mfin), P.canon_model_state(mfin)
        if rr != mm:
            dis += 1
            if not bad:
                k = next((i for i in range(max(len(rr), len(mm))) if i >= len(rr) or i >= len(mm) or rr[i] != mm[i]), 0)
                res.violation("model/implementation correspondence broken on %s (Container/Reader.v no longer describes the reader)" % c["id"],
                              P.case_text(c, seed) + "# implementation: %s\n# model:          %s\n" % (
                                  rr[k] if k < len(rr) else "<missing>", mm[k] if k < len(mm) else "<missing>"), found_input=False)
        if c.get("ops") or c["pkg"] != "one":
            nontrivial.add((c["pkg"], tuple(c.get("ops", [])), c["comp"], c["n"], c["extra"]))
    res.cov.update({
        "evaluations": len(cases), "distinct_nontrivial": len(nontrivial),
        "rule": "per base container (compression x entries x extra packs): the three packagings, concat of the separate files in several/all orders, "
                "and the one-file container embedded after prefixes (1 byte .. 8 KiB, random, jubako look-alikes); all must read to the same logical content = what was inserted; "
                "non-trivial = anything but the plain one-file packaging",
        "samples": [P.case_text(c, seed) for c in cases[3:5]],
        "disagreements_checked": dis, "groups": len(groups), "exhaustive": False,
    })
    return res.finish()
