"""C13 — all views of a stored content agree.
Theorems: Properties/C13.v (views_refine_lists: concrete region/slice/stream model = plain lists).
Tie: the same view programs run on the real ByteRegion/ByteSlice/ByteStream (harness family 'views')
and on the extracted model; property oracle = plain Python slicing of the content bytes."""
import itertools, os, random
from . import common as C

PID = "C13"
THEORY = ["theories/Base/ListExtra.v", "theories/Views/Region.v"]
SRC_KINDS = ["mem", "file", "filecut", "incore", "lz4", "lzma", "zstd", "pack", "packz"]


def spec_run(content, ops):
    """the property oracle: a view is a Python bytes object"""
    out = []
    kind, cur, pos = "region", content, 0
    for op in ops:
        p = op.split(":")
        if kind in ("region", "slice"):
            if p[0] == "cut":
                o, n = int(p[1]), int(p[2])
                if o + n <= len(cur):
                    cur, kind = cur[o:o + n], "slice"
                    out.append("none")
                else:
                    out.append("bad")
            elif p[0] == "asslice" and kind == "region":
                kind = "slice"; out.append("none")
            elif p[0] == "toregion" and kind == "slice":
                kind = "region"; out.append("none")
            elif p[0] == "stream" or (p[0] == "intostream" and kind == "region"):
                kind, pos = "stream", 0; out.append("none")
            elif p[0] == "get":
                o, n = int(p[1]), int(p[2])
                out.append("bytes " + C.show(cur[o:o + n]) if o + n <= len(cur) else "bad")
            elif p[0] == "sizes":
                out.append("sizes %d 0 %d" % (len(cur), len(cur)))
            else:
                out.append("bad")
        else:
            if p[0] == "read":
                k = min(int(p[1]), len(cur) - pos)
                out.append("bytes " + C.show(cur[pos:pos + k])); pos += k
            elif p[0] == "readall":
                out.append("bytes " + C.show(cur[pos:])); pos = len(cur)
            elif p[0] == "sizes":
                out.append("sizes %d %d %d" % (len(cur), pos, len(cur) - pos))
            else:
                out.append("bad")
    return out


def compositions(n, maxparts):
    """all ways to write n as an ordered sum of 1..maxparts positive parts"""
    if n == 0:
        yield []
        return
    for parts in range(1, maxparts + 1):
        for cuts in itertools.combinations(range(1, n), parts - 1):
            b = (0,) + cuts + (n,)
            yield [b[i + 1] - b[i] for i in range(parts)]


def rand_prog(rng, length):
    """a random but mostly-valid program: nested cuts (depth <= 3), conversions, then stream + reads"""
    ops, cur, kind = [], length, "region"
    depth = rng.randint(0, 3)
    for _ in range(depth):
        o = rng.randint(0, cur)
        n = rng.randint(0, cur - o)
        if rng.random() < 0.5 and cur > 1:      # bias to non-zero offsets and boundary-touching cuts
            o = rng.choice([0, 1, cur - n if cur - n >= 0 else 0])
            o = max(0, min(o, cur - n))
        ops.append("cut:%d:%d" % (o, n)); cur, kind = n, "slice"
        if rng.random() < 0.4:
            ops.append("sizes")
        if rng.random() < 0.4:
            go = rng.randint(0, cur); gn = rng.randint(0, cur - go)
            ops.append("get:%d:%d" % (go, gn))
        if rng.random() < 0.5:
            ops.append("toregion"); kind = "region"
            if rng.random() < 0.5:
                ops.append("asslice"); kind = "slice"
    if rng.random() < 0.15:
        ops.append("get:0:%d" % cur)
    if kind == "slice" and rng.random() < 0.5:
        ops.append("toregion"); kind = "region"
    ops.append("intostream" if (kind == "region" and rng.random() < 0.6) else "stream")
    ops.append("sizes")
    left = cur
    stop_early = rng.random() < 0.4
    while left > 0 and len(ops) < 40:
        if stop_early and rng.random() < 0.3:
            ops += ["readall", "sizes"]; left = 0
            break
        k = rng.choice([1, 2, 3, 7, 64, 1000, 1024, 1025, 4096, left, left + 1, rng.randint(1, max(1, left))])
        ops.append("read:%d" % k); left -= min(k, left)
        if rng.random() < 0.3:
            ops.append("sizes")
    ops += ["read:5", "sizes"]
    return ops


def gen_cases(seed, tier):
    rng = random.Random(seed)
    cases = []

    def add(src, total, a, m, pre, length, dseed, dkind, ops):
        cid = "v%d" % len(cases)
        cases.append(dict(id=cid, src=src, a=a, m=m, pre=pre, len=length,
                          data="g:%d:%d:%s" % (total, dseed, dkind), ops=ops))

    # corpus first: the D1 witness shape on every source kind (content not at offset 0, From<ByteRegion>)
    for src in SRC_KINDS:
        add(src, 64, 3, 40, 7, 9, 1, "r", ["intostream", "sizes", "read:4", "sizes", "read:100", "sizes"])
        add(src, 64, 3, 40, 7, 9, 1, "r", ["cut:2:5", "toregion", "intostream", "read:2", "sizes", "read:9"])
        add(src, 64, 3, 40, 7, 9, 1, "r", ["stream", "read:3", "readall", "sizes", "readall", "read:1"])
    # exhaustive small: every partition of len <= 6 (<= 4 reads) x {stream, intostream} on 3 cheap kinds
    maxlen = 6 if tier == "quick" else 8
    for length in range(0, maxlen + 1):
        for parts in compositions(length, 4):
            for head in (["stream"], ["intostream"], ["cut:0:%d" % length, "stream"]):
                src = ["mem", "filecut", "pack"][(length + len(parts)) % 3]
                ops = head + ["read:%d" % k for k in parts] + ["sizes", "read:1"]
                add(src, 40, 2, 30, 5, length, 7 + length, "r", ops)
    # exhaustive small nested cuts to depth 3 over a length-4 content
    if tier == "thorough":
        L = 4
        for o1 in range(L + 1):
            for n1 in range(L - o1 + 1):
                for o2 in range(n1 + 1):
                    for n2 in range(n1 - o2 + 1):
                        for o3 in range(n2 + 1):
                            n3 = n2 - o3
                            add("mem" if (o1 + o2) % 2 else "file", 32, 1, 20, 3, L, 3, "r",
                                ["cut:%d:%d" % (o1, n1), "cut:%d:%d" % (o2, n2), "cut:%d:%d" % (o3, n3),
                                 "get:0:%d" % n3, "stream", "read:%d" % (n3 + 1)])
    # random programs over all source kinds, sizes crossing 1 KiB (BufReader), 4 KiB (mmap / decoder chunk)
    nrand = 260 if tier == "quick" else 4000
    for i in range(nrand):
        src = SRC_KINDS[i % len(SRC_KINDS)]
        big = rng.random() < 0.35
        if src == "incore":
            m = rng.choice([100, 4091, 4092, 4095, 4096, 5000, 9000]) if big else rng.randint(8, 400)
        else:
            m = rng.choice([1023, 1024, 1025, 4095, 4096, 4097, 8192, 9001, 20000]) if big else rng.randint(1, 300)
        a = rng.randint(1, 50)
        post = rng.randint(0, 50)
        total = a + m + post
        pre = rng.randint(1, max(1, m // 3)) if m > 1 else 0
        pre = min(pre, m)
        length = rng.randint(0, m - pre)
        if rng.random() < 0.3:
            length = m - pre                      # content ends exactly at the window's end
        add(src, total, a, m, pre, length, rng.randint(1, 10**6), rng.choice("rrt"), rand_prog(rng, length))
    return cases


def write_cases(cases, path, seed):
    with open(path, "w") as f:
        f.write("seed %d\n" % seed)
        for c in cases:
            f.write("case %s views src=%s a=%d m=%d pre=%d len=%d data=%s\n" %
                    (c["id"], c["src"], c["a"], c["m"], c["pre"], c["len"], c["data"]))
            f.write("ops " + " ".join(c["ops"]) + "\n")
            f.write("end\n")


def case_text(c, seed):
    return ("seed %d\ncase %s views src=%s a=%d m=%d pre=%d len=%d data=%s\nops %s\nend\n" %
            (seed, c["id"], c["src"], c["a"], c["m"], c["pre"], c["len"], c["data"], " ".join(c["ops"])))


def run(tier, seed, replay=None):
    res = C.Result(PID, tier, seed)
    res.assumptions = [
        "model of Region/ByteRegion/ByteSlice/ByteStream is hand-written (Views/Region.v); tied to the code by running identical view programs on both",
        "a logical read of k bytes on the Rust side is Read::read repeated until k bytes or EOF (short reads are legal); justified by reads_prefix",
        "cuts beyond the parent's size are outside the property (the Rust only debug_asserts them); generated programs stay in range",
    ]
    if not C.proof_layer(res, PID, THEORY):
        return res.finish()
    ok, log = C.build_ocaml()
    if not ok:
        res.violation("model extraction / driver build failed", log[-3000:], found_input=False)
        return res.finish()
    ok, log, exe = C.build_harness()
    if not ok:
        res.violation("harness does not build against /repo", log[-3000:], found_input=False)
        return res.finish()
    wd = res.workdir
    if replay:
        casefile = replay
        import re
        cases = []
        txt = open(replay).read()
        for m in re.finditer(r"case (\S+) views src=(\S+) a=(\d+) m=(\d+) pre=(\d+) len=(\d+) data=(\S+)\nops (.*)\n", txt):
            cases.append(dict(id=m.group(1), src=m.group(2), a=int(m.group(3)), m=int(m.group(4)), pre=int(m.group(5)),
                              len=int(m.group(6)), data=m.group(7), ops=m.group(8).split()))
    else:
        cases = gen_cases(seed, tier)
        casefile = os.path.join(wd, "cases.txt")
        write_cases(cases, casefile, seed)
    rust_out, model_out = os.path.join(wd, "rust.out"), os.path.join(wd, "model.out")
    for p in (rust_out, model_out):
        if os.path.exists(p):
            os.remove(p)
    rc, log = C.run_rust(exe, casefile, rust_out, os.path.join(wd, "tmp"))
    if rc != 0:
        res.violation("harness crashed (exit %d)" % rc, log[-2000:], found_input=False)
    rc, log = C.run_model(casefile, model_out)
    if rc != 0:
        res.violation("model driver crashed (exit %d)" % rc, log[-2000:], found_input=False)
    R, M = C.read_obs(rust_out), C.read_obs(model_out)
    nontrivial, disagreements, by_src, nreads = set(), 0, {}, 0
    for c in cases:
        data = C.payload_bytes(c["data"])
        content = data[c["a"] + c["pre"]: c["a"] + c["pre"] + c["len"]]
        spec = ["%d %s" % (i, s) for i, s in enumerate(spec_run(content, c["ops"]))]
        r, m = R.get(c["id"], ["<no output>"]), M.get(c["id"], ["<no output>"])
        by_src[c["src"]] = by_src.get(c["src"], 0) + 1
        nreads += sum(1 for o in c["ops"] if o.startswith("read") or o.startswith("get"))
        if c["a"] + c["pre"] > 0 and c["len"] > 0 and any(o.startswith(("read", "get")) for o in c["ops"]):
            nontrivial.add((c["src"], c["a"], c["m"], c["pre"], c["len"], tuple(c["ops"])))
        if r != spec:
            # the implementation disagrees with the property oracle: a concrete failing input
            k = next((i for i in range(max(len(r), len(spec))) if i >= len(r) or i >= len(spec) or r[i] != spec[i]), 0)
            body = case_text(c, seed) + "# implementation: %s\n# expected (bytes of the same range): %s\n" % (
                r[k] if k < len(r) else "<missing>", spec[k] if k < len(spec) else "<missing>")
            res.violation("views disagree on case %s (src=%s) at op %d" % (c["id"], c["src"], k), body)
        if r != m:
            disagreements += 1
            if r == spec:
                body = case_text(c, seed) + "# correspondence broken: model output differs from implementation although the oracle agrees\n# model: %s\n" % m[:5]
                res.violation("model/implementation correspondence broken on %s (theorem C13_views_refine_lists no longer describes the code)" % c["id"],
                              body, found_input=False)
    res.cov.update({
        "evaluations": len(cases), "distinct_nontrivial": len(nontrivial),
        "rule": "view programs (nested cuts depth<=3, conversions, get_slice, stream + read partitions, size queries) over 9 source kinds; "
                "non-trivial = content not at offset 0 of its source, non-empty, and at least one byte-yielding op; distinct by (source kind, geometry, program)",
        "samples": [case_text(c, seed) for c in cases[:2] + cases[-2:]],
        "disagreements_checked": disagreements, "by_source_kind": by_src, "byte_yielding_ops": nreads,
        "exhaustive": False,
        "exhaustive_subspaces": "all compositions of len<=%d into <=4 read sizes x 3 stream constructors" % (6 if tier == "quick" else 8)
                                + ("; all depth-3 nested cuts of a length-4 content" if tier == "thorough" else ""),
    })
    return res.finish()
