"""C12 — rewriting a pack location changes only that location; the manifest stays valid.
Theorems: Properties/C12.v.  Tie: tools::set_location on real files vs the extracted model's
set_location on the same initial bytes (byte-exact file comparison after every rewrite)."""
import os, random, re
from . import common as C

PID = "C12"
THEORY = ["theories/Base/ListExtra.v", "theories/Base/Bytes.v", "theories/Base/Crc.v", "theories/Base/Parser.v",
          "theories/Format/Structs.v", "theories/Manifest/Mask.v", "theories/Manifest/SetLocation.v",
          "theories/Manifest/SetLocationProofs.v"]


def rand_loc(rng):
    kind = rng.random()
    if kind < 0.15:
        return b""
    if kind < 0.30:                      # exactly 213 bytes, ending in a multi-byte UTF-8 char
        s = "x" * (213 - 3) + "€"   # 3-byte euro sign
        return s.encode()
    if kind < 0.40:
        s = "é" * 106 + "z"         # 213 bytes of 2-byte chars + 1
        return s.encode()
    if kind < 0.5:
        return ("p" * rng.choice([1, 37, 38, 39, 212, 213])).encode()
    n = rng.randint(1, 60)
    alphabet = "abcXYZ019./_-é中 "
    s = "".join(rng.choice(alphabet) for _ in range(n))
    b = s.encode()
    while len(b) > 213:
        s = s[:-1]; b = s.encode()
    return b


def gen_cases(seed, tier):
    rng = random.Random(seed)
    cases = []
    n = 24 if tier == "quick" else 200
    for i in range(n):
        pkg = ["one", "two", "no"][i % 3]
        comp = rng.choice(["none", "zstd", "lz4", "lzma"])
        extra = rng.choice([0, 0, 1, 2])
        nent = rng.choice([0, 1, 2, 5, 9])
        npacks = 2 + extra
        ops = []
        nops = rng.choice([1, 2, 3, 6]) if tier == "quick" else rng.choice([1, 2, 5, 12, 50])
        for _ in range(nops):
            r = rng.random()
            if r < 0.12:
                ops.append(("unknown", rand_loc(rng).hex() or "-"))
            else:
                k = rng.randrange(npacks)
                ops.append((str(k), "orig" if r > 0.85 else (rand_loc(rng).hex() or "-")))
        # strings that name the same path without being the same string, one after the other on one pack: each rewrite
        # must still be what is read back (a location is a string, not a path)
        if i % 4 == 1:
            k = rng.randrange(npacks)
            for v in rng.sample(["packs/c.jbkc", "packs//c.jbkc", "packs/./c.jbkc", "packs/c.jbkc/", "./packs/c.jbkc", "packs/c.jbkc", "PACKS/c.jbkc", "packs/c.jbkc "], 5):
                ops.append((str(k), v.encode().hex()))
        # always end by restoring every location, so that the final dump must equal the initial one
        for k in range(npacks):
            ops.append((str(k), "orig"))
        # every fourth manifest is one another producer may have written: non-zero packGroup in every pack info (a
        # checked byte the library's creator leaves at 0), digest and CRCs recomputed by the harness
        cases.append(dict(id="m%d" % i, pkg=pkg, comp=comp, n=nent, extra=extra, seed=rng.randint(1, 10**6), ops=ops, groups=(i % 4 == 2)))
    # a manifest of more than 64 KiB (272 pack descriptions): the checksum stream is read in 64 KiB chunks, so one
    # description straddles a chunk boundary; the packs around that boundary are rewritten, then restored
    if True:
        extra = 270
        ops = []
        around = list(range(205, 228)) + [1]
        for k in around:
            ops.append((str(k), rand_loc(rng).hex() or "-"))
        for k in around:
            ops.append((str(k), "orig"))
        # judged on the real files only: the list-based model needs minutes per rewrite on 272 descriptions
        cases.append(dict(id="mbig", pkg="two", comp="none", n=2, extra=extra, seed=rng.randint(1, 10**6), ops=ops, groups=False, nomodel=True))
    return cases


def case_text(c, seed):
    s = "seed %d\ncase %s manifest pkg=%s comp=%s n=%d extra=%d seed=%d%s\n" % (
        seed, c["id"], c["pkg"], c["comp"], c["n"], c["extra"], c["seed"], " groups=1" if c.get("groups") else "")
    for k, loc in c["ops"]:
        s += "setloc %s %s\n" % (k, loc)
    return s + "end\n"


def parse_replay(path):
    cases = []
    txt = open(path).read()
    for m in re.finditer(r"case (\S+) manifest pkg=(\S+) comp=(\S+) n=(\d+) extra=(\d+) seed=(\d+)( groups=1)?\n((?:setloc .*\n)*)end", txt):
        ops = [tuple(l.split()[1:3]) for l in m.group(8).splitlines() if l.startswith("setloc")]
        cases.append(dict(id=m.group(1), pkg=m.group(2), comp=m.group(3), n=int(m.group(4)), extra=int(m.group(5)),
                          seed=int(m.group(6)), groups=bool(m.group(7)), ops=ops))
    return cases


def run(tier, seed, replay=None):
    res = C.Result(PID, tier, seed)
    res.assumptions = [
        "blake3 is a parameter H of the model: the theorem shows the hashed view is unchanged, the harness checks Pack::check() on the real file",
        "model of tools::set_location, PackHeader/ContainerPackHeader/PackLocator/ManifestPackHeader/PackInfo codecs is hand-written; tied byte-exactly to the real files after every rewrite",
        "HashMap iteration order in ContainerPack::get_manifest_pack_reader is modelled as locator order (differs only when a pack header inside the container is damaged)",
    ]
    if not C.proof_layer(res, PID, THEORY):
        return res.finish()
    ok, log = C.build_ocaml()
    if not ok:
        res.violation("model extraction / driver build failed", log[-3000:], found_input=False)
        return res.finish()
    ok, log, exe = C.build_harness()
    if not ok:
        res.violation("harness does not build against /repo", log[-3000:], found_input=False)
        return res.finish()
    wd = res.workdir
    cases = parse_replay(replay) if replay else gen_cases(seed, tier)
    casefile = os.path.join(wd, "cases.txt")
    with open(casefile, "w") as f:
        f.write("".join(case_text(c, seed) for c in cases))
    rust_out, model_out, mcases = [os.path.join(wd, x) for x in ("rust.out", "model.out", "model_cases.txt")]
    for p in (rust_out, model_out):
        if os.path.exists(p):
            os.remove(p)
    tmp = os.path.join(wd, "tmp")
    C.sh(["rm", "-rf", tmp])
    rc, log = C.run_rust(exe, casefile, rust_out, tmp)
    if rc != 0:
        res.violation("harness crashed (exit %d)" % rc, log[-2000:], found_input=False)
    R = C.read_obs(rust_out)
    with open(mcases, "w") as f:
        for c in cases:
            if c.get("nomodel") or c["extra"] > 50:
                continue
            f.write("case %s manifest\n" % c["id"])
            for l in R.get(c["id"], []):
                if l.startswith("@model "):
                    f.write(l[len("@model "):] + "\n")
            f.write("end\n")
    rc, log = C.run_model(mcases, model_out)
    if rc != 0:
        res.violation("model driver crashed (exit %d)" % rc, log[-2000:], found_input=False)
    M = C.read_obs(model_out)
    nontrivial, disagreements, nrewrites, loclens = set(), 0, 0, {}
    for c in cases:
        r = [l for l in R.get(c["id"], []) if not l.startswith("@model")]
        m = M.get(c["id"], [])
        steps = {}
        for l in r:
            p = l.split(" ", 2)
            steps.setdefault(p[0], {}).setdefault(p[1], []).append(p[2] if len(p) > 2 else "")
        bad = None
        if not r or r[0].startswith("create") or r[0] == "PANIC":
            bad = "container creation failed: %s" % (r[:1],)
        base = steps.get("0", {})
        inside = {"one": lambda k: k < 2, "two": lambda k: k == 0, "no": lambda k: False}[c["pkg"]]
        cur_loc_is_orig = {}
        for i, (k, loc) in enumerate(c["ops"], start=1):
            if bad:
                break
            st = steps.get(str(i), {})
            rs = (st.get("res") or ["<missing>"])[0]
            orc = " ".join(st.get("@oracle", []))
            nrewrites += 1
            if "mcheck=true" not in orc:
                bad = "step %d: manifest check is not true after the rewrite (%s)" % (i, orc)
            elif k == "unknown":
                if rs != "none":
                    bad = "step %d: unknown uuid answered %s" % (i, rs)
                elif st.get("file") != steps.get(str(i - 1), {}).get("file"):
                    bad = "step %d: unknown uuid changed the file" % i
            else:
                if not rs.startswith("some:"):
                    bad = "step %d: rewrite of pack %s answered %s" % (i, k, rs)
                m2 = re.search(r"lenok=(\w+) changed=(\d+)\.\.(\d+)", orc)
                if not bad and (not m2 or m2.group(1) != "true"):
                    bad = "step %d: file length changed" % i
                cur_loc_is_orig[int(k)] = (loc == "orig")
            # read back: the infos line must show exactly the requested location for that pack, others unchanged
            if not bad and k != "unknown":
                prev = dict(x.rsplit(":", 1) for x in (steps[str(i - 1)]["infos"][0].split(";")))
                now = dict(x.rsplit(":", 1) for x in (st.get("infos", [""])[0].split(";"))) if st.get("infos") else {}
                changed = [u for u in now if prev.get(u) != now[u]]
                if set(prev) != set(now) or len(changed) > 1:
                    bad = "step %d: other pack descriptions changed (%s)" % (i, changed)
                elif loc != "orig":
                    want = "-" if loc == "-" else loc
                    got = [v for u, v in now.items() if prev.get(u) != v]
                    if got and got[0] != want:
                        bad = "step %d: location read back %s, expected %s" % (i, got[0], want)
                    elif want not in now.values():
                        bad = "step %d: the rewrite reported success but no pack description carries the new location %s (read back: %s)" % (
                            i, want, sorted(now.values()))
                loclens[len(loc) // 2 if loc not in ("orig", "-") else 0] = 1
            # content unchanged: whenever every out-of-file pack has its original location, the dump equals the initial one
            if not bad and all(cur_loc_is_orig.get(kk, True) or inside(kk) for kk in range(2 + c["extra"])):
                if st.get("dump") != base.get("dump"):
                    bad = "step %d: logical dump of the container changed" % i
        if not bad and c["ops"]:
            # all bytes outside the pack-info table are those of the initial file: final file == initial file after restore
            last = steps.get(str(len(c["ops"])), {})
            if last.get("file") != base.get("file"):
                bad = "after restoring every location the file differs from the initial file"
        if bad:
            res.violation("C12 oracle: %s (case %s)" % (bad, c["id"]), case_text(c, seed) + "# " + bad + "\n")
        if c.get("nomodel") or c["extra"] > 50:
            nontrivial.add((c["pkg"], c["comp"], c["extra"], c["n"], tuple(c["ops"])))
            continue
        rr = [l for l in r if " @oracle" not in l and not l.split(" ", 2)[1].startswith("@") and " dump " not in " " + l]
        mm = [l for l in m if l.split(" ")[1] not in ("view", "layout")]
        if "0 layout true" not in m and not bad:
            res.violation("hypothesis layout_okb of the C12 theorems does not hold on the file created for %s" % c["id"], case_text(c, seed), found_input=False)
        rr = [l for l in rr if l.split(" ")[1] != "dump"]
        if rr != mm:
            disagreements += 1
            if not bad:
                k = next((i for i in range(max(len(rr), len(mm))) if i >= len(rr) or i >= len(mm) or rr[i] != mm[i]), 0)
                res.violation("model/implementation correspondence broken on %s (set_location model no longer describes the code)" % c["id"],
                              case_text(c, seed) + "# implementation: %s\n# model:          %s\n" % (
                                  rr[k] if k < len(rr) else "<missing>", mm[k] if k < len(mm) else "<missing>"), found_input=False)
        # the hashed view must be constant along the model run (what set_loc_view_invariant proves)
        views = [l for l in m if l.split(" ")[1] == "view"]
        if len(set(v.split(" ", 2)[2] for v in views)) > 1 and not bad:
            res.violation("model view changed along rewrites on %s" % c["id"], case_text(c, seed), found_input=False)
        if any(k != "unknown" and loc != "orig" for k, loc in c["ops"]):
            nontrivial.add((c["pkg"], c["comp"], c["extra"], c["n"], tuple(c["ops"])))
    C.sh(["rm", "-rf", tmp])
    res.cov.update({
        "evaluations": len(cases), "distinct_nontrivial": len(nontrivial), "rewrites": nrewrites,
        "rule": "containers built by BasicCreator (3 packagings x 4 compressions x 0..2 extra packs) then sequences of 1..50 location rewrites "
                "(known packs, unknown uuid, restore); non-trivial = at least one rewrite of a listed pack with a new location; distinct by (config, sequence)",
        "samples": [case_text(c, seed) for c in cases[:2]],
        "disagreements_checked": disagreements, "distinct_location_lengths": len(loclens), "exhaustive": False,
    })
    return res.finish()
