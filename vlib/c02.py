"""C02 — entries read back with exactly the property values they were written with."""
import random
from . import common as C, dirfam as D

PID = "C02"


def rand_value(rng, p, constant=None):
    if constant is not None:
        return constant
    k = p["kind"]
    if k == "u":
        return ("u", rng.choice(D.U_BOUNDS) if rng.random() < 0.6 else rng.randrange(0, 2**rng.choice([4, 9, 17, 33, 64])))
    if k == "s":
        v = rng.choice(D.S_BOUNDS) if rng.random() < 0.6 else rng.randrange(-2**rng.choice([4, 9, 17, 33, 63]), 2**rng.choice([4, 9, 17, 33, 63]))
        return ("s", v)
    if k == "c":
        return ("c", rng.choice([1, 1, 1, 2, 255, 256, 65535]) if rng.random() < 0.5 else 1,
                rng.choice([0, 1, 255, 256, 65535, 65536, 2**24 - 1, 2**24, 2**32 - 1]))
    if k == "a":
        f = p["fixed"]
        ln = rng.choice([0, max(0, f - 1), f, f + 1, 1, 5, 31, 32, 255, 256, 300]) if rng.random() < 0.8 else rng.randint(0, 2000)
        kind = rng.choice("rrtz")
        if ln <= 40 and rng.random() < 0.5:
            b = bytes(rng.choice([0, 0xff, 0x61, 0x62, rng.randrange(256)]) for _ in range(ln))
            return ("a", "x:" + (b.hex() or "-"))
        return ("a", "g:%d:%d:%s" % (ln, rng.randint(1, 50), kind))
    raise ValueError(k)


def gen_schema(rng, cid):
    nstores = rng.choice([1, 1, 2, 3])
    stores = [rng.choice(["plain", "indexed"]) for _ in range(nstores)]
    props, names = [], iter("p%02d" % i for i in range(100))

    def mk(variant):
        k = rng.choice("uusac a".replace(" ", ""))
        p = dict(variant=variant, kind=k, name=next(names))
        if k == "a":
            p["store"] = rng.randrange(nstores)
            p["fixed"] = rng.choice([0, 0, 1, 2, 3, 31])
        return p
    for _ in range(rng.choice([0, 1, 2, 3, 6, 12])):
        props.append(mk(None))
    variant_order = []
    nv = rng.choice([0, 0, 1, 2, 3, 4])
    for v in range(nv):
        vn = "V%d" % v
        variant_order.append(vn)
        for _ in range(rng.choice([0, 0, 1, 2, 4])):
            props.append(mk(vn))
    return dict(id=cid, stores=stores, props=props, variant_order=variant_order, entries=[], indexes=[], finds=[], sort=None)


def gen_cases(seed, tier):
    rng = random.Random(seed)
    cases = []
    n = 70 if tier == "quick" else 700
    for i in range(n):
        c = gen_schema(rng, "e%d" % i)
        nent = rng.choice([0, 1, 2, 3, 8, 25]) if tier == "quick" or rng.random() < 0.9 else rng.choice([300, 300, 1000])
        if nent >= 1000 or (tier != "quick" and i % 233 == 7):
            # thousands of entries: integer and content-address columns only (the list-based model reader is quadratic
            # in the size of a value store, so array columns stay with the smaller stores)
            nent = nent if nent >= 1000 else 3000
            c["props"] = [p for p in c["props"] if p["kind"] != "a"] or [dict(variant=None, kind="u", name="p99")]
        # per column: constant or varying
        const = {}
        for p in c["props"]:
            if rng.random() < 0.3:
                const[p["name"]] = rand_value(rng, p)
        for _ in range(nent):
            variant = rng.choice(c["variant_order"]) if c["variant_order"] else None
            vals = {}
            for p in c["props"]:
                if p["variant"] is None or p["variant"] == variant:
                    vals[p["name"]] = rand_value(rng, p, const.get(p["name"]))
            c["entries"].append(dict(variant=variant, values=vals))
        # index windows
        if nent and rng.random() < 0.6:
            for k in range(rng.choice([1, 2, 3])):
                off = rng.randint(0, nent)
                cnt = rng.randint(0, nent - off)
                c["indexes"].append(("ix%d" % k, off, cnt))
            c["indexes"].append(("all", 0, nent))
        if i % 4 == 3:
            c["delayed"] = True       # the same integers handed over as delayed values (Value::UnsignedWord / SignedWord)
        cases.append(c)
    # corpus: the shapes behind D4 (signed widths) and D5 (variant ending with a constant column / empty variants)
    cases.append(dict(id="e_d4", stores=["plain"], variant_order=[], sort=None, indexes=[], finds=[],
                      props=[dict(variant=None, kind="s", name="a"), dict(variant=None, kind="s", name="b")],
                      entries=[dict(variant=None, values={"a": ("s", 128), "b": ("s", -1000)}),
                               dict(variant=None, values={"a": ("s", -129), "b": ("s", 5)})]))
    # the same signed shapes given as delayed values: widths must include the sign byte there too
    cases.append(dict(id="e_d4w", stores=["plain"], variant_order=[], sort=None, indexes=[], finds=[], delayed=True,
                      props=[dict(variant=None, kind="s", name="a"), dict(variant=None, kind="s", name="b"), dict(variant=None, kind="u", name="c")],
                      entries=[dict(variant=None, values={"a": ("s", 200), "b": ("s", -1000), "c": ("u", 255)}),
                               dict(variant=None, values={"a": ("s", 1), "b": ("s", 5), "c": ("u", 65536)}),
                               dict(variant=None, values={"a": ("s", -2), "b": ("s", 3), "c": ("u", 0)})]))
    cases.append(dict(id="e_d5a", stores=["plain"], variant_order=["A", "B"], sort=None, indexes=[], finds=[],
                      props=[dict(variant="A", kind="u", name="x"), dict(variant="A", kind="u", name="k"),
                             dict(variant="B", kind="u", name="y")],
                      entries=[dict(variant="A", values={"x": ("u", 1), "k": ("u", 7)}),
                               dict(variant="A", values={"x": ("u", 2), "k": ("u", 7)}),
                               dict(variant="B", values={"y": ("u", 3)})]))
    cases.append(dict(id="e_d5b", stores=["plain"], variant_order=["A", "B"], sort=None, indexes=[], finds=[],
                      props=[dict(variant=None, kind="u", name="c")],
                      entries=[dict(variant="A", values={"c": ("u", 1)}), dict(variant="B", values={"c": ("u", 300)})]))
    # value stores with more distinct values than a block-wise search window (around 256, 1024, 4096), followed by
    # duplicates of recent and of old values: every array must still read back as itself
    for kind, nvals in ([("indexed", 1100), ("plain", 300)] if tier == "quick" else [("indexed", 1100), ("indexed", 4200), ("plain", 1100), ("indexed", 260)]):
        props = [dict(variant=None, kind="a", name="arr", fixed=0, store=0), dict(variant=None, kind="u", name="n")]
        vals = ["x:" + ("%06d" % j).encode().hex() for j in range(nvals)]
        seq = vals + [vals[-1], vals[-10], vals[-90], vals[nvals // 2], vals[0], vals[3], vals[-1023 if nvals > 1023 else 1], vals[-1]]
        ents = [dict(variant=None, values={"arr": ("a", v), "n": ("u", j)}) for j, v in enumerate(seq)]
        cases.append(dict(id="vs_%s_%d" % (kind, nvals), stores=[kind], props=props, entries=ents, indexes=[("all", 0, len(ents))],
                          finds=[], variant_order=[], sort=None))
    # representation limits (D10, D11): counts stored in one byte. Beyond 255 the creation must fail;
    # whatever is created must read back exactly ("never stored altered")
    def flat(cid, nprops, nstores):
        if nstores > 1:
            props = [dict(variant=None, kind="a", name="p%d" % i, fixed=1, store=(i * 97) % nstores) for i in range(nprops)]
        else:
            props = [dict(variant=None, kind="u", name="p%d" % i) for i in range(nprops)]
        ents = [dict(variant=None, values={q["name"]: (("u", (e * 7 + i) % 200) if q["kind"] == "u" else ("a", "x:%02x%02x%02x" % (e, i % 256, i // 256)))
                                           for i, q in enumerate(props)}) for e in range(3)]
        return dict(id=cid, stores=["plain"] * nstores, props=props, entries=ents, indexes=[("all", 0, 3)], finds=[], variant_order=[], sort=None, limit=True)
    cases += [flat("lim_k255", 255, 1), flat("lim_k256", 256, 1), flat("lim_k300", 300, 1),
              flat("lim_s255", 4, 255), flat("lim_s256", 4, 256), flat("lim_s300", 4, 300)]
    return cases


def run(tier, seed, replay=None):
    res = C.Result(PID, tier, seed)
    res.assumptions = [
        "file-level composition of the directory pack is not a theorem: covered by running the extracted decoder (dp_dump) on every pack the real creator writes",
        "deported integer properties (never written by the creator) are not modelled",
        "property names are valid UTF-8 (the model does not re-validate)",
    ]
    if not C.proof_layer(res, PID, D.THEORY):
        return res.finish()
    cases = D.parse_replay(replay) if replay else gen_cases(seed, tier)
    rm = D.run_cases(res, cases, seed)
    if rm is None:
        return res.finish()
    R, M = rm
    nontrivial, dis, kinds = set(), 0, {}
    for c in cases:
        r = R.get(c["id"], ["<no output>"])
        m = M.get(c["id"], [])
        exp = D.expected_dump(c)
        bad = None
        if (c.get("limit") or c["id"].startswith("lim_")) and any(l.startswith("create CREATE_FAIL") for l in r):
            kinds["creation refused (limit)"] = kinds.get("creation refused (limit)", 0) + 1
            continue
        if not any(l == "create OK" for l in r):
            bad = "creation failed on a representable schema/entry set: %s" % (r[:2],)
        else:
            got = D.canon_rust(r)
            if got != exp:
                k = next((i for i in range(max(len(got), len(exp))) if i >= len(got) or i >= len(exp) or got[i] != exp[i]), 0)
                bad = "read back differs from what was written:\n#   got:      %s\n#   expected: %s" % (
                    got[k] if k < len(got) else "<missing>", exp[k] if k < len(exp) else "<missing>")
            elif any(l.startswith("past") and not l.endswith("NONE") for l in r):
                bad = "entry past the index window is reachable: %s" % [l for l in r if l.startswith("past")]
            elif "check true" not in r:
                bad = "container does not verify: %s" % [l for l in r if l.startswith("check")]
        if bad:
            res.violation("C02: %s (case %s)" % (bad.split("\n")[0], c["id"]), D.case_text(c, seed) + "# " + bad + "\n")
        mm = D.canon_model(m)
        if mm != exp:
            dis += 1
            if not bad:
                k = next((i for i in range(max(len(mm), len(exp))) if i >= len(mm) or i >= len(exp) or mm[i] != exp[i]), 0)
                res.violation("independent decoder (model) disagrees with what was written on %s: the bytes do not follow the modelled layout" % c["id"],
                              D.case_text(c, seed) + "# model:    %s\n# expected: %s\n" % (
                                  mm[k] if k < len(mm) else "<missing>", exp[k] if k < len(exp) else "<missing>"), found_input=False)
        for p in c["props"]:
            kinds[p["kind"]] = kinds.get(p["kind"], 0) + 1
        if len(c["entries"]) >= 2 and len(c["props"]) >= 2:
            nontrivial.add(D.case_text(c, 0))
    res.cov.update({
        "evaluations": len(cases), "distinct_nontrivial": len(nontrivial),
        "rule": "random schemas (0..12 common properties, 0..4 variants of unequal size incl. empty ones, kinds u/s/a/c, inline prefix 0..31, "
                "plain/indexed stores shared or not), 0..25 entries (thorough: up to 3000), constant and varying columns, integers at byte-width boundaries and both signs, "
                "several index windows; non-trivial = at least 2 entries and 2 properties; distinct by full case text",
        "samples": [D.case_text(c, seed) for c in cases[3:5]],
        "disagreements_checked": dis, "property_kinds": kinds, "exhaustive": False,
    })
    return res.finish()
