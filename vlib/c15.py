"""C15 — references between entries resolve to the referenced entry's final position."""
import random, re
from . import common as C, dirfam as D

PID = "C15"
THEORY = D.THEORY + ["theories/Dir/Refs.v"]


def tree_cases(rng, sizes, prefix="t"):
    """a sort key that is itself a reference (a tree sorted on (parent, id)): the store is re-sorted until stable and the
    positions must be refreshed after every pass. Judged relationally (no predicted order): see refsort_oracle"""
    cases = []
    for k, nent in enumerate(sizes):
        depth, parent = [0], [0]                           # node 0 is the root and its own parent
        for j in range(1, nent):
            p = rng.choice([q for q in range(j) if depth[q] < 6])
            parent.append(p); depth.append(depth[p] + 1)
        ids = rng.sample(range(nent * 3 + 5), nent)
        order = list(range(nent)); rng.shuffle(order)      # insertion order
        where = {node: pos for pos, node in enumerate(order)}
        c = dict(id="%s%d" % (prefix, k), stores=["plain"], variant_order=[], indexes=[], finds=[], sort=["parent", "id"], refsort=True,
                 props=[dict(variant=None, kind="u", name="id"), dict(variant=None, kind="u", name="parent")],
                 entries=[dict(variant=None, values={"id": ("u", ids[node]), "parent": ("r", where[parent[node]])}) for node in order])
        cases.append(c)
    return cases


def gen_cases(seed, tier):
    rng = random.Random(seed)
    cases = []
    sizes = [1, 2, 3, 10, 40, 300] if tier == "quick" else [1, 2, 3, 10, 40, 300, 1000, 5000, 70000]
    n = 30 if tier == "quick" else 120
    for i in range(n + (1 if tier == "quick" else 0)):
        nent = sizes[i % len(sizes)] if i < 2 * len(sizes) else rng.choice(sizes[:6])
        if i == n:
            nent = 65600            # quick tier: one store past 65535 entries (16-bit boundaries of index assignment), sorted
        sorted_store = i % 2 == 0
        c = dict(id="r%d" % i, stores=["plain"], variant_order=[], indexes=[], finds=[],
                 props=[dict(variant=None, kind="u", name="key"), dict(variant=None, kind="u", name="ref"),
                        dict(variant=None, kind="u", name="ref2")],
                 sort=["key"] if sorted_store else None, entries=[])
        keys = rng.sample(range(nent * 3 + 5), nent)
        shape = rng.choice(["random", "self", "forward", "backward", "chain", "first", "last"])
        for j in range(nent):
            t = {"random": rng.randrange(nent), "self": j, "forward": min(nent - 1, j + 1), "backward": max(0, j - 1),
                 "chain": (j + 1) % nent, "first": 0, "last": nent - 1}[shape]
            c["entries"].append(dict(variant=None, values={"key": ("u", keys[j]), "ref": ("r", t), "ref2": ("r", rng.randrange(nent))}))
        cases.append(c)
    cases += tree_cases(rng, [4, 9, 40, 300] if tier == "quick" else [4, 4, 9, 9, 40, 40, 300, 300, 1500])
    return cases


def refsort_oracle(c, lines, bounds):
    """relational oracle for a store sorted on a reference: every stored reference is the final position of the referenced
    entry, the handles report the final positions, and the store is in non-decreasing (parent, id) order as read"""
    ents = []
    for l in lines:
        m = re.match(r"entry \S+ (\d+) v=- id=u(\d+) parent=u(\d+)$", l)
        if m:
            ents.append((int(m.group(2)), int(m.group(3))))
    n = len(c["entries"])
    if len(ents) != n:
        return "%d entries read back, %d written" % (len(ents), n)
    pos_of_id = {i: p for p, (i, _) in enumerate(ents)}
    if len(pos_of_id) != n:
        return "an id was duplicated or lost"
    for j, e in enumerate(c["entries"]):
        my_id, target = e["values"]["id"][1], e["values"]["parent"][1]
        tid = c["entries"][target]["values"]["id"][1]
        if my_id not in pos_of_id or tid not in pos_of_id:
            return "entry id=%d or its target id=%d was not read back" % (my_id, tid)
        stored = ents[pos_of_id[my_id]][1]
        if stored != pos_of_id[tid]:
            return "entry id=%d: stored reference is %d but the referenced entry (id=%d) ended at position %d" % (my_id, stored, tid, pos_of_id[tid])
        if bounds is not None and (j >= len(bounds) or bounds[j] != pos_of_id[my_id]):
            return "the handle of entry id=%d reports %s, its final position is %d" % (my_id, bounds[j] if j < len(bounds) else None, pos_of_id[my_id])
    keys = [(p, i) for i, p in ents]
    if keys != sorted(keys):
        k = next(x for x in range(1, n) if keys[x - 1] > keys[x])
        return "the store is not sorted on (parent, id): position %d holds %s before %s" % (k - 1, keys[k - 1], keys[k])
    return None


def run(tier, seed, replay=None):
    res = C.Result(PID, tier, seed)
    res.assumptions = [
        "stores sorted on a reference-valued key (trees sorted on (parent, id)) are judged relationally: stored reference = final position of the target, handles = final positions, store sorted as read; the order itself is not predicted",
        "rayon's parallel sort / parallel index assignment are modelled as an arbitrary permutation followed by set_idx; sizes crossing rayon's thresholds are run on the real code",
    ]
    if not C.proof_layer(res, PID, THEORY):
        return res.finish()
    cases = D.parse_replay(replay) if replay else gen_cases(seed, tier)
    rm = D.run_cases(res, cases, seed)
    if rm is None:
        return res.finish()
    R, M = rm
    nontrivial, dis = set(), 0
    for c in cases:
        r = R.get(c["id"], ["<no output>"])
        m = M.get(c["id"], [])
        n = len(c["entries"])
        if c.get("refsort") or (c.get("sort") and c["sort"][0] == "parent"):
            rl = D.canon_rust(r)
            b = [l for l in r if l.startswith("bounds ")]
            bad = "creation failed: %s" % (r[:2],) if "create OK" not in r else \
                refsort_oracle(c, rl, [int(x) for x in b[0].split(" ", 1)[1].split(",")] if b else [])
            if bad:
                res.violation("C15: %s (case %s)" % (bad, c["id"]), D.case_text(c, seed) + "# " + bad + "\n")
            mm = D.canon_model(m)
            if [l for l in mm if l.startswith("entry")] != [l for l in rl if l.startswith("entry")]:
                dis += 1
                if not bad:
                    res.violation("independent decoder disagrees with the reader on %s" % c["id"], D.case_text(c, seed), found_input=False)
            nontrivial.add((c["id"], n))
            continue
        order = sorted(range(n), key=lambda i: D.sort_key(c, c["entries"][i])) if c.get("sort") else list(range(n))
        final_pos = {e: p for p, e in enumerate(order)}
        exp = D.expected_dump(c, order=order, final_pos=final_pos)
        bad = None
        if "create OK" not in r:
            bad = "creation failed: %s" % (r[:2],)
        else:
            got = D.canon_rust(r)
            if got != exp:
                k = next((i for i in range(max(len(got), len(exp))) if i >= len(got) or i >= len(exp) or got[i] != exp[i]), 0)
                bad = "a stored reference is not the final position of the referenced entry:\n#   got:      %s\n#   expected: %s" % (
                    got[k] if k < len(got) else "<missing>", exp[k] if k < len(exp) else "<missing>")
            b = [l for l in r if l.startswith("bounds ")]
            want = ",".join(str(final_pos[i]) for i in range(n))
            if not bad and (not b or b[0].split(" ", 1)[1] != want) and n > 0:
                bad = "handles returned by add_entry report %s..., expected final positions %s..." % (b[0][:80] if b else None, want[:80])
        if bad:
            res.violation("C15: %s (case %s)" % (bad.split("\n")[0], c["id"]),
                          (D.case_text(c, seed) if n <= 400 else "# case too large to inline; regenerate with seed %d id %s\n" % (seed, c["id"])) + "# " + bad + "\n")
        mm = D.canon_model(m)
        if mm != exp:
            dis += 1
            if not bad:
                res.violation("independent decoder disagrees with the expected references on %s" % c["id"],
                              D.case_text(c, seed) if n <= 400 else "# large case %s\n" % c["id"], found_input=False)
        if n >= 3 and order != list(range(n)):
            nontrivial.add((c["id"], n))
    res.cov.update({
        "evaluations": len(cases), "distinct_nontrivial": len(nontrivial),
        "rule": "stores of 1..300 entries (thorough: up to 70000, crossing rayon's parallel thresholds) with two reference-valued properties; reference graphs: random, self, forward, backward, chain, all-to-first, all-to-last; sorted and unsorted; "
                "non-trivial = at least 3 entries whose sort actually moves entries",
        "samples": [D.case_text(c, seed)[:800] for c in cases[1:2]],
        "disagreements_checked": dis, "exhaustive": False,
    })
    return res.finish()
