"""Shared damage machinery for C04 (check fails on altered covered bytes), C05 (damaged metadata is
reported, never silently decoded) and C06 (never crashes).  Base containers are built by the real
creator; every damaged variant is read by the real reader in its own child process (debug and
release builds) and by the extracted model reader.  Results are cached per (harness binaries, seed,
tier) so that the three checks share one exploration of the same tree."""
import hashlib, json, os, random, re
from . import common as C, pkgfam as P

BASES = [
    dict(id="b0", pkg="one", comp="none", n=4, extra=0, seed=13),
    dict(id="b1", pkg="one", comp="zstd", n=5, extra=0, seed=14, vs="indexed"),       # strings in an indexed value store
    dict(id="b2", pkg="two", comp="lz4", n=4, extra=1, seed=13, idgap=5),     # the extra pack has id 7: pack ids are not contiguous
    dict(id="b5", pkg="no", comp="none", n=3, extra=0, seed=17, reduced=True),    # every pack in its own file
    # 1100 extra tiny contents: the content-info table of the content pack is a block of more than 4 KiB (mmap path of the file source)
    dict(id="b6", pkg="two", comp="none", n=4, extra=0, seed=19, cmax=7, orphans=1100, sparse=True),
    # 16383 contents: the content-info table with its CRC is exactly 65536 bytes long (block sizes that are multiples of a
    # reader's chunk size). Only flips aimed at the table are run, and only on the real reader: the list-based model needs
    # half a minute to checksum a block of that size, so this base is outside the model tie (`nomodel`)
    dict(id="b7", pkg="two", comp="none", n=4, extra=0, seed=23, cmax=7, orphans=16381, huge=True, nomodel=True),
]
THOROUGH_BASES = [
    dict(id="b3", pkg="no", comp="lzma", n=6, extra=1, seed=15),
    dict(id="b4", pkg="one", comp="lz4", n=9, extra=2, seed=16),
]
KERNEL = "011edc6f41"


def bases(tier):
    return BASES + (THOROUGH_BASES if tier == "thorough" else [])


def files_of(base):
    return {"one": ["c.jbk"], "two": ["c.jbk", "c.jbkc"], "no": ["c.jbk", "c..jbkd", "c.jbkc"]}[base["pkg"]] + \
           ["c.extra%d.jbkc" % k for k in range(base["extra"])]


def info_table_positions(bdir, ranges):
    """byte positions of the first and of the last content-info entries of every content pack (kind byte 'c')"""
    out = []
    for name, ppos, cp, cs, kb, cnt in ranges:
        if int(kb) != 99:
            continue
        b = open(os.path.join(bdir, name), "rb").read()
        ppos = int(ppos)
        content_pos = int.from_bytes(b[ppos + 64:ppos + 72], "little")
        count = int.from_bytes(b[ppos + 80:ppos + 84], "little")
        start, end = ppos + content_pos, ppos + content_pos + 4 * count
        out += [(name, p) for p in list(range(start, min(end, start + 4))) + list(range(max(start, end - 16), end))]
    return out


def gen_ops(base, sizes, tier, rng, ranges=(), aimed=()):
    """list of (file, op)"""
    if base.get("huge"):
        return [("c.jbk", "none")] + [(name, "flip:%d:%s" % (pos, mk)) for name, pos in aimed for mk in ("01", "80")]
    ops = [("c.jbk", "none")]
    for fname in files_of(base):
        if fname != "c.jbk":
            ops.append((fname, "remove"))                  # a pack file that is simply not there
    for fname in files_of(base):
        size = sizes[fname]
        step = 1 if tier == "thorough" or (fname == "c.jbk" and base["id"] == "b0") else 3
        if base.get("reduced") and tier != "thorough":
            step = 7
        if base.get("sparse"):
            step = (5 if fname != "c.jbk" else 11) if tier != "thorough" else 1
        masks = ["01", "80", "ff"] if tier == "thorough" else ["01"]
        for pos in range(0, size, step):
            for mk in masks:
                ops.append((fname, "flip:%d:%s" % (pos, mk)))
            if tier == "quick" and step == 1 and pos % 7 == 0:
                ops.append((fname, "flip:%d:%s" % (pos, rng.choice(["80", "ff", "10"]))))
        # truncations: every length for the first base in thorough; sampled otherwise
        lens = range(0, size) if (tier == "thorough" and base["id"] == "b0") else \
            sorted(set([0, 1, 3, 4, 59, 60, 63, 64, 65, 127, 128, size - 65, size - 64, size - 5, size - 1] +
                       [rng.randrange(size) for _ in range(25)]))
        for ln in lens:
            if 0 <= ln < size:
                ops.append((fname, "trunc:%d" % ln))
        for _ in range(12 if tier == "quick" else 60):
            pos = rng.randrange(size)
            ops.append((fname, "zero:%d:%d" % (pos, rng.choice([2, 4, 16, 64, 300]))))
            ops.append((fname, "write:%d:%s" % (pos, bytes(rng.randrange(256) for _ in range(rng.choice([2, 3, 5, 8]))).hex())))
        ops.append((fname, "append:g:1:1:r"))
        ops.append((fname, "append:g:100:2:r"))
        ops.append((fname, "append:g:64:3:z"))
        # CRC kernel pattern: known finding K1
        if tier == "thorough":
            for pos in range(0, size - 5, 3 if base["id"] == "b0" else 17):
                ops.append((fname, "xor:%d:%s" % (pos, KERNEL)))
        elif base["id"] == "b0":
            for pos in range(0, size - 5, 11):
                ops.append((fname, "xor:%d:%s" % (pos, KERNEL)))
    # CRC-valid alterations aimed at the integrity check itself (known finding K3): the kind byte of every check
    # block and the uuid in every pack header, as located by the model
    for name, ppos, cp, cs, kb, cnt in ranges:
        for pos in (int(ppos) + int(cp), int(ppos) + 12):
            op = (name, "xor:%d:%s" % (pos, KERNEL))
            if op not in ops:
                ops.append(op)
    # not a jubako file at all
    for tok in ["g:0:1:z", "g:10:1:r", "g:59:1:r", "g:60:2:r", "g:64:3:r", "g:200:4:r", "x:6a626b", "x:6a626b43" + "00" * 56,
                "x:6a626b6d01020304000299" + "00" * 53, "g:5000:9:t"]:
        ops.append(("c.jbk", "replace:" + tok))
    return ops


def parse_replay(path):
    """replay file of a damage check -> (base description, file, op)"""
    import ast
    txt = open(path).read()
    m = re.search(r"case \S+ damage base=\S+ main=\S+ file=(\S+) op=(\S+)", txt)
    b = re.search(r"# base container: (\{.*\})", txt)
    if not m or not b:
        return None
    return ast.literal_eval(b.group(1)), m.group(1), m.group(2)


def explore(res, tier, seed, only=None):
    """returns dict: base id -> dict(sizes, ranges, pristine, cases: [dict(file, op, debug:{lines,outcome}, release:{...}, model:[...])]);
    only = (base, file, op): just that damaged variant of that base (replay)"""
    ok, log = C.build_ocaml()
    okd, logd, exed = C.build_harness(False)
    okr, logr, exer = C.build_harness(True)
    if not (ok and okd and okr):
        res.violation("build failed", (log + logd + logr)[-3000:], found_input=False)
        return None
    key = hashlib.sha256()
    for p in (exed, exer, os.path.join(C.OBUILD, "driver"), __file__):
        key.update(open(p, "rb").read())
    key.update(("%s %d" % (tier, seed)).encode())
    cache = os.path.join(C.WORK, "damage_cache_%s.json" % key.hexdigest()[:20])
    the_bases = bases(tier) if only is None else [only[0]]
    if only is not None:
        tier = "replay"
        cache = os.path.join(C.WORK, "damage_cache_replay.json")
    if only is None and os.path.exists(cache):
        res.cov["damage_exploration"] = "reused from cache (same harness binaries, driver, seed, tier)"
        return json.load(open(cache))
    rng = random.Random(seed)
    wd = os.path.join(C.WORK, "damage_%s" % tier)
    C.sh(["rm", "-rf", wd])
    os.makedirs(wd)
    tmp = os.path.join(wd, "tmp")
    # 1. base containers
    with open(os.path.join(wd, "bases.txt"), "w") as f:
        f.write("".join(P.case_text(dict(b, ops=[]), seed) for b in the_bases))
    C.run_rust(exed, os.path.join(wd, "bases.txt"), os.path.join(wd, "bases.out"), tmp)
    out = {}
    allcases = []
    for b in the_bases:
        bdir = os.path.join(tmp, "pk_%s_base" % b["id"])
        sizes = {fn: os.path.getsize(os.path.join(bdir, fn)) for fn in files_of(b)}
        # where the packs and their check blocks are, according to the model
        rf, ro = os.path.join(wd, "ranges_%s.txt" % b["id"]), os.path.join(wd, "ranges_%s.out" % b["id"])
        with open(rf, "w") as f:
            f.write("case r container\nmain %s\n%sranges\nend\n" % (
                os.path.join(bdir, "c.jbk"), "".join("sibling %s %s\n" % (fn, os.path.join(bdir, fn)) for fn in files_of(b) if fn != "c.jbk")))
        C.run_model(rf, ro)
        ranges = [l.split(" ")[1:] for l in C.read_obs(ro).get("r", []) if l.startswith("range ")]
        ops = gen_ops(b, sizes, tier, rng, ranges, info_table_positions(bdir, ranges) if b.get("huge") else ()) if only is None else \
            [("c.jbk", "none"), (only[1], only[2])]
        pre_ranges = ranges
        keep = os.path.join(wd, "bases", b["id"])
        C.sh(["rm", "-rf", keep]); os.makedirs(os.path.dirname(keep), exist_ok=True)
        C.sh(["cp", "-r", bdir, keep])
        bdir = keep
        out[b["id"]] = dict(base=b, dir=bdir, sizes=sizes, pre_ranges=pre_ranges, cases=[dict(id="%s_%d" % (b["id"], i), file=fn, op=op) for i, (fn, op) in enumerate(ops)])
        allcases += [(b, c) for c in out[b["id"]]["cases"]]
    casefile = os.path.join(wd, "cases.txt")
    # several readers at once on a sample of the damaged compressed containers (every one in a replay): the
    # decoder is held back at each chunk so that the readers sleep on its condition variable when it fails
    nmt = 0
    for k, (b, c) in enumerate(allcases):
        if b["comp"] != "none" and c["op"].split(":")[0] in ("flip", "zero", "write", "xor", "trunc") and \
                (only is not None or k % (5 if tier == "quick" else 3) == 0):
            c["mt"] = 4
            nmt += 1
    with open(casefile, "w") as f:
        for b, c in allcases:
            f.write("case %s damage base=%s main=c.jbk file=%s op=%s%s\nend\n" % (
                c["id"], out[b["id"]]["dir"], c["file"], c["op"], (" mt=%d" % c["mt"]) if c.get("mt") else ""))
    # 2. the real reader, one child per case, both profiles
    for prof, exe in (("debug", exed), ("release", exer)):
        of = os.path.join(wd, "rust_%s.out" % prof)
        C.sh([exe, "--isolate", casefile, of, os.path.join(wd, "iso_" + prof), "8000"], timeout=7000)
        R = C.read_obs(of)
        for b, c in allcases:
            ls = R.get(c["id"], [])
            oc = [l.split(" ", 1)[1] for l in ls if l.startswith("outcome ")]
            c[prof] = dict(lines=[l for l in ls if not l.startswith(("outcome ", "@oracle "))], outcome=oc[0] if oc else "NONE",
                           mt=[l[len("@oracle "):] for l in ls if l.startswith("@oracle mt ")])
    # 3. the model reader on the same damaged bytes (+ the checksummed ranges of the pristine files)
    nsh = 16
    shards = [os.path.join(wd, "model_cases_%d.txt" % k) for k in range(nsh)]
    fs = [open(p, "w") for p in shards]
    for i, (b, c) in enumerate(allcases):
        if b.get("nomodel"):
            continue
        f = fs[i % nsh]
        bdir = out[b["id"]]["dir"]
        f.write("case %s container\nmain %s\n" % (c["id"], os.path.join(bdir, "c.jbk")))
        for fn in files_of(b):
            if fn != "c.jbk":
                f.write("sibling %s %s\n" % (fn, os.path.join(bdir, fn)))
        if c["op"] == "none":
            f.write("ranges\n")
        f.write("damage %s %s\nend\n" % (c["file"], c["op"]))
    for f in fs:
        f.close()
    import concurrent.futures
    with concurrent.futures.ThreadPoolExecutor(nsh) as ex:
        list(ex.map(lambda p: C.run_model(p, p + ".out", timeout=7000), shards))
    M = {}
    for p in shards:
        M.update(C.read_obs(p + ".out"))
    for b, c in allcases:
        c["model"] = M.get(c["id"], [])
    for b in the_bases:
        o = out[b["id"]]
        o["ranges"] = [l.split(" ")[1:] for l in o["cases"][0]["model"] if l.startswith("range ")] if not b.get("nomodel") else o["pre_ranges"]
        o["cases"][0]["model"] = [l for l in o["cases"][0]["model"] if not l.startswith("range ")]
    C.sh(["rm", "-rf", tmp, os.path.join(wd, "iso_debug"), os.path.join(wd, "iso_release")])
    json.dump(out, open(cache, "w"))
    # keep the work directory small: only the four most recent explorations are kept
    import glob
    old = sorted(glob.glob(os.path.join(C.WORK, "damage_cache_*.json")), key=os.path.getmtime)[:-4]
    for p in old:
        try:
            os.remove(p)
        except OSError:
            pass
    return out


def covered(o, fname, pos):
    """classification of a byte position of a pristine file: ('covered'|'checkblock'|'exempt'|'uncovered', pack kind)"""
    for name, ppos, cp, cs, kb, cnt in o["ranges"]:
        if name != fname:
            continue
        ppos, cp, cs, kb, cnt = int(ppos), int(cp), int(cs), int(kb), int(cnt)
        if ppos <= pos < ppos + cp:
            if kb == 109:      # manifest: location + CRC of every pack info are exempt
                off = pos - ppos - (cp - cnt * 256)
                if 0 <= off < cnt * 256 and off % 256 >= 38:
                    return "exempt", kb
            return "covered", kb
        if ppos + cp <= pos < ppos + cp + cs + 4:
            return "checkblock", kb
    return "uncovered", 0


def op_positions(op, size):
    p = op.split(":")
    if p[0] == "flip":
        return [int(p[1])]
    if p[0] in ("xor", "write"):
        return list(range(int(p[1]), min(size, int(p[1]) + len(p[2]) // 2)))
    if p[0] == "zero":
        return list(range(int(p[1]), min(size, int(p[1]) + int(p[2]))))
    return []


ERRS = ("ERR_CORRUPT", "ERR_FORMAT", "ERR_VERSION", "ERR_IO", "ERR_NOTJBK", "ERR_FEATURE", "ERR_OOB", "PANIC", "MISSING", "NOPACK", "NOCONTENT")


def is_err(tok):
    return tok.startswith(ERRS)


def changed_positions(o, c):
    """byte positions of the target file whose value really changes (for flip/xor/zero/write)"""
    b = open(os.path.join(o["dir"], c["file"]), "rb").read()
    p = c["op"].split(":")
    out = []
    if p[0] == "flip":
        pos = int(p[1])
        if pos < len(b) and int(p[2], 16) != 0:
            out.append(pos)
    elif p[0] == "xor":
        d = bytes.fromhex(p[2])
        out = [int(p[1]) + i for i, x in enumerate(d) if x and int(p[1]) + i < len(b)]
    elif p[0] == "zero":
        out = [i for i in range(int(p[1]), min(len(b), int(p[1]) + int(p[2]))) if b[i] != 0]
    elif p[0] == "write":
        d = bytes.fromhex(p[2])
        out = [int(p[1]) + i for i, x in enumerate(d) if int(p[1]) + i < len(b) and b[int(p[1]) + i] != x]
    return out


def structure_diff(pristine, damaged):
    """C05 oracle: returns (silent structural differences, content differs without error?)"""
    if not damaged or damaged[0] != "open OK":
        return [], False                       # the open itself failed: reported
    pr = {}
    for l in pristine:
        t = l.split(" ")
        if t[0] in ("index", "entry", "packcount"):
            pr[" ".join(t[:3]) if t[0] == "entry" else " ".join(t[:2])] = t
    diffs, content_differs = [], False
    seen = set()
    failed_scopes = set()
    for l in damaged:
        t = l.split(" ")
        if t[0] in ("index", "store") and len(t) >= 3 and is_err(t[-1]):
            failed_scopes.add(t[1]); continue
        if t[0] not in ("index", "entry", "packcount"):
            continue
        key = " ".join(t[:3]) if t[0] == "entry" else " ".join(t[:2])
        seen.add(key)
        p = pr.get(key)
        if p is None:
            diffs.append("unexpected line: " + l); continue
        if t[0] == "entry":
            if len(t) == 4 and is_err(t[3]):
                continue
            if len(t) != len(p):
                diffs.append("entry shape changed: %s -> %s" % (" ".join(p), l)); continue
            for a, b in zip(p[3:], t[3:]):
                if a == b:
                    continue
                na, _, va = a.partition("=")
                nb, _, vb = b.partition("=")
                if na != nb:
                    diffs.append("property changed: %s -> %s" % (a, b)); continue
                if is_err(vb):
                    continue
                ma, mb = re.match(r"(c\d+:\d+)=(.*)", va), re.match(r"(c\d+:\d+)=(.*)", vb)
                if ma and mb and ma.group(1) == mb.group(1):
                    if is_err(mb.group(2)):
                        continue
                    # raw bytes of a content may differ; its SIZE is structure
                    la = ma.group(2).split(":")[1] if ma.group(2).startswith("d:") else str(max(0, (len(ma.group(2)) - 2) // 2)) if ma.group(2) != "x:-" else "0"
                    lb = mb.group(2).split(":")[1] if mb.group(2).startswith("d:") else str(max(0, (len(mb.group(2)) - 2) // 2)) if mb.group(2) != "x:-" else "0"
                    if la != lb:
                        diffs.append("content size changed silently: %s -> %s" % (a, b))
                    else:
                        content_differs = True
                    continue
                diffs.append("value changed silently: %s -> %s (entry %s)" % (a, b, key))
        elif p != t:
            diffs.append("line changed silently: %s -> %s" % (" ".join(p), l))
    for key in pr:
        if key not in seen:
            scope = key.split(" ")[1]
            if scope not in failed_scopes and key != "packcount":
                diffs.append("line disappeared without an error: " + key)
    return diffs, content_differs


def model_agrees(rust, model):
    """relaxed tie between the implementation's dump and the model's dump of the same damaged bytes"""
    # index free data is shown by the independent decoder only (the library's reader has no accessor for it)
    model = [" ".join(t for t in l.split(" ") if not t.startswith("free=")) if l.startswith(("index ", "alt index ")) else l for l in model]
    if not rust:
        return True                                   # the process died: C06's subject
    alt = [l[4:] for l in model if l.startswith("alt ")]
    if alt:
        # the manifest search walks a hash map: two admissible outcomes on a damaged pack header
        return model_agrees(rust, [l for l in model if not l.startswith("alt ")]) or model_agrees(rust, alt)
    r0, m0 = rust[0], (model[0] if model else "<none>")
    if r0 == "open OK" and m0 == "open OK":
        rr = [l for l in rust if l.startswith(("index", "entry", "packcount"))]
        mm = [l for l in model if l.startswith(("index", "entry", "packcount"))]
        # the implementation looks an index up by name, the model lists the indexes by number: a name that
        # is not found there must not be the name of an index here
        absent = [l.split(" ")[1] for l in rr if l.startswith("index ") and l.endswith(" NONE")]
        if absent:
            names = set(l.split(" ")[1] for l in mm if l.startswith("index "))
            if any(a in names for a in absent):
                return False
            rr = [l for l in rr if not (l.startswith("index ") and l.endswith(" NONE"))]
            mm = [l for l in mm if l.startswith("packcount")]
        if len(rr) != len(mm):
            # the implementation loads the stores of an index when its builder is made, the model when a
            # value is asked for: a failed store shows as one line there, as failed values here
            has_err = lambda ls: any(is_err(tok.split("=")[-1]) for l in ls for tok in l.split(" "))
            return has_err([l for l in rust if l.startswith(("index", "entry", "store"))]) and has_err(mm)
        for a, b in zip(rr, mm):
            if a == b:
                continue
            ta, tb = a.split(" "), b.split(" ")
            if ta[0] == tb[0] and is_err(ta[-1]) and is_err(tb[-1]):
                continue                                          # a failed index has no name in the model's dump
            if len(ta) != len(tb):
                if is_err(ta[-1]) and is_err(tb[-1]):
                    continue
                return False
            for x, y in zip(ta, tb):
                if x == y:
                    continue
                vx, vy = x.partition("=")[2], y.partition("=")[2]
                if is_err(vx.split("=")[-1]) and is_err(vy.split("=")[-1]):
                    continue
                if "COMP:" in y or "=d:" in x or "=x:" in x:      # content bytes: the model does not decompress
                    continue
                return False
        return True
    return r0 != "open OK" and m0 != "open OK"
