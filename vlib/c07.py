"""C07 — concurrent readers of one container always get exactly the stored bytes.  PARTIAL (see Properties/C07.v)."""
import os, random
from . import common as C

PID = "C07"
THEORY = ["theories/Conc/SyncVec.v"]
KINDS = {1: "chunk", 2: "publish", 3: "fail", 4: "wait_begin", 5: "wait_end", 6: "slice"}


def scenarios(tier, rng):
    big = lambda k, s: ["content y g:%d:%d:t" % (2150000 + 1000 * (i % 7), s + i) for i in range(k)]
    mixed = lambda k, s: ["content %s g:%d:%d:%s" % (rng.choice("yyyd"), rng.choice([0, 1, 700, 5000, 70000, 300000, 1200000]), s + i, rng.choice("ttr"))
                          for i in range(k)]
    sc = [
        dict(name="evict", pkg="two", comp="lz4", threads=12, reads=50, perturb=1, contents=big(46, 100)),
        dict(name="slowdec", pkg="one", comp="zstd", threads=8, reads=40, perturb=2, contents=mixed(30, 200) + big(2, 300)),
        dict(name="hot", pkg="two", comp="lz4", threads=24, reads=25, perturb=2, contents=big(3, 400) + mixed(6, 500)),
        dict(name="lzma", pkg="no", comp="lzma", threads=6, reads=25, perturb=1, contents=mixed(14, 600)),
        dict(name="raw", pkg="two", comp="none", threads=8, reads=40, perturb=1, contents=mixed(20, 700)),
        dict(name="failing", pkg="two", comp="lz4", threads=10, reads=20, perturb=2, contents=big(2, 800) + mixed(4, 900),
             damage="2000:ff,2001:ff,2002:ff,2003:ff,90000:ff,90001:ff,400000:55"),
        # the readers are the workers of rayon's global pool: all of them wait on compressed clusters at the same moment
        dict(name="rayon", pkg="two", comp="zstd", threads=16, reads=3, perturb=0, pool="rayon",
             contents=["content y g:%d:%d:t" % (300000 + 1000 * i, 1200 + i) for i in range(20)]),
        dict(name="failzstd", pkg="two", comp="zstd", threads=10, reads=20, perturb=1, contents=big(2, 810) + mixed(4, 910),
             damage="300:ff,301:ff,340:ff"),
    ]
    nseeds = 3 if tier == "quick" else 24
    cases = []
    for s in sc:
        n = nseeds if s["name"] != "evict" else max(1, nseeds // 3)
        for k in range(n):
            cases.append(dict(s, id="%s_%d" % (s["name"], k), seed=rng.randrange(1 << 40)))
    return cases


def case_text(c):
    s = "case %s conc pkg=%s comp=%s threads=%d reads=%d seed=%d perturb=%d%s\n" % (
        c["id"], c["pkg"], c["comp"], c["threads"], c["reads"], c["seed"], c["perturb"],
((" damage=" + c["damage"]) if c.get("damage") else "") + ((" pool=" + c["pool"]) if c.get("pool") else ""))
    return s + "\n".join(c["contents"]) + "\nend\n"


def parse_replay(path):
    cases, cur = [], None
    for l in open(path):
        l = l.rstrip("\n")
        if l.startswith("case "):
            t = l.split(" ")
            kv = dict(x.split("=", 1) for x in t[3:])
            cur = dict(id=t[1], pkg=kv["pkg"], comp=kv["comp"], threads=int(kv["threads"]), reads=int(kv["reads"]), seed=int(kv["seed"]),
                       perturb=int(kv["perturb"]), contents=[], name=t[1])
            if "damage" in kv:
                cur["damage"] = kv["damage"]
            if "pool" in kv:
                cur["pool"] = kv["pool"]
        elif l == "end" and cur:
            cases.append(cur); cur = None
        elif cur is not None and l.startswith("content "):
            cur["contents"].append(l)
    return cases


def run(tier, seed, replay=None):
    res = C.Result(PID, tier, seed)
    res.assumptions = [
        "PARTIAL: the theorems are about the length-publication protocol as a transition system (cell-granular writes, unsynchronised copies, abstract mutex/condvar semantics: a step under the mutex is atomic, notify_all wakes every waiter whose predicate holds); data-race freedom in the sense of the Rust memory model, the soundness of `unsafe impl Send/Sync` and of from_raw_parts on the shared buffer are not expressible in the model",
        "the LRU cluster cache, the RwLock raw->plain switch and the OnceLock pack slots are exercised (more clusters than cache slots, many threads on a cold container) and observed through the bytes returned, not modelled",
        "tie to the code: hook events of every real run (emitted under the mutex where the code holds it) are fed to the extracted recognizer, which is proved to accept only runs of the transition system; schedules are perturbed by seeded yields/sleeps at every hook; each case runs in a child process with a time limit (deadlock = TIMEOUT)",
        "liveness is proved for the model's scheduler-independent facts (no lost wake-up, the decoder always enabled while somebody sleeps, bounded decoder steps); fairness of the OS scheduler and termination of the decompression libraries are assumed",
    ]
    if not C.proof_layer(res, PID, THEORY):
        return res.finish()
    ok, log = C.build_ocaml()
    okd, logd, exed = C.build_harness(False)
    okr, logr, exer = C.build_harness(True)
    if not (ok and okd and okr):
        res.violation("build failed", (log + logd + logr)[-3000:], found_input=False)
        return res.finish()
    rng = random.Random(seed)
    cases = parse_replay(replay) if replay else scenarios(tier, rng)
    wd = res.workdir
    stats = dict(cases=0, reads=0, read_errors=0, buffers=0, events=0, blocked_waits=0, failed_buffers=0, evictions=0, cases_with_eviction=0)
    outcomes, per_scn = {}, {}
    for prof, exe in (("debug", exed), ("release", exer)):
        if replay and prof == "release":
            pass
        casefile = os.path.join(wd, "cases_%s.txt" % prof)
        with open(casefile, "w") as f:
            f.write("seed %d\n" % seed + "".join(case_text(c) for c in cases))
        of = os.path.join(wd, "rust_%s.out" % prof)
        tmp = os.path.join(wd, "iso_" + prof)
        C.sh(["rm", "-rf", tmp])
        C.sh([exe, "--isolate", casefile, of, tmp, "60000"], timeout=7000)
        R = C.read_obs(of)
        mfile = os.path.join(wd, "model_cases_%s.txt" % prof)
        with open(mfile, "w") as f:
            for c in cases:
                f.write("case %s conc threads=%d\n" % (c["id"], c["threads"]))
                for l in R.get(c["id"], []):
                    if l.startswith("@model "):
                        f.write(l[7:] + "\n")
                f.write("end\n")
        mo = os.path.join(wd, "model_%s.out" % prof)
        rc, mlog = C.run_model(mfile, mo, timeout=3000)
        if rc != 0:
            res.violation("model driver crashed (exit %d)" % rc, mlog[-2000:], found_input=False)
        M = C.read_obs(mo)
        for c in cases:
            ls = R.get(c["id"], [])
            stats["cases"] += 1
            oc = [l.split(" ", 1)[1] for l in ls if l.startswith("outcome ")]
            oc = oc[0] if oc else "NONE"
            outcomes[oc] = outcomes.get(oc, 0) + 1
            rl = [l for l in ls if l.startswith("reads ")]
            body = case_text(c)
            if oc != "EXIT0" or not rl:
                what = "deadlock or livelock (no result within 60 s)" if oc == "TIMEOUT" else "the process ended with %s" % oc
                res.violation("C07: %s with %d reader threads on one container (%s, %s build)" % (what, c["threads"], c["id"], prof), body)
                continue
            kv = dict(x.split("=") for x in rl[0].split(" ")[1:])
            stats["reads"] += int(kv["ok"]); stats["read_errors"] += int(kv["errors"])
            per_scn[c["name"]] = per_scn.get(c["name"], 0) + int(kv["ok"])
            bad = [l for l in ls if l.startswith("bad ")]
            if int(kv["bad"]) and not c.get("damage"):
                res.violation("C07: a concurrent read returned bytes that differ from the stored ones (%s, %s build): %s" % (c["id"], prof, bad[0] if bad else ""),
                              body + "".join("# %s\n" % b for b in bad))
            if any("READER_THREAD_PANICKED" in b or "NOT_FOUND" in b for b in bad):
                res.violation("C07: a reader thread panicked or a content was not found (%s, %s build): %s" % (c["id"], prof, bad[0]), body)
            if int(kv["errors"]) and not c.get("damage"):
                res.violation("C07: %s concurrent reads of an undamaged container failed with an error (%s, %s build)" % (kv["errors"], c["id"], prof), body)
            cl = [l for l in ls if l.startswith("cache ")]
            if cl:
                ck = dict(x.split("=") for x in cl[0].split(" ")[1:])
                ev = int(ck["misses"]) - int(ck["distinct"])
                if ev > 0:
                    stats["evictions"] += ev; stats["cases_with_eviction"] += 1
            # blocked waits: a wait for more than what was published when it began
            pub = {}
            for l in ls:
                if l.startswith("@model ev "):
                    _, _, oid, kind, t, a, b = l.split(" ")
                    stats["events"] += 1
                    if kind == "2":
                        pub[oid] = int(a)
                    elif kind == "4" and int(a) > pub.get(oid, 0):
                        stats["blocked_waits"] += 1
            for l in M.get(c["id"], []):
                if l.startswith("buf "):
                    stats["buffers"] += 1
                    if " fails=1" in l:
                        stats["failed_buffers"] += 1
                    if not l.endswith(" accepted"):
                        t = l.split(" ")
                        oid = t[1]
                        evs = [x for x in ls if x.startswith("@model ev %s " % oid)]
                        k = int(t[-1]) if t[-1].isdigit() else len(evs) - 1
                        ctx = evs[max(0, k - 12):k + 1]
                        res.violation("C07: the event trace of a real run is not a run of the proved transition system (%s buffer %s, %s build): %s; rejected event: %s" % (
                            c["id"], oid, prof, " ".join(t[5:]), ctx[-1] if ctx else "?"),
                            body + "# events of buffer %s up to the rejected one (oid kind[1 chunk,2 publish,3 fail,4 wait_begin,5 wait_end,6 slice] thread a b):\n" % oid +
                            "".join("# %s\n" % x for x in ctx))
                elif l.startswith("MODEL_EXN"):
                    res.violation("model driver exception on %s: %s" % (c["id"], l), body, found_input=False)
        C.sh(["rm", "-rf", tmp])
    res.cov.update({
        "evaluations": stats["reads"] + stats["read_errors"], "distinct_nontrivial": stats["blocked_waits"],
        "traces_validated_against_model": stats["buffers"], "events_checked": stats["events"], "process_outcomes": outcomes,
        "reads_per_scenario": per_scn, **stats,
        "rule": "scenarios: >40 big clusters on a 40-slot cache with 12 threads; mixed multi-blob clusters with a slowed decoder; 24 threads on 3 hot contents; lzma; "
                "uncompressed; damaged lz4/zstd streams (decoder failure while readers wait); each x several schedule seeds x debug/release; every read compares its bytes "
                "(whole stream with varying read sizes, get_slice of a sub-range, cut+stream, prefix then drop, tail); non-trivial = a wait that began before its bytes were published",
        "samples": [case_text(c).split("\n")[0] for c in cases[:3]],
        "exhaustive": False,
    })
    return res.finish()
