"""Shared machinery of the checks: building (Coq, extraction+OCaml driver, Rust harness),
proof-layer audit, running both sides, evidence, known findings, verdict lines."""
import fcntl, hashlib, json, os, random, re, subprocess, sys, time

VERIF = os.path.dirname(os.path.dirname(os.path.abspath(__file__)))
REPO = os.environ.get("JBK_REPO", "/repo")
COQ = os.path.join(VERIF, "coq")
WORK = os.path.join(VERIF, "work")
HARNESS = os.path.join(VERIF, "harness")
OCAML = os.path.join(VERIF, "ocaml")
OBUILD = os.path.join(OCAML, "_build")

FORBIDDEN = re.compile(
    r"\b(Admitted|admit|Axiom|Axioms|Parameter|Parameters|Conjecture|Admit Obligations|"
    r"Unset Guard Checking|bypass_check|Unset Positivity Checking|Unset Universe Checking|"
    r"type-in-type|impredicative-set|native_compute)\b")
# Variable/Hypothesis are allowed only inside Sections; checked separately.

ALLOWED_AXIOMS = set()   # the development is closed under the global context


class Build:
    def __init__(self):
        os.makedirs(WORK, exist_ok=True)
        self.lockf = open(os.path.join(WORK, ".build.lock"), "w")

    def __enter__(self):
        fcntl.flock(self.lockf, fcntl.LOCK_EX)
        return self

    def __exit__(self, *a):
        fcntl.flock(self.lockf, fcntl.LOCK_UN)


def sh(cmd, cwd=None, timeout=3600, env=None, check=False):
    e = dict(os.environ)
    e["CARGO_NET_OFFLINE"] = "true"
    if env:
        e.update(env)
    p = subprocess.run(cmd, cwd=cwd, shell=isinstance(cmd, str), stdout=subprocess.PIPE,
                       stderr=subprocess.STDOUT, timeout=timeout, env=e, text=True, errors="replace")
    if check and p.returncode != 0:
        raise RuntimeError("command failed: %s\n%s" % (cmd, p.stdout[-4000:]))
    return p.returncode, p.stdout


def coq_files():
    out = []
    for l in open(os.path.join(COQ, "_CoqProject")):
        l = l.strip()
        if l.endswith(".v"):
            out.append(l)
    return out


def build_coq():
    """Full .vo build through coq_makefile (never -vos). Returns (ok, log)."""
    with Build():
        mk = os.path.join(COQ, "Makefile")
        cp = os.path.join(COQ, "_CoqProject")
        if not os.path.exists(mk) or os.path.getmtime(mk) < os.path.getmtime(cp):
            sh("coq_makefile -f _CoqProject -o Makefile", cwd=COQ, check=True)
        rc, out = sh("timeout 3000 make -j16", cwd=COQ, timeout=3100)
        return rc == 0, out


def audit_sources():
    """grep the whole development for escape hatches. Returns list of problems."""
    problems = []
    for root in (os.path.join(COQ, "theories"), os.path.join(COQ, "extract")):
        for d, _, fs in os.walk(root):
            for f in fs:
                if not f.endswith(".v"):
                    continue
                path = os.path.join(d, f)
                text = open(path).read()
                # strip comments (non-nested is enough for our sources; nested handled by loop)
                prev = None
                while prev != text:
                    prev = text
                    text = re.sub(r"\(\*[^*(]*(?:\*(?!\))[^*(]*|\((?!\*)[^*(]*)*\*\)", " ", text)
                for m in FORBIDDEN.finditer(text):
                    problems.append("%s: forbidden '%s'" % (path, m.group(0)))
                depth = 0
                for line in text.splitlines():
                    s = line.strip()
                    if re.match(r"Section\b", s):
                        depth += 1
                    if re.match(r"End\b", s) and depth > 0:
                        depth -= 1
                    if depth == 0 and re.match(r"(Variable|Variables|Hypothesis|Hypotheses|Context)\b", s):
                        problems.append("%s: '%s' outside a section" % (path, s[:40]))
    return problems


def property_theorems(pid):
    """Compile Properties/<pid>.v on its own (outputs to work/) and parse Print Assumptions.
    Returns (ok, theorems:[{name, assumptions}], log)."""
    src = os.path.join(COQ, "theories", "Properties", pid + ".v")
    os.makedirs(os.path.join(WORK, pid), exist_ok=True)
    os.makedirs(os.path.join(WORK, pid, "audit"), exist_ok=True)
    vo = os.path.join(WORK, pid, "audit", pid + ".vo")
    rc, out = sh(["timeout", "1200", "coqc", "-Q", "theories", "Jbk", "-o", vo, src], cwd=COQ, timeout=1300)
    thms = []
    names = re.findall(r"^\s*(?:Theorem|Corollary|Lemma)\s+(\w+)", open(src).read(), flags=re.M)
    printed = re.findall(r"^\s*Print Assumptions\s+(\w+)\s*\.", open(src).read(), flags=re.M)
    # output: one block per Print Assumptions, in order
    blocks = re.split(r"(?=Closed under the global context|Axioms:)", out)
    blocks = [b for b in blocks if b.startswith("Closed under") or b.startswith("Axioms:")]
    ok = rc == 0 and len(blocks) == len(printed) and set(printed) >= set(names)
    for n, b in zip(printed, blocks):
        if b.startswith("Closed under"):
            thms.append({"name": n, "assumptions": "Closed under the global context"})
        else:
            axs = re.findall(r"^(\S+)\s*:", b, flags=re.M)
            axs = [a for a in axs if a != "Axioms"]
            thms.append({"name": n, "assumptions": "Axioms: " + ", ".join(axs)})
            if not set(axs) <= ALLOWED_AXIOMS:
                ok = False
    return ok, thms, out


def count_proved(files):
    """number of Qed-closed statements in the given theory files (supporting lemmas)."""
    n = 0
    for f in files:
        p = os.path.join(COQ, f)
        if os.path.exists(p):
            n += len(re.findall(r"\bQed\.", open(p).read()))
    return n


def build_ocaml():
    """Re-extract the model and rebuild the driver when any .vo is newer than the driver."""
    with Build():
        os.makedirs(OBUILD, exist_ok=True)
        drv = os.path.join(OBUILD, "driver")
        newest = 0
        for d, _, fs in os.walk(COQ):
            for f in fs:
                if f.endswith(".vo") or (f.endswith(".v") and "extract" in d):
                    newest = max(newest, os.path.getmtime(os.path.join(d, f)))
        for f in os.listdir(OCAML):
            if f.endswith(".ml"):
                newest = max(newest, os.path.getmtime(os.path.join(OCAML, f)))
        if os.path.exists(drv) and os.path.getmtime(drv) >= newest:
            return True, "up to date"
        rc, out = sh(["timeout", "1200", "coqc", "-Q", os.path.join(COQ, "theories"), "Jbk",
                      os.path.join(COQ, "extract", "Extract.v")], cwd=OBUILD, timeout=1300)
        if rc != 0:
            return False, out
        for f in os.listdir(OCAML):
            if f.endswith(".ml"):
                sh(["cp", os.path.join(OCAML, f), OBUILD])
        srcs = ["model.mli", "model.ml", "util.ml"] + \
               sorted(f for f in os.listdir(OCAML) if f.endswith(".ml") and f not in ("util.ml", "driver.ml", "model.ml")) + ["driver.ml"]
        rc, out2 = sh(["ocamlfind", "ocamlopt", "-O2", "-w", "-a"] + srcs + ["-o", "driver"], cwd=OBUILD, timeout=1200)
        return rc == 0, out + out2


def build_harness(release=False):
    """cargo build of the harness against /repo's current working tree, hooks on."""
    with Build():
        lock_src = os.path.join(REPO, "Cargo.lock")
        cmd = ["cargo", "build", "--offline"] + (["--release"] if release else [])
        rc, out = sh(cmd, cwd=HARNESS, timeout=3000)
        if rc != 0 and os.path.exists(lock_src):
            # lock file out of date w.r.t. the repo: re-seed it from the repo's
            sh(["cp", lock_src, os.path.join(HARNESS, "Cargo.lock")])
            rc, out = sh(cmd, cwd=HARNESS, timeout=3000)
        exe = os.path.join(HARNESS, "target", "release" if release else "debug", "jbkv")
        return rc == 0, out, exe


def run_rust(exe, casefile, outfile, tmpdir, timeout=1800):
    os.makedirs(tmpdir, exist_ok=True)
    rc, out = sh([exe, casefile, outfile, tmpdir], timeout=timeout)
    return rc, out


def run_model(casefile, outfile, timeout=1800):
    rc, out = sh(["bash", "-c", "ulimit -s unlimited; exec %s %s %s" %
                  (os.path.join(OBUILD, "driver"), casefile, outfile)], timeout=timeout)
    return rc, out


def run_model_sharded(blocks, workdir, tag="model", nsh=16, timeout=1800):
    """blocks: list of complete 'case ... end' texts. Runs the extracted model on them in up to nsh parallel
    driver processes. Returns (observations, problems) where problems lists shards that crashed or timed out."""
    import concurrent.futures
    nsh = max(1, min(nsh, len(blocks)))
    shards = [os.path.join(workdir, "%s_cases_%d.txt" % (tag, k)) for k in range(nsh)]
    fs = [open(p, "w") for p in shards]
    for i, b in enumerate(blocks):
        fs[i % nsh].write(b if b.endswith("\n") else b + "\n")
    for f in fs:
        f.close()

    def one(p):
        try:
            rc, out = run_model(p, p + ".out", timeout=timeout)
            return p, rc, out
        except Exception as e:
            return p, "TIMEOUT", str(e)[:200]
    M, problems = {}, []
    with concurrent.futures.ThreadPoolExecutor(nsh) as ex:
        for p, rc, out in ex.map(one, shards):
            if rc != 0:
                problems.append("model driver %s on %s: %s" % ("timed out" if rc == "TIMEOUT" else "exit %s" % rc, os.path.basename(p), out[-300:]))
            M.update(read_obs(p + ".out"))
    return M, problems


def read_obs(path):
    """observation file -> {case_id: [lines without the case id]}"""
    d = {}
    if not os.path.exists(path):
        return d
    for l in open(path, errors="replace"):
        l = l.rstrip("\n")
        if not l:
            continue
        cid, _, rest = l.partition(" ")
        d.setdefault(cid, []).append(rest)
    return d


_payload_cache = {}


def gen_bytes(n, seed, kind):
    """the payload generator shared with the harness and the driver"""
    if kind == "z":
        return bytes(n)
    if kind == "t":
        o = seed % 7
        return (b"abcdefg" * (n // 7 + 3))[o:o + n]
    M = (1 << 64) - 1
    x = (seed * 0x9E3779B97F4A7C15 + 1) & M
    if x == 0:
        x = 1
    out = bytearray()
    for _ in range(n):
        x ^= x >> 12
        x ^= (x << 25) & M
        x ^= x >> 27
        out.append(((x * 0x2545F4914F6CDD1D) & M) >> 56)
    return bytes(out)


def payload_bytes(tok):
    if tok.startswith("x:"):
        h = tok[2:]
        return b"" if h == "-" else bytes.fromhex(h)
    if tok in _payload_cache:
        return _payload_cache[tok]
    _, n, seed, kind = tok.split(":")
    b = gen_bytes(int(n), int(seed), kind)
    if len(_payload_cache) < 20000:
        _payload_cache[tok] = b
    return b


def fnv(b):
    import zlib
    return "%d:%08x" % (len(b), zlib.crc32(b) & 0xFFFFFFFF)


def show(b):
    return "x:" + (b.hex() if b else "-") if len(b) <= 64 else "d:" + fnv(b)


def load_known():
    p = os.path.join(VERIF, "known_findings.json")
    if os.path.exists(p):
        return json.load(open(p))["findings"]
    return []


class Result:
    """accumulates the outcome of one check run and writes evidence / verdict"""

    def __init__(self, pid, tier, seed):
        self.pid, self.tier, self.seed = pid, tier, seed
        self.t0 = time.time()
        self.violations = []       # (replay_path, text, found_input:bool)
        self.known_hits = []
        self.cov = {}
        self.assumptions = []
        self.workdir = os.path.join(WORK, pid, tier)
        os.makedirs(self.workdir, exist_ok=True)

    def violation(self, text, replay_body, found_input=True):
        n = len(self.violations)
        path = os.path.join(self.workdir, "replay-%d.case" % n)
        with open(path, "w") as f:
            f.write(replay_body if replay_body.endswith("\n") else replay_body + "\n")
        self.violations.append((path, text, found_input))

    def known(self, kid, text):
        if (kid, text) not in self.known_hits:
            self.known_hits.append((kid, text))

    def finish(self, level="proof"):
        ev = {
            "property_id": self.pid, "tier": self.tier, "seed": self.seed, "level": level,
            "coverage": self.cov, "assumptions": self.assumptions,
            "wall_s": round(time.time() - self.t0, 2), "violations": len(self.violations),
        }
        os.makedirs(os.path.join(VERIF, "evidence"), exist_ok=True)
        with open(os.path.join(VERIF, "evidence", self.pid + ".json"), "w") as f:
            json.dump(ev, f, indent=1, sort_keys=True)
        for kid, text in self.known_hits:
            print("KNOWN-FINDING: property=%s %s %s" % (self.pid, kid, text))
        if self.violations:
            # one line per distinct violation; violations with a concrete failing input come first (the headline)
            ordered = [v for v in self.violations if v[2]] + [v for v in self.violations if not v[2]]
            for path, text, found in ordered[:5]:
                print("# %s" % text)
                print("VIOLATION property=%s replay=%s%s" % (self.pid, path, "" if found else " no-failing-input-found"))
            return 1
        print("OK property=%s tier=%s seed=%d wall=%.1fs" % (self.pid, self.tier, self.seed, time.time() - self.t0))
        return 0


TRUSTED_BASE = [
    "Coq 8.16.1 kernel (coqc, full .vo build via coq_makefile; vm_compute used for closed computations; no native_compute)",
    "extraction: Require Extraction + ExtrOcamlBasic only (bool, option, unit, list, prod, sumbool, sumor -> OCaml; andb/orb inlined); nat/N/Z/positive stay inductive",
    "OCaml 4.13.1 ocamlfind ocamlopt; hand-written ocaml/util.ml + ocaml/driver.ml (parsing/printing only)",
    "Rust harness /verif/harness (jbkv) and the cfg(jubako_verif) verif_api wrappers in /repo",
    "python orchestrator /verif/check + /verif/vlib (generators, diff, oracle, known-finding matching)",
    "the Rust code itself is modelled, not verified: the tie is the differential correspondence on generated cases",
]


def proof_layer(res, pid, theory_files):
    """build + audit; fills coverage keys for level 'proof'. Returns False when the proof layer is broken."""
    ok, log = build_coq()
    problems = audit_sources()
    tok, thms, tlog = (False, [], "") if not ok else property_theorems(pid)
    n_support = count_proved(theory_files)
    res.cov["obligations"] = len(thms) + n_support
    res.cov["discharged"] = (len(thms) if tok else 0) + (n_support if ok else 0)
    res.cov["property_theorems"] = thms
    res.cov["checker_cmd"] = "make -C /verif/coq (coq_makefile, coqc 8.16.1, full .vo) && coqc theories/Properties/%s.v (Print Assumptions)" % pid
    res.cov["trusted_base"] = TRUSTED_BASE
    res.cov["audit_problems"] = problems
    if ok and tok and res.tier == "thorough":
        # independent re-check of the compiled theorems and everything they depend on
        rc, out = sh(["coqchk", "-o", "-silent", "-Q", "theories", "Jbk", "Jbk.Properties.%s" % pid], cwd=COQ, timeout=1500)
        summary = out[out.find("CONTEXT SUMMARY"):] if "CONTEXT SUMMARY" in out else out[-800:]
        clean = rc == 0 and all(("* %s: <none>" % k) in summary for k in (
            "Axioms", "Constants/Inductives relying on type-in-type", "Constants/Inductives relying on unsafe (co)fixpoints",
            "Inductives whose positivity is assumed"))
        res.cov["coqchk"] = "coqchk -o -silent Jbk.Properties.%s: %s" % (pid, "no axiom, no type-in-type, no unsafe fixpoint, no assumed positivity" if clean else "NOT CLEAN")
        if not clean:
            problems.append("coqchk: " + " ".join(summary.split())[:600])
    if not ok or not tok or problems:
        body = "proof layer does not check for %s\n" % pid
        body += "\n".join(problems) + "\n" + (log[-3000:] if not ok else tlog[-3000:])
        res.violation("proof layer broken (theorem file %s.v or audit)" % pid, body, found_input=False)
        return False
    return True
