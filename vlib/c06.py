"""C06 — reading a damaged or truncated file returns a value or an error, never crashes.  PARTIAL:
the theorems carry the bounds discipline of the reader model and the same-or-error behaviour under
truncation, extension and burst damage; crashes, aborts and hangs are behaviours of the Rust runtime
and are observed (every damaged variant read in its own child process, both build profiles)."""
from . import common as C, damage as D

PID = "C06"
THEORY = ["theories/Base/Crc.v", "theories/Base/Parser.v", "theories/Base/Prog.v", "theories/Container/Reader.v",
          "theories/Container/Damage.v"]


def run(tier, seed, replay=None):
    res = C.Result(PID, tier, seed)
    res.assumptions = [
        "PARTIAL: a Gallina function always terminates with a value, so panics, aborts, faults and hangs cannot be exhibited by the model; what is proved is that the reader model never reads outside the file and answers same-or-error on truncated, extended and burst-damaged files",
        "the runtime part is observed, not proved: each damaged variant is opened and fully dumped (indexes, entries, contents, check) in a child process with an 8 s limit, debug (overflow and debug assertions on) and release builds; exit status, signal and panic hook are recorded",
        "storage and transfer damage only; files re-checksummed by an adversary are outside the claim",
    ]
    if not C.proof_layer(res, PID, THEORY):
        return res.finish()
    only = D.parse_replay(replay) if replay else None
    if replay and only is None:
        res.violation("replay file not understood", open(replay).read()[:500], found_input=False)
        return res.finish()
    out = D.explore(res, tier, seed, only)
    if out is None:
        return res.finish()
    n, kinds, outcomes, dis, errs = 0, {}, {}, 0, 0
    known = [k for k in C.load_known() if k["property"] == PID and k["status"] == "known" and k["id"] == "K2"]
    k2_hits = []
    for bid, o in out.items():
        for c in o["cases"]:
            n += 1
            opk = c["op"].split(":")[0]
            kinds[opk] = kinds.get(opk, 0) + 1
            bad = None
            for prof in ("debug", "release"):
                oc = c[prof]["outcome"]
                outcomes[oc] = outcomes.get(oc, 0) + 1
                if oc != "EXIT0":
                    bad = "the reading process ended with %s (%s build)" % (oc, prof)
                elif any("PANIC" in l for l in c[prof]["lines"] + c[prof].get("mt", [])):
                    bad = "panic while reading (%s build): %s" % (prof, next(l for l in c[prof]["lines"] + c[prof].get("mt", []) if "PANIC" in l)[:160])
                elif not c[prof]["lines"]:
                    bad = "the reading process printed nothing (%s build)" % prof
                if bad:
                    break
            if any(D.is_err(t.split("=")[-1]) for l in c["debug"]["lines"] for t in l.split(" ")):
                errs += 1
            if bad and known and opk == "xor" and c["op"].endswith(D.KERNEL):
                k2_hits.append("%s:%s:%s (%s)" % (bid, c["file"], c["op"].split(":")[1], bad[:90]))
            elif bad:
                res.violation("C06: %s after %s on %s of base %s" % (bad, c["op"], c["file"], bid),
                              "case %s damage base=%s main=c.jbk file=%s op=%s%s\nend\n# base container: %s\n# %s\n" % (
                                  c["id"], o["dir"], c["file"], c["op"], " mt=4" if c.get("mt") else "", o["base"], bad))
            elif not (opk == "xor" and c["op"].endswith(D.KERNEL) and any("PANIC" in l for l in c["debug"]["lines"])) \
                    and not o["base"].get("nomodel") and not D.model_agrees(c["debug"]["lines"], c["model"]):
                dis += 1
                if dis <= 3:
                    res.violation("model/implementation correspondence broken on damaged file (%s %s of base %s)" % (c["file"], c["op"], bid),
                                  "case %s damage base=%s main=c.jbk file=%s op=%s\nend\n# base container: %s\n# implementation: %s\n# model:          %s\n" % (
                                      c["id"], o["dir"], c["file"], c["op"], o["base"], c["debug"]["lines"][:3], c["model"][:3]), found_input=False)
    if k2_hits:
        res.known("K2", "CRC-valid altered metadata (kernel pattern 01 1E DC 6F 41) makes the reader panic or abort at %d positions of this run, e.g. %s" % (len(k2_hits), k2_hits[0]))
    res.cov["known_finding_K2_positions"] = len(k2_hits)
    res.cov["cases_also_read_by_4_threads_at_once"] = sum(1 for o in out.values() for c in o["cases"] if c.get("mt"))
    res.cov["multi_thread_reads"] = sum(len(c[prof].get("mt", [])) for o in out.values() for c in o["cases"] for prof in ("debug", "release"))
    res.cov.update({
        "evaluations": 2 * n, "distinct_nontrivial": errs, "damage_kinds": kinds, "process_outcomes": outcomes,
        "rule": "base containers built by the real creator (raw, zstd, lz4 two-file; thorough adds lzma three-file); every byte position x masks, truncation lengths "
                "(thorough: every length of the first base), zeroed / overwritten ranges, appended garbage, files that are not Jubako at all; "
                "non-trivial = the read reports at least one error",
        "samples": ["%s %s" % (o["cases"][min(7, len(o["cases"]) - 1)]["file"], o["cases"][min(7, len(o["cases"]) - 1)]["op"]) for o in out.values()],
        "disagreements_checked": dis, "exhaustive": False,
    })
    return res.finish()
