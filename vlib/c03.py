"""C03 — sorted stores follow the reader's order; lookup finds exactly what was written."""
import itertools, random
from . import common as C, dirfam as D

PID = "C03"
THEORY = D.THEORY + ["theories/Dir/Search.v", "theories/Dir/Order.v"]


def key_pool(rng, fixed, n):
    """distinct byte-string keys sharing prefixes shorter / equal / longer than the inline prefix"""
    base = bytes(rng.choice([0x00, 0x61, 0xff]) for _ in range(fixed + 2))
    keys = {b""}
    for cut in (0, max(0, fixed - 1), fixed, fixed + 1, fixed + 2):
        keys.add(base[:cut])
        for tail in (b"\x00", b"\xff", b"a", b"a\x00", b"ab", b"\x00\x00"):
            keys.add(base[:cut] + tail)
    while len(keys) < n:
        ln = rng.choice([1, 2, fixed, fixed + 1, fixed + 3, 40])
        keys.add(bytes(rng.choice([0, 1, 0x61, 0x62, 0xfe, 0xff]) for _ in range(ln)))
    keys = list(keys)
    rng.shuffle(keys)
    return keys[:n]


def gen_cases(seed, tier):
    rng = random.Random(seed)
    cases = []
    n = 40 if tier == "quick" else 400
    for i in range(n):
        kind = rng.choice(["a", "a", "a", "u", "s", "ua"])
        store = rng.choice(["plain", "indexed"])
        fixed = rng.choice([0, 1, 2, 3, 5, 31])
        nkeys = rng.choice([1, 2, 5, 20, 60]) if tier == "quick" or rng.random() < 0.9 else rng.choice([1000, 5000])
        c = dict(id="s%d" % i, stores=[store, "plain"], variant_order=[], indexes=[], finds=[], props=[], entries=[])
        if kind in ("a", "ua"):
            akeys = key_pool(rng, fixed, nkeys)
        if kind == "u":
            ukeys = rng.sample(D.U_BOUNDS + [rng.randrange(2**40) for _ in range(nkeys + 20)], nkeys)
            ukeys = list(dict.fromkeys(ukeys))
        if kind == "s":
            ukeys = list(dict.fromkeys(rng.sample(D.S_BOUNDS + [rng.randrange(-2**40, 2**40) for _ in range(nkeys + 30)], nkeys)))
        if kind == "ua":
            # two sort keys: a small integer then an array (ties on the first key)
            c["props"] = [dict(variant=None, kind="u", name="k1"), dict(variant=None, kind="a", name="k2", fixed=fixed, store=0),
                          dict(variant=None, kind="u", name="v")]
            c["sort"] = ["k1", "k2"]
            keys = [(("u", rng.randrange(3)), ("a", "x:" + (k.hex() or "-"))) for k in akeys]
            keys = list(dict.fromkeys(keys))
            for j, (a, b) in enumerate(keys):
                c["entries"].append(dict(variant=None, values={"k1": a, "k2": b, "v": ("u", j)}))
        else:
            p = dict(variant=None, kind=kind if kind != "a" else "a", name="k")
            if kind == "a":
                p["fixed"], p["store"] = fixed, 0
                keys = [("a", "x:" + (k.hex() or "-")) for k in akeys]
            else:
                keys = [(kind, k) for k in ukeys]
            c["props"] = [p, dict(variant=None, kind="u", name="v"), dict(variant=None, kind="a", name="other", fixed=1, store=1)]
            c["sort"] = ["k"]
            for j, k in enumerate(keys):
                c["entries"].append(dict(variant=None, values={"k": k, "v": ("u", j), "other": ("a", "g:%d:%d:r" % (j % 5, j))}))
        nent = len(c["entries"])
        # index windows
        wins = [("all", 0, nent)]
        if nent > 2:
            off = rng.randint(0, nent - 1)
            wins.append(("win", off, rng.randint(0, nent - off)))
        c["indexes"] = wins
        # probes: every key (capped), plus absent probes adjacent to present keys
        present = [e["values"] for e in c["entries"]]
        probes = []
        for vals in (present if nent <= 25 else rng.sample(present, 25)):
            probes.append([(nm, vals[nm]) for nm in c["sort"]])
        for vals in (present[:6]):
            nm = c["sort"][-1]
            v = vals[nm]
            if v[0] == "a":
                b = C.payload_bytes(v[1])
                for nb in (b + b"\x00", b[:-1] if b else b"\x01", b + b"\xff"):
                    probes.append([(n2, vals[n2]) for n2 in c["sort"][:-1]] + [(nm, ("a", "x:" + (nb.hex() or "-")))])
            else:
                # the neighbouring integer, kept inside what the property type can hold
                hi = 2**64 - 1 if v[0] == "u" else 2**63 - 1
                nv = v[1] + 1 if v[1] < hi else v[1] - 1
                probes.append([(n2, vals[n2]) for n2 in c["sort"][:-1]] + [(nm, (v[0], nv))])
        for pr in probes:
            for iname, _, _ in wins:
                for ordered in (0, 1):
                    c["finds"].append(dict(index=iname, ordered=ordered, key=pr))
        cases.append(c)
    # insertion orders made of already-sorted runs whose drops fall on round positions (512, 1024, 2048, 4096):
    # a sort (or a sortedness test) that works by blocks must still order the whole store
    for run in ([1024, 512] if tier == "quick" else [256, 512, 1000, 1024, 2048, 4096]):
        nruns = 2 if run >= 2048 else 3
        keys = []
        for r in range(nruns):
            base = (nruns - r) * 10 * run                      # each run is sorted and lies below the previous one
            keys += [base + 3 * j for j in range(run)]
        keys += [5]                                            # and one stray key at the end
        c = dict(id="s%d" % len(cases), stores=["plain", "plain"], variant_order=[], finds=[],
                 props=[dict(variant=None, kind="u", name="k"), dict(variant=None, kind="u", name="v")], sort=["k"],
                 entries=[dict(variant=None, values={"k": ("u", k), "v": ("u", j)}) for j, k in enumerate(keys)],
                 indexes=[("all", 0, len(keys))])
        for k in rng.sample(keys, 12) + [keys[0], keys[run - 1], keys[run], keys[-1], keys[run] + 1]:
            for ordered in (0, 1):
                c["finds"].append(dict(index="all", ordered=ordered, key=[("k", ("u", k))]))
        cases.append(c)
    # exhaustive: all strictly sorted key sequences of length <= 4 over a 3-letter alphabet of 1-2 byte strings
    alpha = [b"", b"\x00", b"a", b"a\x00", b"ab", b"\xff"]
    maxlen = 3 if tier == "quick" else 4
    k = 0
    for ln in range(1, maxlen + 1):
        for combo in itertools.combinations(alpha, ln):
            if tier == "quick" and k % 2:
                k += 1; continue
            k += 1
            c = dict(id="x%d" % len(cases), stores=["plain" if k % 2 else "indexed", "plain"], variant_order=[], finds=[],
                     props=[dict(variant=None, kind="a", name="k", fixed=k % 3, store=0)], sort=["k"], entries=[],
                     indexes=[("all", 0, ln)])
            perm = list(combo); random.Random(k).shuffle(perm)
            for b in perm:
                c["entries"].append(dict(variant=None, values={"k": ("a", "x:" + (b.hex() or "-"))}))
            for b in alpha:
                for ordered in (0, 1):
                    c["finds"].append(dict(index="all", ordered=ordered, key=[("k", ("a", "x:" + (b.hex() or "-")))]))
            cases.append(c)
    return cases


def run(tier, seed, replay=None):
    res = C.Result(PID, tier, seed)
    res.assumptions = [
        "sort keys are unique (the format requires it; with duplicate keys the creator cannot sort and panics)",
        "the ordered comparator is the harness's (the crate ships only an unordered one); it compares through RawValue::partial_cmp (hook)",
        "the model side evaluates the proved search functions (find_binary / find_linear) on the comparison table of the keys decoded by the extracted decoder",
    ]
    if not C.proof_layer(res, PID, THEORY):
        return res.finish()
    from . import c15
    cases = D.parse_replay(replay) if replay else gen_cases(seed, tier) + \
        c15.tree_cases(random.Random(seed + 3), [4, 9, 40, 300] if tier == "quick" else [4, 9, 9, 40, 40, 300, 300, 1500], prefix="tr")
    rm = D.run_cases(res, cases, seed)
    if rm is None:
        return res.finish()
    R, M = rm
    nontrivial, dis, nfinds, hits = set(), 0, 0, 0
    for c in cases:
        r = R.get(c["id"], ["<no output>"])
        m = M.get(c["id"], [])
        bad = None
        n = len(c["entries"])
        if c.get("refsort") or (c.get("sort") and c["sort"][0] == "parent"):
            # sorted on a key that is a reference to entries of the same store: the order is not predicted; the store as
            # read must be in non-decreasing key order (and every reference must designate its target)
            rl = D.canon_rust(r)
            bad = "creation failed: %s" % (r[:2],) if "create OK" not in r else c15.refsort_oracle(c, rl, None)
            if bad:
                res.violation("C03: %s (case %s)" % (bad, c["id"]), D.case_text(c, seed) + "# " + bad + "\n")
            if [l for l in D.canon_model(m) if l.startswith("entry")] != [l for l in rl if l.startswith("entry")]:
                dis += 1
                if not bad:
                    res.violation("independent decoder disagrees with the reader on %s" % c["id"], D.case_text(c, seed), found_input=False)
            nontrivial.add((c["id"], n, "refsort"))
            continue
        order = sorted(range(n), key=lambda i: D.sort_key(c, c["entries"][i]))
        exp = D.expected_dump(c, order=order)
        if "create OK" not in r:
            bad = "creation failed: %s" % (r[:2],)
        else:
            got = D.canon_rust(r)
            if got != exp:
                k = next((i for i in range(max(len(got), len(exp))) if i >= len(got) or i >= len(exp) or got[i] != exp[i]), 0)
                bad = "store is not in the reader's order (or an entry changed):\n#   got:      %s\n#   expected: %s" % (
                    got[k] if k < len(got) else "<missing>", exp[k] if k < len(exp) else "<missing>")
        # lookups
        rf = {l.split(" ")[1]: " ".join(l.split(" ")[2:]) for l in r if l.startswith("find ")}
        mf = {l.split(" ")[1]: " ".join(l.split(" ")[2:]) for l in m if l.startswith("find ")}
        wins = {nm: (o, cn) for nm, o, cn in c["indexes"]}
        for fi, f in enumerate(c["finds"]):
            nfinds += 1
            off, cnt = wins[f["index"]]
            probe = tuple(v[1] if v[0] in "us" else C.payload_bytes(v[1]) for _, v in f["key"])
            where = [p for p in range(off, min(off + cnt, n)) if D.sort_key(c, c["entries"][order[p]]) == probe]
            want = "none" if not where else str(where[0] - off)
            got = rf.get(str(fi), "<missing>")
            gi = got.split(" ")[0]
            if where:
                hits += 1
            if gi != want and not bad:
                bad = "lookup %d (%s, ordered=%d, key %s) answered %s, expected %s" % (fi, f["index"], f["ordered"], f["key"], got, want)
            if mf.get(str(fi)) != gi:
                dis += 1
                if not bad:
                    res.violation("search correspondence broken on %s lookup %d: implementation %s, proved search on the decoded keys %s" % (
                        c["id"], fi, gi, mf.get(str(fi))), D.case_text(c, seed), found_input=False)
        if bad:
            res.violation("C03: %s (case %s)" % (bad.split("\n")[0], c["id"]), D.case_text(c, seed) + "# " + bad + "\n")
        mm = D.canon_model(m)
        if mm != exp and not bad:
            dis += 1
            res.violation("independent decoder disagrees with the expected sorted content on %s" % c["id"], D.case_text(c, seed), found_input=False)
        if n >= 2:
            nontrivial.add(D.case_text(c, 0))
    res.cov.update({
        "evaluations": len(cases), "distinct_nontrivial": len(nontrivial), "lookups": nfinds, "lookups_with_a_match": hits,
        "rule": "sorted stores keyed by arrays (keys sharing prefixes shorter/equal/longer than the inline prefix, 0x00/0xff, empty key), unsigned, signed, "
                "or (integer, array) pairs; plain and indexed stores, prefix 0..31, index windows; every key and adjacent absent keys probed in both search modes; "
                "plus all strictly sorted sequences of <= %d keys over a 6-string alphabet with all 6 probes; non-trivial = at least 2 keys" % (3 if tier == "quick" else 4),
        "samples": [D.case_text(c, seed)[:1500] for c in cases[:1]],
        "disagreements_checked": dis, "exhaustive": False,
    })
    return res.finish()
