"""Shared machinery for the directory-pack properties C02 (values read back), C03 (order / lookup),
C15 (references).  One harness family ('dir'); the model side is the extracted decoder dp_dump."""
import os, random, re
from . import common as C

THEORY = ["theories/Base/ListExtra.v", "theories/Base/Bytes.v", "theories/Base/Crc.v", "theories/Base/Parser.v",
          "theories/Base/Prog.v", "theories/Format/Structs.v", "theories/Content/Pack.v", "theories/Dir/Layout.v",
          "theories/Dir/DirModel.v", "theories/Dir/Variants.v", "theories/Dir/Values.v", "theories/Dir/Descr.v", "theories/Dir/EntryStore.v", "theories/Dir/EntryStoreVariants.v", "theories/Format/Roundtrips.v", "theories/Content/FilePack.v", "theories/Dir/DirFilePack.v"]

U_BOUNDS = [0, 1, 127, 128, 255, 256, 65535, 65536, 2**24 - 1, 2**24, 2**32 - 1, 2**32, 2**40, 2**48 - 1, 2**56, 2**63, 2**64 - 1]
S_BOUNDS = [0, 1, -1, 127, 128, -128, -129, 255, 256, 32767, 32768, -32768, -32769, 2**23 - 1, 2**23, -2**23, -2**23 - 1,
            2**31 - 1, 2**31, -2**31, -2**31 - 1, 2**39, -2**47 - 1, 2**55 - 1, 2**55, -2**55, -2**55 - 1, 2**63 - 1, -2**63]


def val_str(v):
    k = v[0]
    if k == "u":
        return "u%d" % v[1]
    if k == "s":
        return "s%d" % v[1]
    if k == "a":
        return "a:" + v[1]
    if k == "c":
        return "c%d:%d" % (v[1], v[2])
    if k == "r":
        return "r%d" % v[1]
    raise ValueError(v)


def val_show(v, final_pos=None):
    """what the dump shows for a value"""
    k = v[0]
    if k == "u":
        return "u%d" % v[1]
    if k == "s":
        return "s%d" % v[1]
    if k == "a":
        return "a" + C.show(C.payload_bytes(v[1]))
    if k == "c":
        return "c%d:%d" % (v[1], v[2])
    if k == "r":
        return "u%d" % final_pos[v[1]]
    raise ValueError(v)


def case_text(c, seed):
    s = "seed %d\ncase %s dir\n" % (seed, c["id"])
    for i, kind in enumerate(c["stores"]):
        s += "store %d %s\n" % (i, kind)
    for vn in c.get("variant_order", []):
        s += "variant %s\n" % vn
    for p in c["props"]:
        where = "common -" if p["variant"] is None else "variant %s" % p["variant"]
        if p["kind"] == "a":
            s += "prop %s a %s %d %d\n" % (where, p["name"], p["fixed"], p["store"])
        else:
            s += "prop %s %s %s\n" % (where, p["kind"], p["name"])
    if c.get("sort"):
        s += "sort %s\n" % " ".join(c["sort"])
    for e in c["entries"]:
        s += "entry %s %s\n" % (e["variant"] or "-", " ".join("%s=%s" % (n, val_str(v)) for n, v in sorted(e["values"].items())))
    for name, off, cnt in c.get("indexes", []):
        s += "index %s %d %d\n" % (name, off, cnt)
    for name, fr in sorted(c.get("index_free", {}).items()):
        s += "indexfree %s %s\n" % (name, fr)
    if c.get("pack_free"):
        s += "packfree %s\n" % c["pack_free"]
    if c.get("delayed"):
        s += "delayed\n"
    for f in c.get("finds", []):
        s += "find %s ordered=%d %s\n" % (f["index"], f["ordered"], " ".join("%s=%s" % (n, val_str(v)) for n, v in f["key"]))
    return s + "end\n"


def parse_replay(path):
    """replay files are case files; parse back into the dict form"""
    cases, cur = [], None
    for line in open(path):
        t = line.rstrip("\n").split(" ")
        if t[0] == "case":
            cur = dict(id=t[1], stores=[], props=[], entries=[], indexes=[], finds=[], variant_order=[], sort=None)
        elif cur is None:
            continue
        elif t[0] == "store":
            cur["stores"].append(t[2])
        elif t[0] == "variant":
            cur["variant_order"].append(t[1])
        elif t[0] == "prop":
            v = None if t[1] == "common" else t[2]
            if v is not None and v not in cur["variant_order"]:
                cur["variant_order"].append(v)
            p = dict(variant=v, kind=t[3], name=t[4])
            if t[3] == "a":
                p["fixed"], p["store"] = int(t[5]), int(t[6])
            cur["props"].append(p)
        elif t[0] == "sort":
            cur["sort"] = t[1:]
        elif t[0] == "delayed":
            cur["delayed"] = True
        elif t[0] == "entry":
            vals = {}
            for kv in t[2:]:
                n, v = kv.split("=", 1)
                vals[n] = parse_val(v)
            cur["entries"].append(dict(variant=None if t[1] == "-" else t[1], values=vals))
        elif t[0] == "index":
            cur["indexes"].append((t[1], int(t[2]), int(t[3])))
        elif t[0] == "indexfree":
            cur.setdefault("index_free", {})[t[1]] = t[2]
        elif t[0] == "packfree":
            cur["pack_free"] = t[1]
        elif t[0] == "find":
            cur["finds"].append(dict(index=t[1], ordered=int(t[2].split("=")[1]),
                                     key=[(kv.split("=", 1)[0], parse_val(kv.split("=", 1)[1])) for kv in t[3:]]))
        elif t[0] == "end":
            cases.append(cur); cur = None
    return cases


def parse_val(v):
    k, rest = v[0], v[1:]
    if k == "u":
        return ("u", int(rest))
    if k == "s":
        return ("s", int(rest))
    if k == "a":
        return ("a", rest[1:] if rest.startswith(":") else rest)
    if k == "c":
        p, i = rest.split(":")
        return ("c", int(p), int(i))
    if k == "r":
        return ("r", int(rest))
    raise ValueError(v)


def run_cases(res, cases, seed, timeout=1500):
    ok, log = C.build_ocaml()
    if not ok:
        res.violation("model extraction / driver build failed", log[-3000:], found_input=False)
        return None
    ok, log, exe = C.build_harness()
    if not ok:
        res.violation("harness does not build against /repo", log[-3000:], found_input=False)
        return None
    wd = res.workdir
    tmp = os.path.join(wd, "tmp")
    C.sh(["rm", "-rf", tmp])
    casefile = os.path.join(wd, "cases.txt")
    with open(casefile, "w") as f:
        f.write("".join(case_text(c, seed) for c in cases))
    rust_out, model_out, mcases = [os.path.join(wd, x) for x in ("rust.out", "model.out", "model_cases.txt")]
    for p in (rust_out, model_out):
        if os.path.exists(p):
            os.remove(p)
    try:
        rc, log = C.run_rust(exe, casefile, rust_out, tmp, timeout=timeout)
    except Exception as e:
        rc, log = -9, "TIMEOUT %s" % e
    R = C.read_obs(rust_out)
    if rc != 0:
        culprit = next((c for c in cases if c["id"] not in R), cases[-1])
        res.violation("harness died or timed out (rc=%s) around case %s" % (rc, culprit["id"]),
                      case_text(culprit, seed) + "# " + log[-500:].replace("\n", "\n# ") + "\n")
    blocks = []
    for c in cases:
        b = "case %s dir\n" % c["id"]
        for l in R.get(c["id"], []):
            if l.startswith("@model "):
                b += l[len("@model "):] + "\n"
        for fd in c.get("finds", []):
            b += "find %s ordered=%d %s\n" % (fd["index"], fd["ordered"], " ".join("%s=%s" % (n, val_str(v)) for n, v in fd["key"]))
        blocks.append(b + "end\n")
    M, problems = C.run_model_sharded(blocks, wd, timeout=max(timeout, 1800))
    for pr in problems:
        res.violation(pr, "".join(blocks[:1]), found_input=False)
    C.sh(["rm", "-rf", tmp])
    return R, M


def variant_ids(c):
    order = list(c.get("variant_order", []))
    for p in c["props"]:
        if p["variant"] is not None and p["variant"] not in order:
            order.append(p["variant"])
    return {v: i for i, v in enumerate(order)}


def expected_dump(c, order=None, final_pos=None):
    """expected 'index/entry/past' lines; order = list of original entry numbers in stored order"""
    n = len(c["entries"])
    order = list(range(n)) if order is None else order
    final_pos = {e: i for i, e in enumerate(order)} if final_pos is None else final_pos
    vid = variant_ids(c)
    common = sorted(p["name"] for p in c["props"] if p["variant"] is None)
    out = []
    idxs = c.get("indexes") or [("idx", 0, n)]
    for name, off, cnt in idxs:
        fr = c.get("index_free", {}).get(name)
        out.append("index %s store=0 offset=%d count=%d%s" % (name, off, cnt, (" free=" + fr) if fr and fr.strip("0") else ""))
        for j in range(cnt):
            pos = off + j
            if pos >= n:
                out.append("entry %s %d NONE" % (name, j)); continue
            e = c["entries"][order[pos]]
            names = list(common)
            if e["variant"] is not None:
                names += sorted(p["name"] for p in c["props"] if p["variant"] == e["variant"])
            out.append("entry %s %d v=%s%s" % (name, j, "-" if e["variant"] is None else vid[e["variant"]],
                                             "".join(" %s=%s" % (nm, val_show(e["values"][nm], final_pos)) for nm in names)))
    return out


def canon_rust(lines):
    """strip what only the implementation prints; drop the content part of content addresses"""
    out = []
    for l in lines:
        if l.startswith(("@", "open", "packcount", "layout", "past", "check", "create", "bounds", "find")):
            continue
        out.append(re.sub(r"(c\d+:\d+)=\S+", r"\1", l))
    return out


def canon_model(lines):
    return [l for l in lines if not l.startswith(("open", "layout", "find"))]


def sort_key(c, e):
    """the reader's order on the sort properties: numbers numerically, arrays lexicographically on the whole byte string"""
    k = []
    for name in c["sort"]:
        v = e["values"][name]
        k.append(v[1] if v[0] in "us" else C.payload_bytes(v[1]))
    return tuple(k)
