"""Shared machinery for C10 (packaging independence), C11 (missing packs), C14 (independent decoder /
reference corpus): harness family 'pkgs', model family 'container' (Container/Reader.v)."""
import os, re
from . import common as C

THEORY = ["theories/Base/ListExtra.v", "theories/Base/Bytes.v", "theories/Base/Crc.v", "theories/Base/Parser.v",
          "theories/Base/Prog.v", "theories/Format/Structs.v", "theories/Manifest/SetLocation.v", "theories/Content/Pack.v",
          "theories/Dir/Layout.v", "theories/Dir/DirModel.v", "theories/Container/Reader.v", "theories/Container/Proofs.v", "theories/Container/Embed.v", "theories/Container/EmbedPacks.v",
          "theories/Format/Roundtrips.v", "theories/Content/FilePack.v", "theories/Container/ManifestFile.v", "theories/Container/ContainerFile.v", "theories/Container/EndToEnd.v"]


def case_text(c, seed):
    s = "seed %d\ncase %s pkgs pkg=%s comp=%s n=%d extra=%d seed=%d%s\n" % (seed, c["id"], c["pkg"], c["comp"], c["n"], c["extra"], c["seed"],
                                                                             ((" idgap=%d" % c["idgap"]) if c.get("idgap") else "") + ((" cmax=%d" % c["cmax"]) if c.get("cmax") else "") + ((" orphans=%d" % c["orphans"]) if c.get("orphans") else "") + ((" vs=%s" % c["vs"]) if c.get("vs") else ""))
    for op in c.get("ops", []):
        s += " ".join(op) + "\n"
    return s + "end\n"


def parse_replay(path):
    cases = []
    for m in re.finditer(r"case (\S+) pkgs pkg=(\S+) comp=(\S+) n=(\d+) extra=(\d+) seed=(\d+)(?: idgap=(\d+))?(?: cmax=(\d+))?(?: orphans=(\d+))?(?: vs=(\w+))?\n((?:(?!end).*\n)*)end", open(path).read()):
        ops = [tuple(l.split(" ")) for l in m.group(11).splitlines() if l and not l.startswith("#")]
        cases.append(dict(id=m.group(1), pkg=m.group(2), comp=m.group(3), n=int(m.group(4)), extra=int(m.group(5)), seed=int(m.group(6)),
                          idgap=int(m.group(7) or 0), cmax=int(m.group(8) or 0), orphans=int(m.group(9) or 0), vs=m.group(10), ops=ops))
    return cases


def run_cases(res, cases, seed, timeout=1500, model_extra=()):
    ok, log = C.build_ocaml()
    if not ok:
        res.violation("model extraction / driver build failed", log[-3000:], found_input=False)
        return None
    ok, log, exe = C.build_harness()
    if not ok:
        res.violation("harness does not build against /repo", log[-3000:], found_input=False)
        return None
    wd = res.workdir
    tmp = os.path.join(wd, "tmp")
    C.sh(["rm", "-rf", tmp])
    casefile = os.path.join(wd, "cases.txt")
    with open(casefile, "w") as f:
        f.write("".join(case_text(c, seed) for c in cases))
    rust_out, model_out, mcases = [os.path.join(wd, x) for x in ("rust.out", "model.out", "model_cases.txt")]
    for p in (rust_out, model_out):
        if os.path.exists(p):
            os.remove(p)
    try:
        rc, log = C.run_rust(exe, casefile, rust_out, tmp, timeout=timeout)
    except Exception as e:
        rc, log = -9, "TIMEOUT %s" % e
    R = C.read_obs(rust_out)
    if rc != 0:
        culprit = next((c for c in cases if c["id"] not in R), cases[-1])
        res.violation("harness died or timed out (rc=%s) around case %s" % (rc, culprit["id"]),
                      case_text(culprit, seed) + "# " + log[-500:].replace("\n", "\n# ") + "\n")
    with open(mcases, "w") as f:
        for c in cases:
            for tag in ("base", "final"):
                f.write("case %s.%s container\n" % (c["id"], tag))
                for l in R.get(c["id"], []):
                    if l.startswith("@model %s " % tag):
                        f.write(l[len("@model %s " % tag):] + "\n")
                for x in model_extra:
                    f.write(x + "\n")
                f.write("end\n")
    rc, log = C.run_model(mcases, model_out)
    if rc != 0:
        res.violation("model driver crashed (exit %d)" % rc, log[-2000:], found_input=False)
    M = C.read_obs(model_out)
    C.sh(["rm", "-rf", tmp])
    return R, M


def split_state(lines, tag):
    return [l[len(tag) + 1:] for l in lines if l.startswith(tag + " ")]


def canon_rust_state(lines, model_lines):
    """drop implementation-only lines; where the model reports a compressed content (COMP:algo:len) reduce the
    implementation's content bytes to their length so that both sides are comparable"""
    comp = {}
    for l in model_lines:
        for m in re.finditer(r"(c\d+:\d+)=COMP:(\d+):(\d+)", l):
            comp[m.group(1)] = m.group(3)
    out = []
    for l in lines:
        if l.startswith(("layout", "past", "check")):
            continue

        def red(m):
            addr, obs = m.group(1), m.group(2)
            if addr in comp:
                ln = obs.split(":")[1] if obs.startswith("d:") else (str((len(obs) - 2) // 2) if obs.startswith("x:") and obs != "x:-" else ("0" if obs == "x:-" else obs))
                return "%s=LEN:%s" % (addr, ln)
            return m.group(0)
        out.append(re.sub(r"(c\d+:\d+)=(\S+)", red, l))
    return out


def canon_model_state(lines):
    out = []
    for l in lines:
        if l.startswith("layout"):
            continue
        out.append(re.sub(r"(c\d+:\d+)=COMP:\d+:(\d+)", r"\1=LEN:\2", l))
    return out


def oracle_contents(rlines):
    d = {}
    for l in rlines:
        if l.startswith("@oracle content "):
            _, _, addr, obs = l.split(" ", 3)
            d[addr] = obs
    return d


def oracle_uuids(rlines):
    d = {}
    for l in rlines:
        if l.startswith("@oracle uuid "):
            _, _, k, u = l.split(" ")
            d[int(k)] = u
    return d


def pack_number(c, pack_id):
    """position of a pack among the files of a standard container (0 directory, 1 main content pack, 2.. extra packs) from its pack id"""
    return pack_id if pack_id <= 1 else pack_id - c.get("idgap", 0)


def expected_std(n, extra, seed, idgap=0, cmax=0, orphans=0):
    """the logical content harness/src/mkcont.rs std_container writes (entries + content bytes), as dump lines"""
    lines = ["index idx store=0 offset=0 count=%d" % n]
    counts = {}
    for i in range(n):
        name = ("name%d-%d" % (i, seed % 97)).encode()
        if i % 2 == 0:
            ln = [0, 5, 52, 300, 1000, 4100][(i // 2 + seed) % 6]
            ln = ln % (cmax + 1) if cmax else ln
            data = C.gen_bytes(ln, seed + i, "t" if i % 4 == 0 else "r")
            slot = (i // 2) % (1 + extra)
            pack = 1 if slot == 0 else 1 + slot + idgap
            idx = counts.get(pack, orphans if pack == 1 else 0)
            counts[pack] = idx + 1
            lines.append("entry idx %d v=0 AInteger=u%d AString=a%s TheContent=c%d:%d=%s" % (
                i, 1000 + i * 69000, C.show(name), pack, idx, C.show(data)))
        else:
            lines.append("entry idx %d v=1 AInteger=u%d AString=a%s AnotherInt=u%d" % (i, 7 + i, C.show(name), i * 3))
    return lines
