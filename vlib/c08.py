"""C08 — the created container does not depend on how compression workers are scheduled."""
import random
from . import common as C, content as K

PID = "C08"


def gen_cases(seed, tier):
    rng = random.Random(seed)
    cases = []
    n = 18 if tier == "quick" else 150
    for i in range(n):
        workers = [1, 2, 3, 7, 15, 1, 4, 11][i % 8] if tier == "quick" else 1 + (i % 15)
        # many small compressed clusters: force cluster turnover with contents around 1.5 MiB, mixed with raw ones
        nclusters = rng.choice([3, 6, 2 * workers + 3])
        ops = []
        for j in range(nclusters * 3):
            h = rng.choice("yyyn")
            if h == "y":                          # ~1.5 MiB of compressible text: a compressed cluster closes every 2-3 items
                ln = rng.choice([1400000, 1500000, 2100000]) if rng.random() < 0.85 else rng.randint(0, 3000)
                ops.append((h, "mem", "g:%d:%d:t" % (ln, rng.randint(1, 999))))
            else:                                 # raw contents stay small so that the file stays small for the extracted reader
                ops.append((h, "mem", "g:%d:%d:%s" % (rng.randint(0, 3000), rng.randint(1, 999), rng.choice("tr"))))
        cases.append(dict(id="w%d" % i, comp=rng.choice(["zstd:1", "lz4:1", "zstd:3"]), dedup=0,
                          delays=rng.randint(1, 10**6), workers=workers, ops=ops))
    # slow workers: the producer closes compressed clusters faster than w workers take them, so the queue
    # reaches the back-pressure limit (2w) and the producer has to be woken up again, for the smallest worker counts
    for w in ([1, 2, 3] if tier == "quick" else [1, 1, 2, 2, 3, 4, 5]):
        ops = []
        for j in range(2 * w + 5):
            ops.append(("y", "mem", "g:2200000:%d:t" % rng.randint(1, 999)))      # each closes its own compressed cluster
            if j % 2:
                ops.append(("n", "mem", "g:%d:%d:r" % (rng.randint(0, 2000), rng.randint(1, 999))))
        cases.append(dict(id="slow%d_%d" % (w, len(cases)), comp="zstd:1", dedup=0, delays=0, workers=w, slow=60, ops=ops))
    # reversed completion: with w >= 3 workers the clusters are held back the longer the earlier they were closed, so
    # that they reach the writer in decreasing index order (every permutation of a window of w clusters is an admissible
    # schedule; this one is the furthest from the order of insertion)
    for w in ([3, 5] if tier == "quick" else [3, 3, 4, 5, 7, 11]):
        ops = [("y", "mem", "g:2200000:%d:t" % rng.randint(1, 999)) for _ in range(w + 3)]
        ops.insert(2, ("n", "mem", "g:700:%d:r" % rng.randint(1, 999)))
        cases.append(dict(id="rev%d_%d" % (w, len(cases)), comp="zstd:1", dedup=0, delays=0, workers=w, rev=15, ops=ops))
    return cases


def run(tier, seed, replay=None):
    res = C.Result(PID, tier, seed)
    res.assumptions = [
        "PARTIAL: the worker/writer protocol is a transition system (Conc/ClusterWriter.v); real OS scheduling is only perturbed (seeded sleeps/yields in the Progress callbacks) and observed",
        "worker count is set through CPU affinity (taskset): available_parallelism - 1 workers",
        "a run that does not finish within the time limit is reported as non-termination",
    ]
    if not C.proof_layer(res, PID, K.THEORY):
        return res.finish()
    cases = K.parse_replay(replay) if replay else gen_cases(seed, tier)
    rm = K.run_cases(res, cases, seed, timeout=150 if tier == "quick" else 3000)
    if rm is None:
        return res.finish()
    R, M = rm
    nontrivial, dis, orders, traces = set(), 0, 0, 0
    for c in cases:
        bad, d = K.judge(res, c, R, M, seed, {"readback", "sched"})
        dis += d
        if bad:
            res.violation("C08: %s (case %s)" % (bad, c["id"]), K.case_text(c, seed) + "# " + bad + "\n")
        ev = [l for l in R.get(c["id"], []) if l.startswith("@oracle events")]
        if ev:
            traces += 1
            w = [int(t.split(":")[1]) for t in ev[0].split() if t.startswith("written:")]
            if w != sorted(w):
                orders += 1                      # clusters landed in the file out of id order
            if len(w) >= 3:
                nontrivial.add((c["workers"], c["delays"], tuple(w)))
    res.cov.update({
        "evaluations": len(cases), "distinct_nontrivial": len(nontrivial),
        "traces_validated_against_impl": traces, "runs_with_out_of_order_placement": orders,
        "rule": "creation runs with 1..15 workers (CPU affinity), seeded delays at every Progress callback, 3..33 clusters mixing raw and compressed; "
                "non-trivial = at least 3 clusters written; distinct by (workers, delay seed, observed placement order)",
        "samples": [K.case_text(c, seed)[:600] for c in cases[:1]],
        "disagreements_checked": dis, "exhaustive": False,
    })
    return res.finish()
