"""C01 — stored content reads back byte-identical at the address returned on insertion."""
import random
from . import common as C, content as K

PID = "C01"


def gen_cases(seed, tier):
    rng = random.Random(seed)
    cases = []
    comps = ["none", "zstd:5", "zstd:-7", "zstd:19", "lz4:0", "lz4:9", "lzma:1", "lzma:6"]

    def add(comp, dedup, ops):
        cases.append(dict(id="k%d" % len(cases), comp=comp, dedup=dedup, ops=ops))
    # corpus: width boundaries of the cluster tail with incompressible data and hint yes (D3), empty pack, empties
    for comp in ("zstd:5", "lz4:3", "lzma:3"):
        for n in (250, 253, 255, 256, 65535, 65536):
            add(comp, 0, [("y", "mem", "g:%d:%d:r" % (n, n))])
    add("none", 0, [])
    # tiny compressed clusters of mildly redundant data: for these the compressed size meets the plain size (text followed
    # by spaces: the gain just balances the frame overhead); how many of them really have stored size = plain size is
    # measured on every run (coverage: clusters_stored_size_equals_plain_size)
    words = b"the quick brown fox jumps over the lazy dog and runs away from here to there "
    for comp in (("zstd:3", "zstd:1") if tier == "quick" else ("zstd:3", "zstd:1", "zstd:5", "zstd:19", "lz4:3", "lzma:2")):
        for L in (range(24, 84, 3) if tier == "quick" else range(20, 120)):
            add(comp, 0, [("y", "mem", "x:" + (words[:L - 16] + b" " * 16).hex())])
    # the deduplicating adder hashes contents of one cluster size (4 MiB) and more through another path:
    # first occurrences around that size, every hint, memory and file sources, then their duplicates
    for comp in (["zstd:1"] if tier == "quick" else ["zstd:1", "lz4:3"]):
        big = [("y", "mem", "g:4194304:21:t"), ("y", "file", "g:4194305:22:t"), ("n", "mem", "g:4194304:23:r"), ("d", "mem", "g:4200000:24:t"),
               ("y", "mem", "g:4194303:25:t"), ("n", "file", "g:4194310:26:t")]
        if tier == "quick":
            big = [big[0], big[5], big[4]]
        add(comp, 1, big + [("y", "mem", "g:7:1:t")] + [big[0], big[1]])
    add("zstd:5", 0, [("d", "mem", "g:0:1:z"), ("y", "mem", "g:0:2:z"), ("n", "file", "g:0:3:z")])
    # exhaustive small: every sequence of <= 3 items over 4 length classes x 3 hints (quick: <= 2)
    small = [0, 1, 255, 300]
    import itertools
    maxk = 2 if tier == "quick" else 3
    for k in range(1, maxk + 1):
        for combo in itertools.product([(l, h) for l in small for h in "ynd"], repeat=k):
            if tier == "quick" and len(cases) % 3:
                pass
            add("zstd:5" if len(cases) % 2 else "lz4:3", 0,
                [(h, "mem", "g:%d:%d:%s" % (l, 11 + j, "r" if (l + j) % 2 else "t")) for j, (l, h) in enumerate(combo)])
    # random sequences
    nrand = 60 if tier == "quick" else 600
    for i in range(nrand):
        n = rng.choice([1, 2, 5, 20, 60])
        lens = K.LEN_CLASSES if rng.random() < 0.5 else [rng.randint(0, 3000) for _ in range(8)]
        add(rng.choice(comps), int(rng.random() < 0.3), K.gen_ops(rng, n, lens))
    # more than 4095 blobs in one cluster; several compressed clusters (> 4 MiB of data)
    big = 2 if tier == "quick" else 6
    for i in range(big):
        add(rng.choice(["none", "zstd:1"]), 0, [("y" if i % 2 else "n", "mem", "g:%d:%d:t" % (j % 7, j)) for j in range(4200)])
        add("zstd:1", 0, [("y", "mem", "g:%d:%d:t" % (1500000 + 7 * j, j)) for j in range(7)] +
            [("d", "file", "g:%d:9:r" % (2 ** 22 + 1)), ("y", "mem", "g:5:5:t")])
    return cases


def run(tier, seed, replay=None):
    res = C.Result(PID, tier, seed)
    res.assumptions = [
        "file-level composition (placing all blocks of a pack in one byte string) is not a theorem: covered by running the extracted reader on every pack the real creator writes",
        "compression libraries are outside the model: compressed clusters are validated through the Rust read-back (oracle) and their tail/offsets through the extracted decoder",
        "the entropy test is an oracle parameter; payloads whose entropy is within 0.05 of the threshold are not generated",
    ]
    if not C.proof_layer(res, PID, K.THEORY + ["theories/Content/FilePack.v", "theories/Container/Reader.v", "theories/Container/Proofs.v", "theories/Container/EndToEnd.v"]):
        return res.finish()
    cases = K.parse_replay(replay) if replay else gen_cases(seed, tier)
    rm = K.run_cases(res, cases, seed)
    if rm is None:
        return res.finish()
    R, M = rm
    nontrivial, dis, hist = set(), 0, {}
    for c in cases:
        bad, d = K.judge(res, c, R, M, seed, {"readback"})
        dis += d
        if bad:
            res.violation("C01: %s (case %s)" % (bad, c["id"]), K.case_text(c, seed) + "# " + bad + "\n")
        m = M.get(c["id"], [])
        ncl = sum(1 for l in m if l.startswith("cluster "))
        lens = [len(C.payload_bytes(t)) for _, _, t in c["ops"]]
        boundary = any(l in (255, 256, 65535, 65536) for l in lens)
        if ncl >= 2 or boundary or len(c["ops"]) > 4095:
            nontrivial.add((c["comp"], c["dedup"], tuple(c["ops"])))
        for l in lens:
            b = 0 if l == 0 else len(str(l))
            hist[b] = hist.get(b, 0) + 1
    res.cov["clusters_stored_size_equals_plain_size"] = sum(
        1 for c in cases for l in M.get(c["id"], []) if l.startswith("stored ") and l.split(" ")[2] == l.split(" ")[3])
    res.cov.update({
        "evaluations": len(cases), "distinct_nontrivial": len(nontrivial),
        "rule": "insertion sequences (hints x sources mem/file/file-range x 8 compression settings x dedup) incl. corpus of width-boundary cases, "
                "exhaustive sequences of <= %d items over 4 length classes x 3 hints, >4095 blobs, several >4 MiB clusters; "
                "non-trivial = at least 2 clusters, or a length at a 1/2-byte offset-width boundary, or more than 4095 items" % (2 if tier == "quick" else 3),
        "samples": [K.case_text(c, seed) for c in cases[:1] + cases[40:41]],
        "disagreements_checked": dis, "content_length_histogram_by_digits": hist, "exhaustive": False,
    })
    return res.finish()
