"""C14 — written bytes follow the documented layout (independent decoder); old files keep reading the same."""
import json, os, random, re
from . import common as C, pkgfam as P, dirfam as D, c02

PID = "C14"
THEORY = P.THEORY + ["theories/Dir/Descr.v", "theories/Dir/Variants.v", "theories/Container/Canon.v", "theories/Dir/Values.v", "theories/Dir/EntryStore.v", "theories/Dir/EntryStoreVariants.v", "theories/Dir/DirFilePack.v"]
CORPUS = os.path.join(C.VERIF, "corpus")


def reduce_comp(lines, comp_addrs):
    """contents the model reports as compressed are compared by length"""
    def red(m):
        addr, obs = m.group(1), m.group(2)
        if addr in comp_addrs:
            ln = obs.split(":")[1] if obs.startswith("d:") else ("0" if obs == "x:-" else str((len(obs) - 2) // 2) if obs.startswith("x:") else obs)
            return "%s=LEN:%s" % (addr, ln)
        return m.group(0)
    return [re.sub(r"(c\d+:\d+)=(\S+)", red, l) for l in lines]


def run(tier, seed, replay=None):
    res = C.Result(PID, tier, seed)
    res.assumptions = [
        "the independent decoder is the Coq model extracted to OCaml (shares no code with the library); it does not decompress: compressed contents are compared by length, raw contents byte for byte",
        "reference corpus: /verif/corpus, written by the pinned version (fc3306d + hooks) through tools/gen_corpus.py, only inputs on which the pinned writer is correct",
        "spec discrepancies recorded, the pinned code is the reference: indexed value store count is u64 (spec says u32); cluster data has no CRC; container pack size was 5 bytes short before the fix (old files still read)",
    ]
    if not C.proof_layer(res, PID, THEORY):
        return res.finish()
    ok, log = C.build_ocaml()
    ok2, log2, exe = C.build_harness()
    if not ok or not ok2:
        res.violation("build failed", (log + log2)[-3000:], found_input=False)
        return res.finish()
    wd = res.workdir
    tmp = os.path.join(wd, "tmp")
    C.sh(["rm", "-rf", tmp])
    rng = random.Random(seed)
    # ---- part 1: the committed reference corpus, read by the current reader and by the extracted decoder
    idx = json.load(open(os.path.join(CORPUS, "index.json")))
    rtxt = open(replay).read() if replay else ""
    if replay and rtxt.startswith("corpus "):
        want = rtxt.split()[1]
        idx = dict(idx, entries=[e for e in idx["entries"] if e["id"] == want])
    elif replay:
        idx = dict(idx, entries=[])
    ccases = os.path.join(wd, "corpus_cases.txt")
    with open(ccases, "w") as f:
        for e in idx["entries"]:
            f.write("case %s corpus dir=%s main=%s indexes=%s\nend\n" % (e["id"], os.path.join(CORPUS, e["id"]), e["main"], ",".join(e["indexes"])))
    r_out, m_out, mc = [os.path.join(wd, x) for x in ("corpus_rust.out", "corpus_model.out", "corpus_model_cases.txt")]
    rc, log = C.run_rust(exe, ccases, r_out, tmp)
    if rc != 0:
        res.violation("harness crashed on the reference corpus (rc=%s)" % rc, log[-1500:], found_input=False)
    R = C.read_obs(r_out)
    with open(mc, "w") as f:
        for e in idx["entries"]:
            f.write("case %s container\n" % e["id"])
            for l in R.get(e["id"], []):
                if l.startswith("@model "):
                    f.write(l[len("@model "):] + "\n")
            f.write("canon\nend\n")
    C.run_model(mc, m_out)
    M = C.read_obs(m_out)
    ncorpus, dis = 0, 0
    STRUCT = {"1": "pack header", "2": "mirrored header at the end of the pack", "3": "container pack header", "4": "pack locator", "5": "manifest header",
              "6": "pack info", "7": "content pack header", "8": "cluster tail", "9": "directory pack header", "10": "index header", "11": "entry store tail (property descriptors)"}
    ncanon = [0]

    def canon_check(cid, lines, body, what, pinned=False):
        """every structure block must re-serialise (model serialiser) to the bytes it was parsed from"""
        cl = [l.split(" ") for l in lines if l.startswith("canon ")]
        for k, t in enumerate(cl):
                ncanon[0] += 1
                # files written by the pinned version: the container pack declared a size 5 bytes short (defect D14,
                # repaired since), so its mirrored header is not where the declared size says; such files still read
                if pinned and len(t) > 4 and t[2] == "2" and k > 0 and cl[k - 1][2:4] == ["1", "0"] and k + 1 < len(cl) and cl[k + 1][2] == "3":
                    continue
                if t[-1] != "ok":
                    res.violation("C14: in %s %s, the %s at offset %s of %s is not the specified serialisation of what it decodes to" % (
                        what, cid, STRUCT.get(t[2], "structure") if len(t) > 3 else "file", t[3] if len(t) > 4 else "?", t[1]), body)
                    return
    for e in idx["entries"]:
        ncorpus += 1
        canon_check(e["id"], M.get(e["id"], []), "corpus %s\n# run: ./check C14 (the corpus entry is /verif/corpus/%s)\n" % (e["id"], e["id"]), "reference container", pinned=True)
        r = [l for l in R.get(e["id"], []) if l.startswith(("index", "entry"))]
        mm = [l for l in M.get(e["id"], []) if l.startswith(("index", "entry"))]
        comp = set(x.group(1) for l in mm for x in re.finditer(r"(c\d+:\d+)=COMP:", l))
        exp = e["expected"]
        rall = R.get(e["id"], [])
        if r != exp or "check true" not in rall or "open OK" not in rall:
            k = next((i for i in range(max(len(r), len(exp))) if i >= len(r) or i >= len(exp) or r[i] != exp[i]), 0)
            res.violation("C14: reference container %s (written by the pinned version) no longer reads to the same logical content: got %s, reference %s; open/check: %s" % (
                e["id"], r[k] if k < len(r) else "<missing>", exp[k] if k < len(exp) else "<missing>",
                [l for l in rall if l.startswith(("open", "check"))]),
                "corpus %s\n# run: ./check C14 (the corpus entry is /verif/corpus/%s)\n" % (e["id"], e["id"]))
        if P.canon_model_state(mm) != reduce_comp(exp, comp):
            dis += 1
            res.violation("independent decoder does not recover the reference content of corpus entry %s" % e["id"],
                          "corpus %s\n# model: %s\n" % (e["id"], mm[:3]), found_input=False)
    # ---- part 2: fresh containers: the independent decoder must recover exactly what was written
    pcases = []
    for i in range(0 if replay else 9 if tier == "quick" else 60):
        pcases.append(dict(id="f%d" % i, pkg=["one", "two", "no"][i % 3], comp=rng.choice(["none", "zstd", "lz4", "lzma"]),
                           n=rng.choice([0, 1, 4, 9]), extra=rng.choice([0, 1, 2]), seed=rng.randint(1, 10**6), ops=[]))
    if replay and " pkgs " in rtxt:
        pcases = P.parse_replay(replay)
    rm = P.run_cases(res, pcases, seed, model_extra=["canon"]) if pcases else None
    nfresh = 0
    if rm:
        R2, M2 = rm
        for c in pcases:
            nfresh += 1
            canon_check(c["id"], M2.get(c["id"] + ".final", []), P.case_text(c, seed), "freshly written container")
            exp = P.expected_std(c["n"], c["extra"], c["seed"], c.get("idgap", 0), c.get("cmax", 0), c.get("orphans", 0))
            mm = [l for l in M2.get(c["id"] + ".final", []) if l.startswith(("index", "entry"))]
            comp = set(x.group(1) for l in mm for x in re.finditer(r"(c\d+:\d+)=COMP:", l))
            rr = [l for l in P.split_state(R2.get(c["id"], []), "final") if l.startswith(("index", "entry"))]
            if P.canon_model_state(mm) != reduce_comp(exp, comp):
                dis += 1
                got = P.canon_model_state(mm); want = reduce_comp(exp, comp)
                k = next((i for i in range(max(len(got), len(want))) if i >= len(got) or i >= len(want) or got[i] != want[i]), 0)
                # is the library's own reader still happy? then writer and reader drifted together away from the layout
                detail = "library reader %s" % ("agrees with what was written (writer and reader changed symmetrically?)" if rr == exp else "also disagrees")
                res.violation("C14: the independent decoder does not recover what was written from %s (pkg=%s comp=%s): decoded %s, written %s; %s" % (
                    c["id"], c["pkg"], c["comp"], got[k] if k < len(got) else "<missing>", want[k] if k < len(want) else "<missing>", detail),
                    P.case_text(c, seed))
    dcases = [c for c in c02.gen_cases(seed + 1, "quick")][: (25 if tier == "quick" else 70)]
    # free data is opaque to the library's own reader: only the independent decoder can tell whether it is written as given
    for k, c in enumerate(dcases):
        if c.get("indexes") and not replay:
            c["index_free"] = {c["indexes"][0][0]: "%02x%02x%02x%02x" % (1 + k % 250, 2, (3 * k) % 256, 4)}
            c["pack_free"] = ("%02x" % (k % 256)) * 3 + "00" * 20 + "7f"
    # sorted stores whose entries carry references (deferred index values): the written widths and values must be those of
    # the FINAL positions. Inserted in reverse key order, every entry refers to one of the first three inserted, which the
    # sort moves to the end (across the one-byte boundary for 300 entries)
    for nent in ([5, 300] if tier == "quick" else [5, 40, 300, 300, 70000]):
        if replay:
            break
        c = dict(id="rs%d_%d" % (nent, len(dcases)), stores=["plain"], variant_order=[], indexes=[], finds=[], sort=["key"],
                 props=[dict(variant=None, kind="u", name="key"), dict(variant=None, kind="u", name="ref"), dict(variant=None, kind="u", name="back")],
                 entries=[dict(variant=None, values={"key": ("u", 3 * (nent - j) + rng.randrange(3)), "ref": ("r", j % 3), "back": ("r", max(0, j - 1))})
                          for j in range(nent)])
        dcases.append(c)
    if replay:
        dcases = D.parse_replay(replay) if " dir\n" in rtxt else []
    rm = D.run_cases(res, dcases, seed) if dcases else None
    if rm:
        R3, M3 = rm
        for c in dcases:
            nfresh += 1
            if c.get("sort"):
                order = sorted(range(len(c["entries"])), key=lambda i: D.sort_key(c, c["entries"][i]))
                exp = D.expected_dump(c, order=order, final_pos={e: p for p, e in enumerate(order)})
                if "create OK" not in R3.get(c["id"], []):
                    res.violation("C14: a sorted store with references between its entries cannot be written: %s (case %s)" % (R3.get(c["id"], [])[:2], c["id"]),
                                  D.case_text(c, seed) if len(c["entries"]) <= 400 else "# large case %s (seed %d)\n" % (c["id"], seed))
            else:
                exp = D.expected_dump(c)
            mm = D.canon_model(M3.get(c["id"], []))
            if "create OK" in R3.get(c["id"], []) and mm != exp:
                dis += 1
                k = next((i for i in range(max(len(mm), len(exp))) if i >= len(mm) or i >= len(exp) or mm[i] != exp[i]), 0)
                res.violation("C14: the independent decoder does not recover the entries written in directory pack %s: decoded %s, written %s" % (
                    c["id"], mm[k] if k < len(mm) else "<missing>", exp[k] if k < len(exp) else "<missing>"),
                    D.case_text(c, seed) if len(c["entries"]) <= 400 else "# large case %s (seed %d)\n" % (c["id"], seed))
    C.sh(["rm", "-rf", tmp])
    res.cov.update({
        "evaluations": ncorpus + nfresh, "distinct_nontrivial": ncorpus + nfresh - 1,
        "corpus_entries": ncorpus, "fresh_containers": nfresh, "structure_blocks_checked_canonical": ncanon[0],
        "rule": "every file set of the committed reference corpus (35 containers written by the pinned version: 3 packagings x 4 compressions, plain/indexed stores, all property kinds) read by the current reader and by the extracted decoder; "
                "plus fresh whole containers and directory packs decoded by the extracted decoder and compared with what was written; non-trivial = all but the empty container",
        "samples": (["corpus " + idx["entries"][0]["id"] + " " + str(idx["entries"][0]["expected"][:2])] if idx["entries"] else []) +
                   ([P.case_text(pcases[0], seed)] if pcases else []) + ([D.case_text(dcases[0], seed)[:300]] if dcases and replay else []),
        "disagreements_checked": dis, "exhaustive": False,
    })
    return res.finish()
