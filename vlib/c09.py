"""C09 — creation is all-or-nothing at the destination path.  PARTIAL (see Properties/C09.v).
Theorems about the file-system model; tie: the system-call trace of real creations, abstracted to the
model's operations, must be accepted by the extracted recognizer, and the destination directory left
by every injected failure (error return or process death at byte-exact points) must be one of the
crash states the model computes for that trace, with every replaced file complete."""
import concurrent.futures, os, random, re, resource, shutil, signal, subprocess
from . import common as C

PID = "C09"
THEORY = ["theories/Crash/AtomicFs.v"]
SYSCALLS = "openat,open,creat,rename,renameat,renameat2,link,linkat,unlink,unlinkat,write,pwrite64,writev,pwritev,copy_file_range,sendfile,ftruncate,close,lseek,dup,dup2,dup3,fcntl"


def dest_files(v):
    fs = ["c.jbk"]
    if v["pkg"] in ("two", "no"):
        fs.append("c.jbkc")
    if v["pkg"] == "no":
        fs.append("c..jbkd")
    return fs + ["c.extra%d.jbkc" % k for k in range(v["extra"])]


def create_cmd(exe, d, v, seed):
    return [exe, "--create", os.path.join(d, "c.jbk"), v["pkg"], v["comp"], str(v["n"]), str(v["extra"]), str(seed)]


def abstract_trace(text, d):
    """strace -f output -> model operations.  Returns (ops, notes). fds are process-wide (threads share them)."""
    ops, notes = [], []
    fd_temp, fd_pos, temp_of_name, next_t = {}, {}, {}, [1]
    path_id = {}
    direct = []

    def pid_of(name):
        return path_id.setdefault(name, len(path_id))
    pend = {}
    for line in text.splitlines():
        m = re.match(r"^(\d+)\s+(.*)$", line)
        if not m:
            continue
        tid, rest = m.group(1), m.group(2)
        if rest.endswith("<unfinished ...>"):
            pend[tid] = rest[:-len("<unfinished ...>")]
            continue
        m2 = re.match(r"^<\.\.\. (\w+) resumed>(.*)$", rest)
        if m2:
            rest = pend.pop(tid, m2.group(1) + "(") + m2.group(2)
        m = re.match(r"^(\w+)\((.*)\)\s+= (-?\d+|\?)(.*)$", rest)
        if not m:
            continue
        name, args, ret = m.group(1), m.group(2), m.group(3)
        if ret == "?" or int(ret) < 0:
            continue
        ret = int(ret)
        if name in ("openat", "open", "creat"):
            pm = re.search(r'"([^"]*)"', args)
            if not pm:
                continue
            path = pm.group(1)
            if os.path.dirname(path) != d:
                continue
            base = os.path.basename(path)
            writable = "O_WRONLY" in args or "O_RDWR" in args or name == "creat"
            if "O_EXCL" in args and "O_CREAT" in args and base.startswith(".tmp"):
                t = next_t[0]; next_t[0] += 1
                temp_of_name[base] = t
                fd_temp[ret] = t; fd_pos[ret] = 0
                ops.append("mktemp %d" % t)
            elif writable:
                if base in temp_of_name:
                    fd_temp[ret] = temp_of_name[base]; fd_pos[ret] = 0
                else:
                    direct.append(base)
                    fd_temp[ret] = 0; fd_pos[ret] = 0          # temp 0 is never created: the recognizer rejects writes to it
                    notes.append("destination %s opened for writing directly" % base)
        elif name == "close":
            fd = int(args.split(",")[0])
            fd_temp.pop(fd, None); fd_pos.pop(fd, None)
        elif name in ("dup", "dup2", "dup3") or (name == "fcntl" and "F_DUPFD" in args):
            fd = int(args.split(",")[0])
            if fd in fd_temp:
                fd_temp[ret] = fd_temp[fd]; fd_pos[ret] = fd_pos.get(fd, 0)   # shared offset approximated
        elif name == "lseek":
            fd = int(args.split(",")[0])
            if fd in fd_temp:
                fd_pos[fd] = ret
        elif name in ("write", "writev"):
            fd = int(args.split(",")[0])
            if fd in fd_temp:
                ops.append("write %d %d %d" % (fd_temp[fd], fd_pos.get(fd, 0), ret))
                fd_pos[fd] = fd_pos.get(fd, 0) + ret
        elif name in ("pwrite64", "pwritev"):
            fd = int(args.split(",")[0])
            if fd in fd_temp:
                off = int(args.rsplit(",", 1)[1].strip())
                ops.append("write %d %d %d" % (fd_temp[fd], off, ret))
        elif name in ("copy_file_range", "sendfile"):
            a = [x.strip() for x in args.split(",")]
            fd = int(a[2]) if name == "copy_file_range" else int(a[0])
            if fd in fd_temp:
                ops.append("write %d %d %d" % (fd_temp[fd], fd_pos.get(fd, 0), ret))
                fd_pos[fd] = fd_pos.get(fd, 0) + ret
        elif name == "ftruncate":
            fd = int(args.split(",")[0])
            if fd in fd_temp:
                ops.append("write %d %d 0" % (fd_temp[fd], int(args.split(",")[1])))
        elif name in ("rename", "renameat", "renameat2", "link", "linkat"):
            ps = re.findall(r'"([^"]*)"', args)
            if len(ps) != 2 or os.path.dirname(ps[1]) != d:
                continue
            src, dst = os.path.basename(ps[0]), os.path.basename(ps[1])
            if src in temp_of_name:
                ops.append("persist %d %d" % (temp_of_name[src], pid_of(dst)))
                if name.startswith("rename"):
                    del temp_of_name[src]
            else:
                notes.append("rename of a non-temporary %s -> %s" % (src, dst))
                ops.append("persist 0 %d" % pid_of(dst))
        elif name in ("unlink", "unlinkat"):
            pm = re.search(r'"([^"]*)"', args)
            if pm and os.path.dirname(pm.group(1)) == d:
                base = os.path.basename(pm.group(1))
                if base in temp_of_name:
                    ops.append("drop %d" % temp_of_name.pop(base))
                else:
                    notes.append("unlink of destination %s" % base)
    return ops, path_id, notes


def preexec(limit, ignore_sig):
    def f():
        if limit is not None:
            resource.setrlimit(resource.RLIMIT_FSIZE, (limit, limit))
        if ignore_sig:
            signal.signal(signal.SIGXFSZ, signal.SIG_IGN)
    return f


def run_fault(exe, d, v, seed, fault):
    """fault: ('fsize', n, 'die'|'err') | ('inject', syscall, 'error=EIO'|'signal=KILL', k) | ('none',)"""
    cmd = create_cmd(exe, d, v, seed)
    pe = None
    if fault[0] == "fsize":
        pe = preexec(fault[1], fault[2] == "err")
    elif fault[0] == "inject":
        cmd = ["strace", "-f", "-o", "/dev/null", "-e", "trace=%s" % fault[1], "-e", "inject=%s:%s:when=%d" % (fault[1], fault[2], fault[3])] + cmd
    try:
        p = subprocess.run(cmd, stdout=subprocess.DEVNULL, stderr=subprocess.PIPE, preexec_fn=pe, timeout=60)
        return p.returncode, p.stderr.decode(errors="replace")[-300:]
    except subprocess.TimeoutExpired:
        return "TIMEOUT", ""


def fault_name(f):
    return ":".join(str(x) for x in f)


def variants(tier):
    vs = [dict(id="one", pkg="one", comp="zstd", n=6, extra=0), dict(id="two", pkg="two", comp="lz4", n=6, extra=0),
          dict(id="no", pkg="no", comp="none", n=5, extra=0), dict(id="twox", pkg="two", comp="zstd", n=8, extra=2)]
    if tier == "thorough":
        vs += [dict(id="nox", pkg="no", comp="lzma", n=9, extra=1), dict(id="onex", pkg="one", comp="none", n=12, extra=1)]
    return vs


def run(tier, seed, replay=None):
    res = C.Result(PID, tier, seed)
    res.assumptions = [
        "PARTIAL: the theorems are about a file-system model (temporary files, writes, rename as one atomic step, unlink); rename(2) atomicity and directory semantics of the kernel are assumed; a crash is process termination, not power loss (no fsync is issued by the creator, durability is outside the claim)",
        "tie to the code: strace of real creations abstracted to the model's operations must be accepted by the extracted recognizer (writes only to live temporaries, each destination renamed over once, entry point last); the directory left by every injected failure must be one of the crash states the model computes for that trace, and every replaced file must be complete (opens, check() true, all entries and contents read)",
        "failures are injected at byte-exact points with RLIMIT_FSIZE (process death by SIGXFSZ, or EFBIG error return when the signal is ignored) and at system-call granularity with strace fault injection (k-th write / rename / openat fails, or the process is killed there)",
    ]
    if not C.proof_layer(res, PID, THEORY):
        return res.finish()
    ok, log = C.build_ocaml()
    okd, logd, exe = C.build_harness(False)
    if not (ok and okd):
        res.violation("build failed", (log + logd)[-3000:], found_input=False)
        return res.finish()
    rng = random.Random(seed)
    only = None
    if replay:
        import ast
        m = re.search(r"variant (\{.*?\}) pre-existing=(True|False) fault=(\S+)", open(replay).read())
        if not m:
            res.violation("replay file not understood", open(replay).read()[:500], found_input=False)
            return res.finish()
        ft = m.group(3).split(":")
        fault = ("none",) if ft[0] == "none" else ("fsize", int(ft[1]), ft[2]) if ft[0] == "fsize" else ("inject", ft[1], ft[2], int(ft[3]))
        only = (ast.literal_eval(m.group(1)), m.group(2) == "True", fault)
    wd = os.path.join(res.workdir, "runs")
    shutil.rmtree(wd, ignore_errors=True)
    os.makedirs(wd)
    stats = dict(faults=0, died=0, error_returns=0, completed=0, timeouts=0, panics=0, traces=0, states_seen={}, fault_kinds={})
    checks = []      # (variant, pre, fault, dir, rc, observed classification)
    mlines = []
    refs = {}
    for v in (variants(tier) if only is None else [only[0]]):
        for pre in ((False, True) if only is None else (only[1],)):
            key = "%s_%s" % (v["id"], "pre" if pre else "fresh")
            base = os.path.join(wd, key + "_base")
            os.makedirs(base)
            old = {}
            if pre:
                rc, err = run_fault(exe, base, v, 1000 + seed % 1000, ("none",))
                if rc != 0:
                    res.violation("creation of the pre-existing container failed (rc=%s)" % rc, "variant %s\n%s\n" % (v, err), found_input=False)
                    continue
                old = {fn: open(os.path.join(base, fn), "rb").read() for fn in dest_files(v)}
            # reference run under strace
            refd = os.path.join(wd, key + "_ref")
            shutil.copytree(base, refd)
            st = os.path.join(wd, key + ".strace")
            p = subprocess.run(["strace", "-f", "-o", st, "-e", "trace=" + SYSCALLS] + create_cmd(exe, refd, v, 7 + seed % 100),
                               stdout=subprocess.DEVNULL, stderr=subprocess.PIPE, timeout=120)
            if p.returncode != 0:
                res.violation("reference creation failed under strace (rc=%s)" % p.returncode, "variant %s pre=%s\n%s\n" % (v, pre, p.stderr.decode()[-400:]), found_input=False)
                continue
            ops, path_id, notes = abstract_trace(open(st).read(), refd)
            files = dest_files(v)
            for fn in files:
                path_id.setdefault(fn, len(path_id))
            sizes = {fn: os.path.getsize(os.path.join(refd, fn)) for fn in files}
            stats["traces"] += 1
            mlines.append("case %s crash\nentry %d\npaths %s\n%s\nend\n" % (key, path_id["c.jbk"], " ".join(str(path_id[fn]) for fn in files), "\n".join(ops)))
            refs[key] = dict(v=v, pre=pre, base=base, old=old, files=files, sizes=sizes, notes=notes, nops=len(ops),
                             nren=sum(1 for o in ops if o.startswith("persist")), nwr=sum(1 for o in ops if o.startswith("write")),
                             trace=ops)
            checks.append((key, ("none",), refd, 0))
    # the model's verdict on the reference traces
    mfile = os.path.join(res.workdir, "model_cases.txt")
    open(mfile, "w").write("".join(mlines))
    C.run_model(mfile, os.path.join(res.workdir, "model.out"))
    M = C.read_obs(os.path.join(res.workdir, "model.out"))
    for key, r in refs.items():
        ml = M.get(key, [])
        acc = [l for l in ml if l.startswith("accepts ")]
        sts = [l for l in ml if l.startswith("states ")]
        r["states"] = set(sts[0].split(" ")[1].split(",")) if sts else set()
        if not acc or not acc[0].startswith("accepts true"):
            res.violation("C09: the system-call trace of a real creation is not accepted by the proved recognizer (%s: %s %s)" % (key, acc[0] if acc else ml, "; ".join(r["notes"])),
                          "variant %s pre-existing=%s fault=none\n# abstracted trace:\n%s\n" % (r["v"], r["pre"], "\n".join("# " + o for o in r["trace"])))
    # fault plan
    plan = []
    for key, r in (refs.items() if only is None else []):
        mx = max(r["sizes"].values())
        if tier == "thorough":
            ns = list(range(0, mx + 2))
        else:
            pts = set([0, 1, 59, 60, 63, 64, 65, 127, 128, 129, 191, 192, 255, 256, 257, mx - 65, mx - 64, mx - 1, mx, mx + 1])
            for s in r["sizes"].values():
                pts.update([s - 65, s - 64, s - 5, s - 1, s])
            pts.update(rng.randrange(mx + 1) for _ in range(14))
            ns = sorted(p for p in pts if 0 <= p <= mx + 1)
        for n in ns:
            plan.append((key, ("fsize", n, "die")))
            plan.append((key, ("fsize", n, "err")))
        for k in range(1, r["nren"] + 2):
            plan.append((key, ("inject", "renameat", "signal=KILL", k)))
            plan.append((key, ("inject", "renameat", "error=EIO", k)))
        wks = range(1, r["nwr"] + 2) if tier == "thorough" else sorted(set([1, 2, 3, r["nwr"] // 2, r["nwr"] - 1, r["nwr"]] + [rng.randrange(1, r["nwr"] + 1) for _ in range(6)]))
        for k in wks:
            if k >= 1:
                plan.append((key, ("inject", "write", "error=ENOSPC", k)))
                plan.append((key, ("inject", "write", "signal=KILL", k)))
        for k in range(1, 5):
            plan.append((key, ("inject", "openat", "error=EACCES", 0 - k)))   # resolved below: counted from the first temp creation

    if only is not None and only[2][0] != "none":
        f = only[2]
        plan = [(key, ("inject", "openat", f[2], -f[3]) if f[0] == "inject" and f[1] == "openat" else f) for key in refs]

    def do(item):
        i, (key, fault) = item
        r = refs[key]
        d = os.path.join(wd, "%s_f%d" % (key, i))
        shutil.copytree(r["base"], d)
        f = fault
        if fault[0] == "inject" and fault[1] == "openat":
            # openat calls before the first temporary file are the loader's: skip them by path filter
            f = ("inject", "openat", fault[2], -fault[3])
            cmd = ["strace", "-f", "-o", "/dev/null", "-P", d, "-e", "trace=openat", "-e", "inject=openat:%s:when=%d" % (f[2], f[3])] + create_cmd(exe, d, r["v"], 7 + seed % 100)
            try:
                p = subprocess.run(cmd, stdout=subprocess.DEVNULL, stderr=subprocess.PIPE, timeout=60)
                rc = p.returncode
            except subprocess.TimeoutExpired:
                rc = "TIMEOUT"
        else:
            rc, _ = run_fault(exe, d, r["v"], 7 + seed % 100, f)
        return key, f, d, rc
    with concurrent.futures.ThreadPoolExecutor(14) as ex:
        for out in ex.map(do, enumerate(plan)):
            checks.append(out)
    # examine every directory
    cf = os.path.join(res.workdir, "dircheck.txt")
    with open(cf, "w") as f:
        for i, (key, fault, d, rc) in enumerate(checks):
            f.write("case d%d dircheck dir=%s main=c.jbk\n%s\nend\n" % (i, d, "\n".join("pack " + fn for fn in refs[key]["files"][1:])))
    of = os.path.join(res.workdir, "dircheck.out")
    C.sh([exe, "--isolate", cf, of, os.path.join(res.workdir, "iso"), "20000"], timeout=3000)
    Dk = C.read_obs(of)
    nontrivial = 0
    for i, (key, fault, d, rc) in enumerate(checks):
        r = refs[key]
        stats["faults"] += 1
        fk = fault[0] if fault[0] != "inject" else "%s:%s" % (fault[1], fault[2].split("=")[0])
        if fault[0] == "fsize":
            fk = "fsize:" + fault[2]
        stats["fault_kinds"][fk] = stats["fault_kinds"].get(fk, 0) + 1
        if rc == "TIMEOUT":
            stats["timeouts"] += 1
        elif rc == 0:
            stats["completed"] += 1
        elif isinstance(rc, int) and rc < 0:
            stats["died"] += 1
        elif rc == 3:
            stats["error_returns"] += 1
        elif rc == 101:
            stats["panics"] += 1
        cls = []
        for fn in r["files"]:
            p = os.path.join(d, fn)
            if not os.path.exists(p):
                cls.append("absent")
            elif r["pre"] and open(p, "rb").read() == r["old"].get(fn):
                cls.append("old")
            else:
                cls.append("new")
        vec = "".join("1" if c == "new" else "0" for c in cls)
        stats["states_seen"][vec] = stats["states_seen"].get(vec, 0) + 1
        lines = Dk.get("d%d" % i, [])
        body = "variant %s pre-existing=%s fault=%s exit=%s\n# destination files %s -> %s\n# %s\n# replay: %s with the fault applied (RLIMIT_FSIZE / strace inject as named)\n" % (
            r["v"], r["pre"], fault_name(fault), rc, r["files"], cls, " | ".join(lines), " ".join(create_cmd("harness/target/debug/jbkv", "<dir>", r["v"], 7 + seed % 100)))
        if rc not in (0,) and fault[0] != "none":
            nontrivial += 1
        # 1. old-or-complete per path
        for fn, c in zip(r["files"], cls):
            if r["pre"] and c == "absent":
                res.violation("C09: after a failed creation (%s) the previous complete file %s is gone" % (fault_name(fault), fn), body)
            if not r["pre"] and c == "old":
                pass
        main = [l for l in lines if l.startswith("main ")]
        if cls[0] == "new":
            okm = main and "open_OK" in main[0] and "check_true" in main[0] and "errors=0" in main[0] and ("entries=%d" % r["v"]["n"]) in main[0]
            if not okm:
                res.violation("C09: after %s (exit %s) the destination c.jbk holds a container that is not complete: %s" % (fault_name(fault), rc, main[0] if main else lines), body)
        for fn, c in zip(r["files"][1:], cls[1:]):
            if c == "new":
                pl = [l for l in lines if l.startswith("pack %s " % fn)]
                if not pl or not pl[0].endswith("check_true"):
                    res.violation("C09: after %s (exit %s) the pack file %s is present but not complete: %s" % (fault_name(fault), rc, fn, pl[0] if pl else lines), body)
        # 2. the observed directory state is one of the model's crash states for this trace (entry point never first)
        if r["states"] and vec not in r["states"]:
            res.violation("C09: after %s the destination directory is in a state (%s over %s) that no prefix of the accepted trace produces (model crash states: %s)" % (
                fault_name(fault), vec, r["files"], sorted(r["states"])), body)
        if fault[0] == "none" and (rc != 0 or vec != "1" * len(cls)):
            res.violation("the reference creation did not produce all its files (%s)" % cls, body, found_input=False)
    shutil.rmtree(wd, ignore_errors=True)
    shutil.rmtree(os.path.join(res.workdir, "iso"), ignore_errors=True)
    res.cov.update({
        "evaluations": stats["faults"], "distinct_nontrivial": nontrivial, **stats,
        "trace_ops": {k: r["nops"] for k, r in refs.items()}, "model_crash_states": {k: sorted(r["states"]) for k, r in refs.items()},
        "rule": "packagings one/two/no (+extra content packs), each with and without a complete container already at the destination; failure at every file size n "
                "(quick: boundaries + samples) as SIGXFSZ death and as EFBIG error return; k-th rename killed / failed for every k; k-th write failed / killed; "
                "k-th openat in the destination directory refused; non-trivial = the creation did not complete",
        "samples": [fault_name(f) for _, f, _, _ in checks[len(refs):len(refs) + 4]],
        "exhaustive": False,
    })
    return res.finish()
