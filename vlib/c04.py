"""C04 — created packs verify; any later change to checksummed bytes makes the check fail."""
import os, random
from . import common as C, damage as D, pkgfam as P

PID = "C04"
THEORY = ["theories/Base/Crc.v", "theories/Base/Parser.v", "theories/Base/Prog.v", "theories/Manifest/Mask.v",
          "theories/Manifest/SetLocation.v", "theories/Container/Reader.v", "theories/Container/Damage.v",
          "theories/Container/Check.v", "theories/Container/Embed.v", "theories/Container/EmbedPacks.v"]


def gen_created(tier, rng):
    cs = [dict(id="v0", pkg="one", comp="none", n=0, extra=0, seed=1),
          dict(id="v1", pkg="two", comp="lzma", n=7, extra=2, seed=2),
          dict(id="v2", pkg="no", comp="zstd", n=12, extra=1, seed=3),
          dict(id="v3", pkg="no", comp="lz4", n=1, extra=0, seed=4),
          dict(id="v4", pkg="two", comp="none", n=6, extra=2, seed=5, idgap=9)]
    for i in range(8 if tier == "quick" else 60):
        cs.append(dict(id="w%d" % i, pkg=rng.choice(["one", "two", "no"]), comp=rng.choice(["none", "lz4", "lzma", "zstd"]),
                       n=rng.choice([0, 1, 2, 3, 5, 9, 17, 40]), extra=rng.choice([0, 0, 1, 2]), seed=rng.randrange(1 << 30),
                       idgap=rng.choice([0, 0, 1, 30])))
    return cs


def created_verify(res, tier, seed, rng, exe, cases=None):
    """every created container passes its check, and the digest it stores is blake3 over exactly the
    bytes the model says the check covers (masked view for the manifest)"""
    wd = os.path.join(res.workdir, "created")
    C.sh(["rm", "-rf", wd]); os.makedirs(wd)
    tmp = os.path.join(wd, "tmp")
    cases = cases or gen_created(tier, rng)
    with open(os.path.join(wd, "cases.txt"), "w") as f:
        f.write("".join(P.case_text(dict(c, ops=[]), seed) for c in cases))
    rc, log = C.run_rust(exe, os.path.join(wd, "cases.txt"), os.path.join(wd, "rust.out"), tmp)
    R = C.read_obs(os.path.join(wd, "rust.out"))
    n_ok, n_packs, dist = 0, 0, {}
    files = {}
    with open(os.path.join(wd, "model_cases.txt"), "w") as f:
        for c in cases:
            ls = P.split_state(R.get(c["id"], []), "base")
            key = "%s/%s" % (c["pkg"], c["comp"]); dist[key] = dist.get(key, 0) + 1
            if "check true" not in ls:
                res.violation("a freshly created container does not pass its own integrity check (%s)" % [l for l in ls if l.startswith(("check", "open"))],
                              P.case_text(dict(c, ops=[]), seed))
                continue
            n_ok += 1
            bdir = os.path.join(tmp, "pk_%s_base" % c["id"])
            names = sorted(fn for fn in os.listdir(bdir) if os.path.isfile(os.path.join(bdir, fn)))
            files[c["id"]] = (bdir, names)
            f.write("case %s container\nmain %s\n" % (c["id"], os.path.join(bdir, "c.jbk")))
            for fn in names:
                if fn != "c.jbk":
                    f.write("sibling %s %s\n" % (fn, os.path.join(bdir, fn)))
            f.write("ranges\nend\n")
    C.run_model(os.path.join(wd, "model_cases.txt"), os.path.join(wd, "model.out"))
    M = C.read_obs(os.path.join(wd, "model.out"))
    want = {}
    with open(os.path.join(wd, "hash_cases.txt"), "w") as f:
        for c in cases:
            if c["id"] not in files:
                continue
            bdir, names = files[c["id"]]
            rs = [l.split(" ")[1:] for l in M.get(c["id"], []) if l.startswith("range ")]
            seen_files = set(r[0] for r in rs)
            if seen_files != set(names):
                res.violation("the model reader finds no pack in %s of a created container: the model no longer describes the layout" % sorted(set(names) - seen_files),
                              P.case_text(dict(c, ops=[]), seed), found_input=False)
            for k, (name, ppos, cp, cs, kb, cnt) in enumerate(rs):
                ppos, cp, cs, kb, cnt = int(ppos), int(cp), int(cs), int(kb), int(cnt)
                if kb == 67:        # container pack: no checksum of its own (check is the conjunction of its packs)
                    continue
                b = open(os.path.join(bdir, name), "rb").read()
                blk = b[ppos + cp: ppos + cp + cs]
                hid = "%s.%d" % (c["id"], k)
                zero = ""
                if kb == 109:
                    po = ppos + cp - cnt * 256
                    zero = ",".join("%d-%d" % (po + j * 256 + 38, po + (j + 1) * 256) for j in range(cnt))
                want[hid] = (c, name, ppos, cp, blk)
                f.write("case %s hash file=%s start=%d len=%d zero=%s\nend\n" % (hid, os.path.join(bdir, name), ppos, cp, zero))
    C.run_rust(exe, os.path.join(wd, "hash_cases.txt"), os.path.join(wd, "hash.out"), os.path.join(wd, "tmp2"))
    Hh = C.read_obs(os.path.join(wd, "hash.out"))
    for hid, (c, name, ppos, cp, blk) in want.items():
        n_packs += 1
        got = [l.split(" ")[1] for l in Hh.get(hid, []) if l.startswith("blake3 ")]
        if len(blk) != 33 or blk[0] != 1 or not got or blk[1:].hex() != got[0]:
            res.violation("pack at %s:%d: the stored digest is not blake3 over the %d bytes the model says the check covers" % (name, ppos, cp),
                          P.case_text(dict(c, ops=[]), seed) + "# pack at %s offset %d, check block %s, blake3 over model range %s\n" % (name, ppos, blk.hex(), got),
                          found_input=False)
    C.sh(["rm", "-rf", tmp, os.path.join(wd, "tmp2")])
    return n_ok, n_packs, dist


def run(tier, seed, replay=None):
    res = C.Result(PID, tier, seed)
    res.assumptions = [
        "blake3 is a parameter H of the model; collision-freeness is not assumed: the theorem says a passing check on altered covered bytes exhibits a collision of H",
        "the bytes a check covers are taken from the model (file_ranges, mask_exact); that the implementation hashes exactly these is checked on every created pack with the blake3 crate the library uses",
        "damaged variants are read by the real reader in child processes, debug and release builds",
        "the container pack has no checksum of its own (Container::check is the conjunction over the packs present): its header, locator table and the 64-byte pack tails are not covered bytes",
    ]
    if not C.proof_layer(res, PID, THEORY):
        return res.finish()
    rng = random.Random(seed)
    okd, logd, exed = C.build_harness(False)
    ok, log = C.build_ocaml()
    if not (ok and okd):
        res.violation("build failed", (log + logd)[-3000:], found_input=False)
        return res.finish()
    only = D.parse_replay(replay) if replay else None
    if replay and only is None:
        rc = P.parse_replay(replay)
        if not rc:
            res.violation("replay file not understood", open(replay).read()[:500], found_input=False)
            return res.finish()
        n_ok, n_packs, dist = created_verify(res, tier, seed, rng, exed, cases=rc)
        res.cov.update({"evaluations": len(rc), "distinct_nontrivial": n_packs, "rule": "replay of created containers", "samples": [P.case_text(rc[0], seed)], "exhaustive": False})
        return res.finish()
    n_ok, n_packs, dist = (0, 0, {}) if replay else created_verify(res, tier, seed, rng, exed)
    out = D.explore(res, tier, seed, only)
    if out is None:
        return res.finish()
    n, hit, classes = 0, 0, {}
    known = [k for k in C.load_known() if k["property"] == PID and k["status"] == "known" and k["id"] == "K3"]
    k3_hits = []
    for bid, o in out.items():
        for prof in ("debug", "release"):
            if "check true" not in o["cases"][0][prof]["lines"]:
                res.violation("pristine base container %s does not pass its check (%s build)" % (bid, prof),
                              P.case_text(dict(o["base"], ops=[]), seed))
        for c in o["cases"][1:]:
            n += 1
            opk = c["op"].split(":")[0]
            size = o["sizes"][c["file"]]
            if opk in ("flip", "xor", "zero", "write"):
                cls = set(D.covered(o, c["file"], p)[0] for p in D.changed_positions(o, c))
            elif opk == "trunc":
                ln = int(c["op"].split(":")[1])
                cls = set(D.covered(o, c["file"], p)[0] for p in range(ln, size))
            else:
                cls = set()
            for k in cls:
                classes[k] = classes.get(k, 0) + 1
            if not (cls & {"covered", "checkblock"}):
                continue
            hit += 1
            for prof in ("debug", "release"):
                if "check true" in c[prof]["lines"] and known and opk == "xor" and c["op"].endswith(D.KERNEL):
                    k3_hits.append("%s:%s:%s (%s)" % (bid, c["file"], c["op"].split(":")[1], ",".join(sorted(cls))))
                    break
                if "check true" in c[prof]["lines"]:
                    res.violation("C04: bytes covered by a pack checksum were altered (%s on %s of base %s, %s) and the container check still answers true (%s build)" % (
                        c["op"], c["file"], bid, sorted(cls), prof),
                        "case %s damage base=%s main=c.jbk file=%s op=%s\nend\n# base container: %s\n" % (c["id"], o["dir"], c["file"], c["op"], o["base"]))
                    break
    if k3_hits:
        res.known("K3", "a CRC-valid alteration (kernel pattern 01 1E DC 6F 41) of a check block's kind byte or of a pack's uuid makes check() answer true on altered covered bytes "
                        "(%d positions hit on this run, e.g. %s)" % (len(k3_hits), k3_hits[0]))
    res.cov["known_finding_K3_positions"] = len(k3_hits)
    res.cov.update({
        "evaluations": n + n_ok, "distinct_nontrivial": hit + n_packs,
        "created_containers_verified": n_ok, "created_packs_digest_tied_to_model_range": n_packs, "created_distribution": dist,
        "damaged_variants": n, "variants_altering_covered_bytes": hit, "byte_classes_hit": classes,
        "rule": "created: every packaging x compression, sizes 0..40 entries, 0..2 extra content packs; check() true and stored digest == blake3(model range). "
                "damaged: 3 base containers, every byte position (quick: every position of the one-file container, every 3rd elsewhere) x masks, zeroed / overwritten "
                "ranges, truncations; non-trivial = at least one byte inside a checked range or check block really changes",
        "samples": [c["op"] for c in list(out.values())[0]["cases"][200:203]] or [c["op"] for c in list(out.values())[0]["cases"][:3]],
        "exhaustive": False,
    })
    return res.finish()
