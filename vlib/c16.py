"""C16 — the compression hint decides how a content is stored; dedup stores identical contents once."""
import random
from . import common as C, content as K

PID = "C16"


def gen_cases(seed, tier):
    rng = random.Random(seed)
    cases = []
    comps = ["none", "zstd:5", "lz4:3", "lzma:2"]
    # every level the public types accept is a compressing level, 0 and the extremes included
    levels = ["zstd:0", "lz4:0", "lzma:0", "zstd:-7", "zstd:19", "lz4:15", "lzma:9", "zstd:1", "lz4:1", "lzma:1"]
    for comp in comps + levels:              # corpus: each hint alone, each algorithm, low and high entropy
        for h in "ynd":
            for kind in "tr":
                cases.append(dict(id="h%d" % len(cases), comp=comp, dedup=0,
                                  ops=[(h, "mem", "g:5000:%d:%s" % (len(cases) + 1, kind))]))
    # the deduplicating adder hashes contents of 4 MiB and more through another path: repeats around that size
    for big in (4194303, 4194304, 4194305):
        A, B, BIG = "g:300:7:t", "g:10:8:r", "g:%d:9:t" % big
        cases.append(dict(id="h%d" % len(cases), comp="zstd:1", dedup=1,
                          ops=[("y", "mem", A), ("n", "mem", B), ("n", "mem", A), ("y", "mem", BIG), ("y", "mem", A),
                               ("y", "mem", B), ("n", "mem", BIG), ("y", "file", BIG), ("d", "mem", B)]))
    # slow compression workers with the smallest worker counts: the queue of clusters in flight reaches its limit (2w)
    # while further "compress" clusters are closed; each of them must still be stored compressed
    for w in ([1] if tier == "quick" else [1, 2, 3]):
        ops = []
        for j in range(2 * w + 5):
            ops.append(("y", "mem", "g:2200000:%d:t" % rng.randint(1, 999)))      # each closes its own compressed cluster
            if j % 2:
                ops.append(("n", "mem", "g:%d:%d:r" % (rng.randint(0, 2000), rng.randint(1, 999))))
        cases.append(dict(id="h%d" % len(cases), comp="zstd:1", dedup=0, delays=0, workers=w, slow=60, ops=ops))
    n = 50 if tier == "quick" else 500
    for i in range(n):
        comp = comps[i % 4] if i % 5 else rng.choice(levels)
        k = rng.choice([2, 3, 8, 30])
        ops = K.gen_ops(rng, k, [0, 1, 100, 300, 5000, 70000], srcs=("mem", "mem", "file"))
        cases.append(dict(id="h%d" % len(cases), comp=comp, dedup=int(i % 3 == 0), ops=ops))
    return cases


def run(tier, seed, replay=None):
    res = C.Result(PID, tier, seed)
    res.assumptions = [
        "storage kind is observed by the extracted independent decoder on the bytes the real creator wrote (cluster compression byte, verbatim bytes of raw clusters)",
        "dedup equality is byte equality of payloads (no blake3 collision among generated payloads)",
        "entropy test = oracle; borderline payloads are not generated",
    ]
    if not C.proof_layer(res, PID, K.THEORY):
        return res.finish()
    cases = K.parse_replay(replay) if replay else gen_cases(seed, tier)
    rm = K.run_cases(res, cases, seed)
    if rm is None:
        return res.finish()
    R, M = rm
    nontrivial, dis, kinds = set(), 0, {}
    for c in cases:
        bad, d = K.judge(res, c, R, M, seed, {"readback", "kind", "dedup"})
        dis += d
        if bad:
            res.violation("C16: %s (case %s)" % (bad, c["id"]), K.case_text(c, seed) + "# " + bad + "\n")
        hs = set(h for h, _, _ in c["ops"])
        if not c["comp"].startswith("none") and len(hs) >= 2 or (c["dedup"] and len(set(t for _, _, t in c["ops"])) < len(c["ops"])):
            nontrivial.add((c["comp"], c["dedup"], tuple(c["ops"])))
        for l in M.get(c["id"], []):
            if l.startswith("loc "):
                k = l.split(" ")[4] if len(l.split(" ")) > 4 else "?"
                kinds[k] = kinds.get(k, 0) + 1
    res.cov.update({
        "evaluations": len(cases), "distinct_nontrivial": len(nontrivial),
        "rule": "insertion sequences mixing hints y/n/d over {none,zstd,lz4,lzma}, low/high entropy payloads, with and without the deduplicating adder; "
                "non-trivial = compressing pack with at least two different hints, or a dedup case containing a repeated content",
        "samples": [K.case_text(c, seed) for c in cases[:1] + cases[30:31]],
        "disagreements_checked": dis, "storage_kinds_seen": kinds, "exhaustive": False,
    })
    return res.finish()
