"""C11 — an unavailable pack is reported as missing, and everything else still reads."""
import itertools, random, re
from . import common as C, pkgfam as P

PID = "C11"


def gen_cases(seed, tier):
    rng = random.Random(seed)
    cases = []
    nb = 8 if tier == "quick" else 60
    for b in range(nb):
        comp = rng.choice(["none", "zstd", "lz4"])
        extra = rng.choice([0, 1, 2, 3])
        pkg = rng.choice(["one", "two", "no"])
        n = rng.choice([4, 7, 12])
        s = rng.randint(1, 10**6)
        idgap = rng.choice([0, 0, 3, 40]) if extra else 0          # pack ids need not be contiguous
        # content packs held in their own file
        separate = ([1] if pkg != "one" else []) + list(range(2, 2 + extra))
        subsets = []
        for k in range(0, len(separate) + 1):
            subsets += list(itertools.combinations(separate, k))
        if tier == "quick" and len(subsets) > 4:
            subsets = rng.sample(subsets, 4)
        for sub in subsets:
            ops = []
            for p in sub:
                how = rng.choice(["remove", "dirat", "swap"])
                others = [q for q in separate if q != p and q not in sub]
                if how == "swap" and others:
                    ops.append(("swap", str(p), str(rng.choice(others))))
                elif how == "swap":
                    ops.append(("remove", str(p)))
                else:
                    ops.append((how, str(p)))
            cases.append(dict(id="m%d" % len(cases), pkg=pkg, comp=comp, n=n, extra=extra, seed=s, idgap=idgap, ops=ops, unavailable=sorted(sub)))
            # the check must still cover the packs that are present: corrupt one present pack, before or after a missing one
            present = [q for q in separate if q not in sub and (q != 1 or pkg != "one")]
            if sub and present:
                for q in (present[:1] + present[-1:]) if len(present) > 1 else present:
                    cases.append(dict(id="m%d" % len(cases), pkg=pkg, comp=comp, n=n, extra=extra, seed=s, idgap=idgap,
                                      ops=ops + [("corrupt", str(q))], unavailable=sorted(sub), corrupted=[q]))
        # several packs recorded at ONE location (tools::concat + set_location), then the file at that location is
        # replaced by one of them alone: the others are missing by identity although their location exists and is valid
        if len(separate) >= 2:
            groups = [tuple(separate)] + ([tuple(separate[:2]), tuple(separate[-2:])] if len(separate) > 2 else [])
            for g in dict.fromkeys(groups):
                for keep in dict.fromkeys((g[0], g[-1])):
                    ops = [("group", ",".join(map(str, g)), "shared.jbk"), ("fileis", "shared.jbk", str(keep))]
                    cases.append(dict(id="m%d" % len(cases), pkg=pkg, comp=comp, n=n, extra=extra, seed=s, idgap=idgap, ops=ops))
                    cases.append(dict(id="m%d" % len(cases), pkg=pkg, comp=comp, n=n, extra=extra, seed=s, idgap=idgap,
                                      ops=ops + [("corruptin", "shared.jbk", str(keep))]))
            cases.append(dict(id="m%d" % len(cases), pkg=pkg, comp=comp, n=n, extra=extra, seed=s, idgap=idgap,
                              ops=[("group", ",".join(map(str, separate)), "shared.jbk")]))      # nothing missing: reads as before
    return cases


def derive(c):
    """which packs a case makes unavailable / corrupts, from its ops"""
    un, co, groups = set(), set(), {}
    for op in c.get("ops", []):
        if op[0] in ("remove", "dirat", "swap"):
            un.add(int(op[1]))
        elif op[0] == "corrupt":
            co.add(int(op[1]))
        elif op[0] == "group":
            groups[op[2]] = dict(all=[int(x) for x in op[1].split(",")], keep=None)
        elif op[0] == "fileis":
            groups[op[1]]["keep"] = int(op[2])
            un |= set(groups[op[1]]["all"]) - {int(op[2])}
        elif op[0] == "corruptin":
            co.add(groups[op[1]]["keep"])
    return sorted(un), sorted(co)


def run(tier, seed, replay=None):
    res = C.Result(PID, tier, seed)
    res.assumptions = [
        "only content packs are made unavailable (a container without its directory pack cannot open; outside the property)",
        "a file that is not a jubako pack at the recorded location is outside the cases (absent file, directory, or a different valid pack are covered)",
    ]
    if not C.proof_layer(res, PID, P.THEORY):
        return res.finish()
    cases = P.parse_replay(replay) if replay else gen_cases(seed, tier)
    for c in cases:
        un, co = derive(c)
        c.setdefault("unavailable", un)
        c.setdefault("corrupted", co)
    rm = P.run_cases(res, cases, seed)
    if rm is None:
        return res.finish()
    R, M = rm
    dis, nontrivial, nmissing = 0, set(), 0
    for c in cases:
        r = R.get(c["id"], ["<no output>"])
        base, fin = P.split_state(r, "base"), P.split_state(r, "final")
        mfin = M.get(c["id"] + ".final", [])
        exp, uu = P.oracle_contents(r), P.oracle_uuids(r)
        bad = None
        if "create OK" not in r:
            bad = "creation failed: %s" % r[:2]
        elif not fin or fin[0] != "open OK":
            bad = "container with unavailable content packs does not open: %s" % fin[:1]
        elif c.get("corrupted") and "check true" in fin:
            bad = "a present pack (%s) is corrupted but the container check answers true (the check does not cover every present pack)" % c["corrupted"]
        elif not c.get("corrupted") and "check true" not in fin:
            bad = "check of the present packs is not true: %s" % [l for l in fin if l.startswith("check")]
        else:
            bl = [l for l in base if l.startswith(("index", "entry"))]
            fl = [l for l in fin if l.startswith(("index", "entry"))]
            if len(bl) != len(fl):
                bad = "number of entries changed: %d -> %d" % (len(bl), len(fl))
            for a, b in zip(bl, fl):
                if bad:
                    break
                # everything except content observations must be identical
                if re.sub(r"(c\d+:\d+)=\S+", r"\1", a) != re.sub(r"(c\d+:\d+)=\S+", r"\1", b):
                    bad = "an entry changed: %s -> %s" % (a, b)
                for m in re.finditer(r"c(\d+):(\d+)=(\S+)", b):
                    p, i, obs = int(m.group(1)), m.group(2), m.group(3)
                    if P.pack_number(c, p) in c.get("corrupted", []):
                        continue
                    if P.pack_number(c, p) in c["unavailable"]:
                        nmissing += 1
                        want = "MISSING:%s" % uu.get(p)
                    else:
                        want = exp.get("%d:%s" % (p, i))
                    if obs != want and not bad:
                        bad = "content c%d:%s reads %s, expected %s" % (p, i, obs, want)
        if bad:
            res.violation("C11: %s (case %s: pkg=%s ops=%s)" % (bad, c["id"], c["pkg"], c.get("ops")), P.case_text(c, seed) + "# " + bad + "\n")
        rr, mm = P.canon_rust_state(fin, mfin), P.canon_model_state(mfin)
        if c.get("corrupted"):
            strip = lambda ls: [re.sub(r"(c\d+:\d+)=\S+", r"\1", l) for l in ls]
            rr, mm = strip(rr), strip(mm)
        if rr != mm:
            dis += 1
            if not bad:
                k = next((i for i in range(max(len(rr), len(mm))) if i >= len(rr) or i >= len(mm) or rr[i] != mm[i]), 0)
                res.violation("model/implementation correspondence broken on %s (Container/Reader.v locate / get_content)" % c["id"],
                              P.case_text(c, seed) + "# implementation: %s\n# model:          %s\n" % (
                                  rr[k] if k < len(rr) else "<missing>", mm[k] if k < len(mm) else "<missing>"), found_input=False)
        if c["unavailable"]:
            nontrivial.add((c["pkg"], tuple(c["ops"]), c["extra"], c["n"]))
    res.cov.update({
        "evaluations": len(cases), "distinct_nontrivial": len(nontrivial), "contents_expected_missing": nmissing,
        "rule": "containers with 1..4 content packs (3 packagings); every/sampled subset of the separately stored content packs removed, replaced by a directory, or replaced by a different valid pack; several packs recorded at one shared location whose file then holds only one of them; "
                "non-trivial = at least one pack made unavailable",
        "samples": [P.case_text(c, seed) for c in cases[1:3]],
        "disagreements_checked": dis, "exhaustive": False,
    })
    return res.finish()
