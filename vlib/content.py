"""Shared machinery for the content-pack properties C01 (read back), C16 (storage kind, dedup),
C08 (scheduling independence).  One harness family ('content'), three generators/oracles."""
import math, os, random, re
from . import common as C

THEORY = ["theories/Base/ListExtra.v", "theories/Base/Bytes.v", "theories/Base/Crc.v", "theories/Base/Parser.v",
          "theories/Base/Prog.v", "theories/Format/Structs.v", "theories/Content/Cluster.v", "theories/Content/Pack.v",
          "theories/Content/Model.v", "theories/Conc/ClusterWriter.v"]
ALGO = {"none": 0, "lz4": 1, "lzma": 2, "zstd": 3}


def entropy_head(b):
    """creator.rs shannon_entropy on the first 4 KiB (the Rust uses f32; cases near the threshold are avoided)"""
    head = b[:4096]
    if not head:
        return 0.0
    counts = [0] * 256
    for x in head:
        counts[x] += 1
    e = 0.0
    for c in counts:
        if c:
            p = c / len(head)
            e -= p * math.log2(p)
    return e


def mk_payload(rng, length, kind=None):
    """payload token whose entropy decision is not borderline"""
    for _ in range(20):
        k = kind or rng.choice("rrtz")
        seed = rng.randint(1, 10**6)
        tok = "g:%d:%d:%s" % (length, seed, k)
        e = entropy_head(C.payload_bytes(tok))
        if abs(e - 6.0) > 0.05:
            return tok
        kind = None if kind is None else rng.choice("tz")
    return "g:%d:1:z" % length


LEN_CLASSES = [0, 1, 2, 254, 255, 256, 257, 1000, 4095, 4096, 4097, 65534, 65535, 65536, 65537, 100000]


def gen_ops(rng, n, lens, hints="ynd", srcs=("mem", "mem", "file", "range")):
    ops, pool = [], []
    for _ in range(n):
        if pool and rng.random() < 0.15:
            tok = rng.choice(pool)                       # duplicate content
        else:
            tok = mk_payload(rng, rng.choice(lens))
            pool.append(tok)
        src = rng.choice(srcs)
        if src == "range":
            src = "range:%d:%d" % (rng.randint(0, 40), rng.randint(0, 40))
        ops.append((rng.choice(hints), src, tok))
    return ops


def case_text(c, seed):
    s = "seed %d\ncase %s content comp=%s dedup=%d delays=%d workers=%d%s\n" % (
        seed, c["id"], c["comp"], c["dedup"], c.get("delays", 0), c.get("workers", 0), ((" slow=%d" % c["slow"]) if c.get("slow") else "") + ((" rev=%d" % c["rev"]) if c.get("rev") else ""))
    for h, src, tok in c["ops"]:
        s += "add %s %s %s\n" % (h, src, tok)
    return s + "end\n"


def parse_replay(path):
    cases = []
    txt = open(path).read()
    for m in re.finditer(r"case (\S+) content comp=(\S+) dedup=(\d) delays=(\d+) workers=(\d+)(?: slow=(\d+))?(?: rev=(\d+))?\n((?:add .*\n)*)end", txt):
        ops = [tuple(l.split()[1:4]) for l in m.group(8).splitlines()]
        cases.append(dict(id=m.group(1), comp=m.group(2), dedup=int(m.group(3)), delays=int(m.group(4)),
                          workers=int(m.group(5)), slow=int(m.group(6) or 0), rev=int(m.group(7) or 0), ops=ops))
    return cases


def run_cases(res, cases, seed, timeout=1500):
    """runs harness (grouped by worker count through taskset) + model; returns (R, M) observation maps"""
    ok, log = C.build_ocaml()
    if not ok:
        res.violation("model extraction / driver build failed", log[-3000:], found_input=False)
        return None
    ok, log, exe = C.build_harness()
    if not ok:
        res.violation("harness does not build against /repo", log[-3000:], found_input=False)
        return None
    wd = res.workdir
    tmp = os.path.join(wd, "tmp")
    C.sh(["rm", "-rf", tmp])
    os.makedirs(tmp, exist_ok=True)
    import time as _t
    _th = _t.time()
    R = {}
    groups = {}
    for c in cases:
        groups.setdefault(c.get("workers", 0), []).append(c)
    for w, cs in sorted(groups.items()):
        casefile = os.path.join(wd, "cases_w%d.txt" % w)
        with open(casefile, "w") as f:
            f.write("".join(case_text(c, seed) for c in cs))
        rust_out = os.path.join(wd, "rust_w%d.out" % w)
        if os.path.exists(rust_out):
            os.remove(rust_out)
        cmd = [exe, casefile, rust_out, tmp]
        if w:
            # w compression workers <=> available_parallelism = w + 1
            cmd = ["taskset", "-c", "0-%d" % w] + cmd
        try:
            rc, log = C.sh(cmd, timeout=timeout)
        except Exception as e:                           # timeout: creation or read-back did not terminate
            rc, log = -9, "TIMEOUT %s" % e
        if rc != 0:
            done = C.read_obs(rust_out)
            culprit = next((c for c in cs if c["id"] not in done or not any(l.startswith("check") for l in done[c["id"]])), cs[-1])
            res.violation("harness died or timed out (rc=%s) while running case %s: creation/read-back crashed or did not terminate" % (rc, culprit["id"]),
                          case_text(culprit, seed) + "# " + log[-500:].replace("\n", "\n# ") + "\n")
        R.update(C.read_obs(rust_out))
    res.cov["t_harness_s"] = round(_t.time() - _th, 1)
    import io
    blocks = []
    if True:
        for c in cases:
            f = io.StringIO()
            blocks.append(f)
            pc = 0 if c["comp"].startswith("none") else 1
            f.write("case %s content\ncfg pc=%d dedup=%d\n" % (c["id"], pc, c["dedup"]))
            keys = {}
            for h, src, tok in c["ops"]:
                b = C.payload_bytes(tok)
                det = 1 if entropy_head(b) <= 6.0 else 0
                key = keys.setdefault(b, len(keys))
                f.write("add %s %d %d %d\n" % (h, len(b), det, key))
            nops = len(c["ops"])
            total = sum(len(C.payload_bytes(t)) for _, _, t in c["ops"])
            if nops > 40 or total > 600000:
                # big case: the extracted reader decodes a sample of the contents (the Rust read-back covers all)
                smp = sorted(set([0, 1, nops // 2, nops - 2, nops - 1] + [(7 * k * k + 3) % nops for k in range(8)]))
                smp = [i for i in smp if 0 <= i < nops]
                if total > 600000:
                    smp = smp[:4] + smp[-2:]
                f.write("sample %s\n" % ",".join(map(str, sorted(set(smp)))))
            for l in R.get(c["id"], []):
                if l.startswith("@model "):
                    f.write(l[len("@model "):] + "\n")
                if l.startswith("@oracle events"):
                    f.write("events" + l[len("@oracle events"):] + "\n")
            f.write("end\n")
    import time as _t
    _t0 = _t.time()
    M, problems = C.run_model_sharded([b.getvalue() for b in blocks], wd, timeout=3000)
    for pr in problems:
        res.violation(pr, case_text(cases[0], seed), found_input=False)
    res.cov["t_model_s"] = round(_t.time() - _t0, 1)
    C.sh(["rm", "-rf", tmp])
    return R, M


def judge(res, c, R, M, seed, want):
    """property oracle on the implementation + model/implementation tie for one case.
    want: set of aspects {'readback','kind','dedup','sched'}. returns (bad, disagreement)"""
    r = R.get(c["id"], [])
    m = M.get(c["id"], [])
    rd = {}
    for l in r:
        p = l.split(" ")
        rd.setdefault(p[0], {})[p[1] if len(p) > 2 else ""] = " ".join(p[2:]) if len(p) > 2 else (p[1] if len(p) > 1 else "")
    md = {}
    for l in m:
        p = l.split(" ")
        md.setdefault(p[0], {})[p[1] if len(p) > 2 else ""] = " ".join(p[2:]) if len(p) > 2 else (p[1] if len(p) > 1 else "")
    bad = None
    payloads = [C.payload_bytes(tok) for _, _, tok in c["ops"]]
    n = len(c["ops"])
    if rd.get("create", {}).get("") != "OK":
        return "creation failed or crashed: %s" % (r[:3],), False
    # expected addresses
    if c["dedup"]:
        first, firstop, uniq = {}, {}, []
        for i, pb in enumerate(payloads):
            if pb not in first:
                first[pb] = len(uniq); firstop[pb] = i; uniq.append(pb)
        exp_idx = [first[pb] for pb in payloads]
        exp_count = len(uniq)
        kind_from = [firstop[pb] for pb in payloads]      # the first insertion decides how it is stored
    else:
        exp_idx = list(range(n)); exp_count = n
        kind_from = list(range(n))
    for i in range(n):
        a = rd.get("addr", {}).get(str(i))
        if a != "1:%d" % exp_idx[i] and not bad:
            bad = "insertion %d returned address %s, expected 1:%d" % (i, a, exp_idx[i])
    if not bad and rd.get("count", {}).get("") != str(exp_count):
        bad = "pack reports %s contents, %d were inserted" % (rd.get("count", {}).get(""), exp_count)
    for i in range(n):
        if bad:
            break
        got = rd.get("content", {}).get(str(i))
        if got != C.show(payloads[i]):
            bad = "content %d (len %d, hint %s, src %s) read back as %s, expected %s" % (
                i, len(payloads[i]), c["ops"][i][0], c["ops"][i][1], got, C.show(payloads[i]))
    for k in ("0", "1", "4096"):
        if not bad and rd.get("past", {}).get(k) != "NONE":
            bad = "address %s past the count answered %s instead of 'no such content'" % (k, rd.get("past", {}).get(k))
    if not bad and rd.get("check", {}).get("") != "true":
        bad = "created pack does not verify: check = %s" % rd.get("check", {}).get("")
    # independent decoder (model reader on the Rust bytes)
    disagreement = False
    pc = not c["comp"].startswith("none")
    algo = ALGO[c["comp"].split(":")[0]]
    if md.get("count", {}).get("") != str(exp_count):
        disagreement = True
        bad = bad or "independent decoder: count %s, expected %d" % (md.get("count", {}).get(""), exp_count)
    for i in range(n):
        h = c["ops"][kind_from[i]][0]
        det = entropy_head(payloads[i]) <= 6.0
        comp = pc and (h == "y" or (h == "d" and det))
        if "sampled" in md and str(i) not in md.get("loc", {}):
            continue
        loc = md.get("loc", {}).get(str(i), "<missing>")
        plan = md.get("plan", {}).get(str(i), "<missing>")
        lp = loc.split(" ")
        if len(lp) != 4:
            disagreement = True
            bad = bad or "independent decoder cannot locate content %d: %s" % (i, loc)
            continue
        # writer tie: the cluster/blob the Rust wrote = what the proved state machine plans
        if plan.split(" ")[1:] != lp[:2]:
            disagreement = True
            if not bad:
                res.violation("writer tie broken on %s: content %d stored at cluster/blob %s, the model (Cluster.add) plans %s" % (
                    c["id"], i, lp[:2], plan.split(" ")[1:]), case_text(c, seed), found_input=False)
        kind = "comp:%d" % algo if comp else "raw"
        if lp[2] != kind and not bad and "kind" in want:
            bad = "content %d inserted with hint %s into a %s pack is stored as %s, expected %s" % (i, h, c["comp"], lp[2], kind)
        if lp[2] != kind:
            disagreement = True
        if lp[3] != str(len(payloads[i])):
            disagreement = True
            bad = bad or "independent decoder: content %d has length %s, expected %d" % (i, lp[3], len(payloads[i]))
        if lp[2] == "raw":
            got = md.get("content", {}).get(str(i))
            if got != C.show(payloads[i]):
                disagreement = True
                bad = bad or "independent decoder: content %d stored verbatim reads %s, expected %s" % (i, got, C.show(payloads[i]))
    if "sched" in want and md.get("accepts", {}).get("") != "true":
        disagreement = True
        ev = [l for l in r if l.startswith("@oracle events")]
        if not bad:
            bad = "Progress event trace rejected by the certified recognizer (a cluster written twice, never, or before being handled): %s" % (ev[:1],)
    return bad, disagreement
