(* C14 — every fixed header of the format: what the creator serialises is what the reader parses
   (field order, widths, endianness), for all representable values. *)
From Coq Require Import List Arith NArith ZArith Bool Lia ZifyN ZifyBool ZifyNat.
From Jbk Require Import Base.ListExtra Base.Bytes Base.Crc Base.Parser Format.Structs Content.Pack Dir.Layout Dir.Descr.
Import ListNotations.
Open Scope N_scope.

Lemma list_eqb_refl' (l : list N) : list_eqb l l = true.
Proof.
  unfold list_eqb. rewrite Nat.eqb_refl. cbn [andb].
  induction l as [|x l IH]; [reflexivity|]. cbn [combine forallb fst snd]. now rewrite N.eqb_refl, IH.
Qed.

Definition wf_pack_header (h : pack_header) : Prop :=
  length (ph_vendor h) = 4%nat /\ ph_major h = 0 /\ ph_minor h = 2 /\ length (ph_uuid h) = 16%nat /\
  ph_flags h < 256 /\ ph_size h < 2 ^ 64 /\ ph_check_pos h < 2 ^ 64.

Theorem p_pack_header_ser h r : wf_pack_header h -> p_pack_header (ser_pack_header h ++ r) = Ok (h, r).
Proof.
  intros (Hv & Hma & Hmi & Hu & Hf & Hs & Hc). unfold p_pack_header, ser_pack_header. rewrite <- !app_assoc.
  rewrite p_bytes_app by reflexivity. cbn [bind]. rewrite list_eqb_refl'. cbn [negb app].
  rewrite p_u_1 by (destruct (ph_kind h); cbn; lia). cbn [bind]. rewrite kind_of_kind_byte. cbn [bind].
  rewrite p_bytes_app by (symmetry; exact Hv). cbn [bind]. rewrite Hma, Hmi. cbn [app].
  rewrite p_u_1 by lia. cbn [bind]. rewrite p_u_1 by lia. cbn [bind N.eqb Pos.eqb andb negb].
  rewrite p_bytes_app by (symmetry; exact Hu). cbn [bind].
  rewrite p_u_1 by exact Hf. cbn [bind].
  rewrite p_skip_app by (now rewrite zerosN_length). cbn [bind].
  rewrite p_u_enc by exact Hs. cbn [bind]. rewrite p_u_enc by exact Hc. cbn [bind].
  rewrite p_skip_app by (now rewrite zerosN_length). cbn [bind].
  destruct h; cbn in *; subst; reflexivity.
Qed.

Lemma ser_pack_header_length h : wf_pack_header h -> length (ser_pack_header h) = 60%nat.
Proof.
  intros (Hv & _ & _ & Hu & _). unfold ser_pack_header. rewrite !app_length, !le_enc_length, !zerosN_length, Hv, Hu. reflexivity.
Qed.

Theorem p_container_header_ser h r :
  ch_locators_pos h < 2 ^ 64 -> ch_count h < 2 ^ 16 -> length (ch_free h) = 24%nat ->
  p_container_header (ser_container_header h ++ r) = Ok (h, r).
Proof.
  intros H1 H2 H3. unfold p_container_header, ser_container_header. rewrite <- !app_assoc.
  rewrite p_u_enc by exact H1. cbn [bind]. rewrite p_u_enc by exact H2. cbn [bind].
  rewrite p_skip_app by (now rewrite zerosN_length). cbn [bind].
  rewrite p_bytes_app by (symmetry; exact H3). cbn [bind]. destruct h; reflexivity.
Qed.

Theorem p_pack_locator_ser p r :
  length (pl_uuid p) = 16%nat -> pl_size p < 2 ^ 64 -> pl_pos p < 2 ^ 64 ->
  p_pack_locator (ser_pack_locator p ++ r) = Ok (p, r).
Proof.
  intros H1 H2 H3. unfold p_pack_locator, ser_pack_locator. rewrite <- !app_assoc.
  rewrite p_bytes_app by (symmetry; exact H1). cbn [bind].
  rewrite p_u_enc by exact H2. cbn [bind]. rewrite p_u_enc by exact H3. cbn [bind]. destruct p; reflexivity.
Qed.

Theorem p_manifest_header_ser h r :
  mh_count h < 2 ^ 16 -> wf_sized_offset (mh_vs h) -> length (mh_free h) = 24%nat ->
  p_manifest_header (ser_manifest_header h ++ r) = Ok (h, r).
Proof.
  intros H1 H2 H3. unfold p_manifest_header, ser_manifest_header. rewrite <- !app_assoc.
  rewrite p_u_enc by exact H1. cbn [bind]. rewrite p_sized_offset_ser by exact H2. cbn [bind].
  rewrite p_skip_app by (now rewrite zerosN_length). cbn [bind].
  rewrite p_bytes_app by (symmetry; exact H3). cbn [bind]. destruct h; reflexivity.
Qed.

(* directory pack header and index header *)
Definition ser_dir_header (h : dir_header) : list N :=
  le_enc 8 (dh_index_pos h) ++ le_enc 8 (dh_entry_pos h) ++ le_enc 8 (dh_value_pos h) ++
  le_enc 4 (dh_index_count h) ++ le_enc 4 (dh_entry_count h) ++ le_enc 1 (dh_value_count h) ++ zerosN 3 ++ dh_free h.
Theorem p_dir_header_ser h r :
  dh_index_pos h < 2 ^ 64 -> dh_entry_pos h < 2 ^ 64 -> dh_value_pos h < 2 ^ 64 ->
  dh_index_count h < 2 ^ 32 -> dh_entry_count h < 2 ^ 32 -> dh_value_count h < 256 -> length (dh_free h) = 24%nat ->
  p_dir_header (ser_dir_header h ++ r) = Ok (h, r).
Proof.
  intros H1 H2 H3 H4 H5 H6 H7. unfold p_dir_header, ser_dir_header. rewrite <- !app_assoc.
  rewrite p_u_enc by exact H1. cbn [bind]. rewrite p_u_enc by exact H2. cbn [bind].
  rewrite p_u_enc by exact H3. cbn [bind]. rewrite p_u_enc by exact H4. cbn [bind].
  rewrite p_u_enc by exact H5. cbn [bind]. rewrite p_u_enc by exact H6. cbn [bind].
  rewrite p_skip_app by (now rewrite zerosN_length). cbn [bind].
  rewrite p_bytes_app by (symmetry; exact H7). cbn [bind]. destruct h; reflexivity.
Qed.

Definition ser_index_header (h : index_header) : list N :=
  le_enc 4 (ix_store h) ++ le_enc 4 (ix_count h) ++ le_enc 4 (ix_offset h) ++ ix_free h ++
  le_enc 1 (ix_prop h) ++ ser_pstring (ix_name h).
Theorem p_index_header_ser h r :
  ix_store h < 2 ^ 32 -> ix_count h < 2 ^ 32 -> ix_offset h < 2 ^ 32 -> length (ix_free h) = 4%nat ->
  ix_prop h < 256 -> wf_name (ix_name h) ->
  p_index_header (ser_index_header h ++ r) = Ok (h, r).
Proof.
  intros H1 H2 H3 H4 H5 H6. unfold p_index_header, ser_index_header. rewrite <- !app_assoc.
  rewrite p_u_enc by exact H1. cbn [bind]. rewrite p_u_enc by exact H2. cbn [bind].
  rewrite p_u_enc by exact H3. cbn [bind]. rewrite p_bytes_app by (symmetry; exact H4). cbn [bind].
  rewrite p_u_enc by exact H5. cbn [bind]. rewrite p_pstring_ser by exact H6. cbn [bind]. destruct h; reflexivity.
Qed.

(* header / tail mirror: the last 64 bytes of a pack are its header block reversed *)
Theorem mirror_roundtrip (block : list N) : rev (rev block) = block.
Proof. apply rev_involutive. Qed.

(* SizedOffset: the tail size must fit 16 bits, else it is altered (what D6 relied on) *)
Theorem sized_offset_roundtrip s r : wf_sized_offset s -> p_sized_offset (ser_sized_offset s ++ r) = Ok (s, r).
Proof. apply p_sized_offset_ser. Qed.
Theorem sized_offset_truncates : exists s, so_off s < 2 ^ 48 /\
  p_sized_offset (ser_sized_offset s) <> Ok (s, []).
Proof. exists {| so_size := 70000; so_off := 0 |}. split; [cbn; lia|]. vm_compute. discriminate. Qed.
Close Scope N_scope.
