(* On-disk structures shared by all packs: field order, widths and endianness are read off the Rust
   `serialize`/`parse` functions (src/common/headers/*.rs, pack_info.rs, pack_locator.rs,
   bases/types/sized_offset.rs) and checked byte for byte by the correspondence. *)
From Coq Require Import List Arith NArith ZArith Lia ZifyN ZifyBool ZifyNat.
From Jbk Require Import Base.ListExtra Base.Bytes Base.Crc Base.Parser Base.Utf8.
Import ListNotations.
Open Scope N_scope.

Definition zerosN (n : nat) : list N := repeat 0 n.

(* ---- SizedOffset: u64 = offset << 16 | size ---- *)
Record sized_offset := { so_size : N; so_off : N }.
Definition ser_sized_offset (s : sized_offset) : list N :=
  le_enc 8 (so_off s * 2 ^ 16 + so_size s mod 2 ^ 16).
Definition p_sized_offset : parser sized_offset :=
  fun l => '(v, r) <- p_u 8 l ;; Ok ({| so_size := v mod 2 ^ 16; so_off := v / 2 ^ 16 |}, r).

(* ---- PackHeader (60 bytes + CRC) ---- *)
Inductive pack_kind := KManifest | KDirectory | KContent | KContainer.
Definition kind_byte (k : pack_kind) : N :=
  match k with KManifest => 109 | KDirectory => 100 | KContent => 99 | KContainer => 67 end.
Definition kind_of_byte (b : N) : res pack_kind :=
  if b =? 109 then Ok KManifest else if b =? 100 then Ok KDirectory
  else if b =? 99 then Ok KContent else if b =? 67 then Ok KContainer else Err EFormat.
Definition kind_eqb (a b : pack_kind) : bool := kind_byte a =? kind_byte b.

Record pack_header := {
  ph_kind : pack_kind; ph_vendor : list N; ph_major : N; ph_minor : N; ph_uuid : list N;
  ph_flags : N; ph_size : N; ph_check_pos : N }.

Definition jbk_magic : list N := [106; 98; 107].

Definition ser_pack_header (h : pack_header) : list N :=
  jbk_magic ++ [kind_byte (ph_kind h)] ++ ph_vendor h ++ [ph_major h; ph_minor h] ++ ph_uuid h ++
  [ph_flags h] ++ zerosN 5 ++ le_enc 8 (ph_size h) ++ le_enc 8 (ph_check_pos h) ++ zerosN 12.

Definition list_eqb (a b : list N) : bool :=
  (length a =? length b)%nat && forallb (fun p => fst p =? snd p) (combine a b).

Definition p_pack_header : parser pack_header :=
  fun l =>
    '(magic, l) <- p_bytes 3 l ;;
    if negb (list_eqb magic jbk_magic) then Err EFormat else
    '(kb, l) <- p_u 1 l ;;
    kind <- kind_of_byte kb ;;
    '(vendor, l) <- p_bytes 4 l ;;
    '(major, l) <- p_u 1 l ;;
    '(minor, l) <- p_u 1 l ;;
    if negb ((major =? 0) && (minor =? 2)) then Err EVersion else
    '(uuid, l) <- p_bytes 16 l ;;
    '(flags, l) <- p_u 1 l ;;
    '(_, l) <- p_skip 5 l ;;
    '(size, l) <- p_u 8 l ;;
    '(cpos, l) <- p_u 8 l ;;
    '(_, l) <- p_skip 12 l ;;
    Ok ({| ph_kind := kind; ph_vendor := vendor; ph_major := major; ph_minor := minor; ph_uuid := uuid;
           ph_flags := flags; ph_size := size; ph_check_pos := cpos |}, l).

(* PackHeader::check_info_size: file_size - 64 - check_info_pos - 4 (u64 arithmetic, unchecked) *)
Definition ph_check_size (h : pack_header) : N := ph_size h - 64 - ph_check_pos h - 4.

(* ---- ContainerPackHeader (60 + CRC) ---- *)
Record container_header := { ch_locators_pos : N; ch_count : N; ch_free : list N }.
Definition ser_container_header (h : container_header) : list N :=
  le_enc 8 (ch_locators_pos h) ++ le_enc 2 (ch_count h) ++ zerosN 26 ++ ch_free h.
Definition p_container_header : parser container_header :=
  fun l =>
    '(pos, l) <- p_u 8 l ;; '(cnt, l) <- p_u 2 l ;; '(_, l) <- p_skip 26 l ;; '(fd, l) <- p_bytes 24 l ;;
    Ok ({| ch_locators_pos := pos; ch_count := cnt; ch_free := fd |}, l).

(* ---- PackLocator (32 + CRC) ---- *)
Record pack_locator := { pl_uuid : list N; pl_size : N; pl_pos : N }.
Definition ser_pack_locator (p : pack_locator) : list N :=
  pl_uuid p ++ le_enc 8 (pl_size p) ++ le_enc 8 (pl_pos p).
Definition p_pack_locator : parser pack_locator :=
  fun l =>
    '(u, l) <- p_bytes 16 l ;; '(s, l) <- p_u 8 l ;; '(p, l) <- p_u 8 l ;;
    Ok ({| pl_uuid := u; pl_size := s; pl_pos := p |}, l).

(* ---- ManifestPackHeader (60 + CRC) ---- *)
Record manifest_header := { mh_count : N; mh_vs : sized_offset; mh_free : list N }.
Definition ser_manifest_header (h : manifest_header) : list N :=
  le_enc 2 (mh_count h) ++ ser_sized_offset (mh_vs h) ++ zerosN 26 ++ mh_free h.
Definition p_manifest_header : parser manifest_header :=
  fun l =>
    '(cnt, l) <- p_u 2 l ;; '(vs, l) <- p_sized_offset l ;; '(_, l) <- p_skip 26 l ;; '(fd, l) <- p_bytes 24 l ;;
    Ok ({| mh_count := cnt; mh_vs := vs; mh_free := fd |}, l).

(* ---- PackInfo (252 + CRC): 38 checked bytes, then the location as 1 + 213 padded bytes ---- *)
Record pack_info := {
  pi_uuid : list N; pi_size : N; pi_check : sized_offset; pi_id : N; pi_kind : pack_kind;
  pi_group : N; pi_free_id : N; pi_loc : list N }.

Definition pi_fixed (p : pack_info) : list N :=      (* the 38 bytes covered by the manifest check *)
  pi_uuid p ++ le_enc 8 (pi_size p) ++ ser_sized_offset (pi_check p) ++ le_enc 2 (pi_id p) ++
  [kind_byte (pi_kind p)] ++ [pi_group p] ++ le_enc 2 (pi_free_id p).
Definition ser_location (loc : list N) : list N :=
  [N.of_nat (length loc)] ++ loc ++ zerosN (213 - length loc).
Definition ser_pack_info (p : pack_info) : list N := pi_fixed p ++ ser_location (pi_loc p).

Definition p_pack_info : parser pack_info :=
  fun l =>
    '(u, l) <- p_bytes 16 l ;; '(s, l) <- p_u 8 l ;; '(ck, l) <- p_sized_offset l ;; '(id, l) <- p_u 2 l ;;
    '(kb, l) <- p_u 1 l ;; kind <- kind_of_byte kb ;;
    '(grp, l) <- p_u 1 l ;; '(fid, l) <- p_u 2 l ;;
    '(n, l) <- p_u 1 l ;; '(loc, l) <- p_bytes (N.to_nat n) l ;;
    '(_, l) <- p_skip (213 - N.to_nat n) l ;;
    if negb (utf8_valid loc) then Err EFormat else        (* PString -> SmallString: from_utf8 *)
    Ok ({| pi_uuid := u; pi_size := s; pi_check := ck; pi_id := id; pi_kind := kind; pi_group := grp;
           pi_free_id := fid; pi_loc := loc |}, l).

Definition set_loc (p : pack_info) (loc : list N) : pack_info :=
  {| pi_uuid := pi_uuid p; pi_size := pi_size p; pi_check := pi_check p; pi_id := pi_id p;
     pi_kind := pi_kind p; pi_group := pi_group p; pi_free_id := pi_free_id p; pi_loc := loc |}.

(* ---- well-formedness = representability ---- *)
Definition wf_sized_offset (s : sized_offset) := so_size s < 2 ^ 16 /\ so_off s < 2 ^ 48.
(* an admissible location: a string (well-formed UTF-8) of at most 213 bytes *)
Definition wf_loc (loc : list N) := (length loc <= 213)%nat /\ utf8_valid loc = true.
Definition wf_pack_info (p : pack_info) :=
  length (pi_uuid p) = 16%nat /\ pi_size p < 2 ^ 64 /\ wf_sized_offset (pi_check p) /\
  pi_id p < 2 ^ 16 /\ pi_group p < 256 /\ pi_free_id p < 2 ^ 16 /\ wf_loc (pi_loc p).

Lemma zerosN_length n : length (zerosN n) = n.
Proof. apply repeat_length. Qed.

Lemma ser_sized_offset_length s : length (ser_sized_offset s) = 8%nat.
Proof. apply le_enc_length. Qed.

Ltac Zify.zify_post_hook ::= Z.div_mod_to_equations.

Lemma p_sized_offset_ser s r : wf_sized_offset s -> p_sized_offset (ser_sized_offset s ++ r) = Ok (s, r).
Proof.
  intros [H1 H2]. unfold p_sized_offset, ser_sized_offset.
  rewrite p_u_enc.
  - cbn [bind]. destruct s as [sz off]. cbn [so_size so_off] in *. do 3 f_equal.
    + rewrite N.mod_small with (a := sz) by assumption.
      rewrite N.add_comm, N.mod_add by discriminate. now apply N.mod_small.
    + rewrite N.mod_small with (a := sz) by assumption.
      rewrite N.div_add_l by discriminate. rewrite N.div_small by assumption. apply N.add_0_r.
  - change (256 ^ N.of_nat 8) with (2 ^ 48 * 2 ^ 16).
    assert (so_size s mod 2 ^ 16 < 2 ^ 16) by (apply N.mod_lt; discriminate). nia.
Qed.

Lemma pi_fixed_length p : length (pi_uuid p) = 16%nat -> length (pi_fixed p) = 38%nat.
Proof.
  intros H. unfold pi_fixed. rewrite !app_length, !le_enc_length, ser_sized_offset_length, H. reflexivity.
Qed.

Lemma ser_location_length loc : (length loc <= 213)%nat -> length (ser_location loc) = 214%nat.
Proof. intros H. unfold ser_location. rewrite !app_length, zerosN_length. cbn [length]. lia. Qed.

Lemma ser_pack_info_length p : wf_pack_info p -> length (ser_pack_info p) = 252%nat.
Proof.
  intros (Hu & _ & _ & _ & _ & _ & Hl & _). unfold ser_pack_info.
  rewrite app_length, pi_fixed_length, ser_location_length by assumption. reflexivity.
Qed.

Lemma kind_of_kind_byte k : kind_of_byte (kind_byte k) = Ok k.
Proof. destruct k; reflexivity. Qed.

Lemma p_u_1 v r : v < 256 -> p_u 1 (v :: r) = Ok (v, r).
Proof.
  intros H. unfold p_u, p_bytes. cbn [length Nat.leb firstn skipn bind le_val].
  now rewrite N.mul_0_r, N.add_0_r.
Qed.

(* the reader recovers exactly the pack info that was serialised *)
Theorem p_pack_info_ser p r : wf_pack_info p -> p_pack_info (ser_pack_info p ++ r) = Ok (p, r).
Proof.
  intros (Hu & Hs & Hc & Hid & Hg & Hf & Hl & Hu8).
  unfold p_pack_info, ser_pack_info, pi_fixed, ser_location. rewrite <- !app_assoc.
  rewrite p_bytes_app by (symmetry; exact Hu). cbn [bind].
  rewrite p_u_enc by exact Hs. cbn [bind].
  rewrite p_sized_offset_ser by exact Hc. cbn [bind].
  rewrite p_u_enc by exact Hid. cbn [bind].
  cbn [app].
  rewrite p_u_1 by (destruct (pi_kind p); cbn; lia). cbn [bind].
  rewrite kind_of_kind_byte. cbn [bind].
  rewrite p_u_1 by exact Hg. cbn [bind].
  rewrite p_u_enc by exact Hf. cbn [bind]. cbn [app].
  rewrite p_u_1 by lia. cbn [bind].
  rewrite Nat2N.id.
  rewrite p_bytes_app by reflexivity. cbn [bind].
  rewrite p_skip_app by (now rewrite zerosN_length). cbn [bind].
  rewrite Hu8. cbn [negb]. destruct p; reflexivity.
Qed.

(* rewriting the location leaves the 38 checked bytes alone *)
Lemma pi_fixed_set_loc p loc : pi_fixed (set_loc p loc) = pi_fixed p.
Proof. reflexivity. Qed.
Lemma wf_set_loc p loc : wf_pack_info p -> wf_loc loc -> wf_pack_info (set_loc p loc).
Proof. unfold wf_pack_info. cbn. tauto. Qed.
Close Scope N_scope.
