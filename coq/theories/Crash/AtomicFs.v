(* C09 — file-system view of the high-level creator (creator/mod.rs AtomicOutFile, basic_creator.rs
   finalize).  Output goes to anonymous temporary files; [Persist] (= rename(2), assumed atomic)
   moves a temporary file over a destination path; an error return drops the temporaries.  A crash
   (process death) or an error return at any point is a PREFIX of the trace of operations.
   Paths and temporaries are numbers; the content of a file is abstracted to the sequence of its
   writes (position, length): equal sequences = equal bytes for a deterministic writer. *)
From Coq Require Import List Arith NArith Bool Lia.
Import ListNotations.

Inductive op :=
| MkTemp (t : nat)
| Write (t : nat) (pos len : N)
| Persist (t p : nat)            (* rename temp t over path p *)
| Drop (t : nat).                (* unlink temp t *)

Definition content := list (N * N).
Record fs := { files : nat -> option (nat * content);     (* None: untouched (absent or the previous file) *)
               temps : nat -> option content }.

Definition run1 (s : fs) (o : op) : fs :=
  match o with
  | MkTemp t => {| files := files s; temps := fun x => if x =? t then Some [] else temps s x |}
  | Write t pos len =>
      {| files := files s;
         temps := fun x => if x =? t then option_map (fun c => c ++ [(pos, len)]) (temps s t) else temps s x |}
  | Persist t p =>
      match temps s t with
      | Some c => {| files := fun x => if x =? p then Some (t, c) else files s x;
                     temps := fun x => if x =? t then None else temps s x |}
      | None => s
      end
  | Drop t => {| files := files s; temps := fun x => if x =? t then None else temps s x |}
  end.
Fixpoint run (tr : list op) (s : fs) : fs := match tr with [] => s | o :: tr => run tr (run1 s o) end.
Definition s0 : fs := {| files := fun _ => None; temps := fun _ => None |}.

Definition targets (tr : list op) : list nat :=
  flat_map (fun o => match o with Persist _ p => [p] | _ => [] end) tr.

Lemma run_app a b s : run (a ++ b) s = run b (run a s).
Proof. revert s; induction a as [|o a IH]; intros s; cbn [app run]; auto. Qed.

(* a path that no later rename targets keeps its value *)
Lemma untargeted_unchanged tr : forall s p, ~ In p (targets tr) -> files (run tr s) p = files s p.
Proof.
  induction tr as [|o tr IH]; intros s p H; cbn [run]; [reflexivity|].
  rewrite IH by (intro X; apply H; cbn [targets flat_map]; apply in_or_app; now right).
  destruct o as [t|t pos len|t q|t]; cbn [run1 files]; try reflexivity.
  destruct (temps s t); cbn [files]; [|reflexivity].
  destruct (Nat.eqb_spec p q) as [->|]; [|reflexivity].
  exfalso. apply H. cbn [targets flat_map]. now left.
Qed.

(* EVERY crash point: each path is untouched or already holds its final, complete content.
   Hypothesis: every destination is renamed over at most once. *)
Theorem prefix_old_or_final tr : forall s k p, NoDup (targets tr) ->
  files (run (firstn k tr) s) p = files s p \/ files (run (firstn k tr) s) p = files (run tr s) p.
Proof.
  induction tr as [|o tr IH]; intros s k p ND.
  - rewrite firstn_nil. now left.
  - destruct k as [|k]; [now left|]. cbn [firstn run].
    assert (ND' : NoDup (targets tr)).
    { cbn [targets flat_map] in ND. destruct o; cbn [app] in ND; try exact ND. now inversion ND. }
    destruct (IH (run1 s o) k p ND') as [E|E]; [|now right].
    rewrite E.
    destruct o as [t|t pos len|t q|t]; cbn [run1 files]; try now left.
    destruct (temps s t) as [c|] eqn:T; cbn [files]; [|now left].
    destruct (Nat.eqb_spec p q) as [->|]; [|now left].
    right. symmetry.
    rewrite untargeted_unchanged.
    + cbn [files]. now rewrite Nat.eqb_refl.
    + cbn [targets flat_map app] in ND. now inversion ND.
Qed.

Corollary crash_leaves_old_or_complete tr k p : NoDup (targets tr) ->
  files (run (firstn k tr) s0) p = None \/ files (run (firstn k tr) s0) p = files (run tr s0) p.
Proof. intros ND. exact (prefix_old_or_final tr s0 k p ND). Qed.

(* ---- the entry point comes last ---- *)
Definition is_persist (o : op) : bool := match o with Persist _ _ => true | _ => false end.
Definition persists_to (e : nat) (o : op) : bool := match o with Persist _ p => p =? e | _ => false end.

(* executable: the first rename over the entry point is the last rename of the whole trace *)
Fixpoint entry_lastb (e : nat) (tr : list op) : bool :=
  match tr with
  | [] => true
  | o :: tr => if persists_to e o then negb (existsb is_persist tr) else entry_lastb e tr
  end.

Lemma no_persist_unchanged tr : forall s, existsb is_persist tr = false -> forall p, files (run tr s) p = files s p.
Proof.
  intros s H p. apply untargeted_unchanged. intros X. unfold targets in X. apply in_flat_map in X.
  destruct X as (o & Ho & Hp). destruct o; try contradiction.
  assert (existsb is_persist tr = true) by (apply existsb_exists; eexists; split; [exact Ho|reflexivity]). congruence.
Qed.
Lemma existsb_firstn {B} (f : B -> bool) l k : existsb f l = false -> existsb f (firstn k l) = false.
Proof.
  revert k; induction l as [|x l IH]; intros [|k] H; cbn in *; try reflexivity.
  apply orb_false_iff in H. destruct H as [-> H]. cbn. now apply IH.
Qed.

(* When several files are produced, the entry point never appears before the files it refers to are
   complete: at a crash point where the entry point has been replaced, EVERY path already has its
   final content. *)
Theorem entry_point_last e tr : forall s k, entry_lastb e tr = true ->
  files (run (firstn k tr) s) e <> files s e ->
  forall p, files (run (firstn k tr) s) p = files (run tr s) p.
Proof.
  induction tr as [|o tr IH]; intros s k H Hne p.
  - rewrite firstn_nil in *. cbn [run] in Hne. contradiction.
  - destruct k as [|k]; [cbn [firstn run] in Hne; contradiction|].
    cbn [firstn run] in *. cbn [entry_lastb] in H.
    destruct (persists_to e o) eqn:P.
    + apply negb_true_iff in H.
      rewrite (no_persist_unchanged (firstn k tr) _ (existsb_firstn _ _ k H)).
      now rewrite (no_persist_unchanged tr _ H).
    + apply IH; [exact H|].
      intros X. apply Hne. rewrite X.
      destruct o as [t|t pos len|t q|t]; cbn [run1 files]; try reflexivity.
      destruct (temps s t); cbn [files]; [|reflexivity].
      cbn [persists_to] in P. apply Nat.eqb_neq in P.
      destruct (Nat.eqb_spec e q); [congruence|reflexivity].
Qed.

(* ---- executable view for the tie with real runs ---- *)
(* which of the given paths hold new content after the first k operations *)
Definition status (tr : list op) (k : nat) (paths : list nat) : list bool :=
  map (fun p => match files (run (firstn k tr) s0) p with Some _ => true | None => false end) paths.
Fixpoint all_status_from (tr : list op) (k fuel : nat) (paths : list nat) : list (list bool) :=
  match fuel with
  | O => []
  | S fuel => status tr k paths :: all_status_from tr (S k) fuel paths
  end.
(* the directory states a crash can leave behind, one per prefix *)
Definition crash_states (tr : list op) (paths : list nat) : list (list bool) :=
  all_status_from tr 0 (S (length tr)) paths.

(* writes go to live temporaries only, every rename moves a live temporary, each destination once *)
Fixpoint wf_from (live : list nat) (seen : list nat) (tr : list op) : bool :=
  match tr with
  | [] => true
  | MkTemp t :: tr => negb (existsb (Nat.eqb t) live) && wf_from (t :: live) seen tr
  | Write t _ _ :: tr => existsb (Nat.eqb t) live && wf_from live seen tr
  | Persist t p :: tr => existsb (Nat.eqb t) live && negb (existsb (Nat.eqb p) seen) &&
                         wf_from (filter (fun x => negb (x =? t)) live) (p :: seen) tr
  | Drop t :: tr => wf_from (filter (fun x => negb (x =? t)) live) seen tr
  end.
Definition fs_accepts (e : nat) (tr : list op) : bool := wf_from [] [] tr && entry_lastb e tr.

Lemma wf_from_nodup tr : forall live seen, wf_from live seen tr = true ->
  NoDup (targets tr) /\ forall p, In p (targets tr) -> ~ In p seen.
Proof.
  induction tr as [|o tr IH]; intros live seen H; cbn [targets flat_map].
  - split; [constructor|intros p []].
  - destruct o as [t|t pos len|t q|t]; cbn [wf_from] in H; cbn [app].
    + apply andb_true_iff in H. destruct H as [_ H]. exact (IH _ _ H).
    + apply andb_true_iff in H. destruct H as [_ H]. exact (IH _ _ H).
    + apply andb_true_iff in H. destruct H as [H1 H]. apply andb_true_iff in H1. destruct H1 as [_ H1].
      destruct (IH _ _ H) as [ND F]. apply negb_true_iff in H1.
      assert (Q : ~ In q seen).
      { intros X. assert (existsb (Nat.eqb q) seen = true) by (apply existsb_exists; exists q; split; [exact X|apply Nat.eqb_refl]). congruence. }
      split.
      * constructor; [|exact ND]. intros X. apply (F q X). now left.
      * intros p [<-|Hp]; [exact Q|]. intros X. apply (F p Hp). now right.
    + exact (IH _ _ H).
Qed.

(* an accepted trace enjoys both guarantees at every crash point *)
Theorem accepted_trace_is_crash_safe e tr k : fs_accepts e tr = true ->
  (forall p, files (run (firstn k tr) s0) p = None \/ files (run (firstn k tr) s0) p = files (run tr s0) p) /\
  (files (run (firstn k tr) s0) e <> None -> forall p, files (run (firstn k tr) s0) p = files (run tr s0) p).
Proof.
  unfold fs_accepts. intros H. apply andb_true_iff in H. destruct H as [W E].
  destruct (wf_from_nodup tr [] [] W) as [ND _]. split.
  - intros p. now apply crash_leaves_old_or_complete.
  - intros Hne. apply entry_point_last with (e := e); assumption.
Qed.

(* non-vacuity: the two-file packaging; and a writer that renames the entry point first is rejected *)
Example two_files_accepted :
  fs_accepts 0 [MkTemp 1; Write 1 0 128; Write 1 128 500; Write 1 0 64; Persist 1 1;
             MkTemp 2; Write 2 0 128; Write 2 128 900; Persist 2 0] = true.
Proof. reflexivity. Qed.
Example two_files_states :
  crash_states [MkTemp 1; Write 1 0 128; Persist 1 1; MkTemp 2; Write 2 0 128; Persist 2 0] [0; 1]
  = [[false; false]; [false; false]; [false; false]; [false; true]; [false; true]; [false; true]; [true; true]].
Proof. reflexivity. Qed.
Example entry_first_rejected :
  fs_accepts 0 [MkTemp 2; Write 2 0 128; Persist 2 0; MkTemp 1; Write 1 0 128; Persist 1 1] = false.
Proof. reflexivity. Qed.
Example direct_write_rejected : fs_accepts 0 [Write 7 0 10] = false.
Proof. reflexivity. Qed.
