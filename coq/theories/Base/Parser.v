(* Result monad, sequential byte parsers (src/bases/parsing.rs SliceParser) and CRC-checked block
   reads (src/bases/reader.rs parse_block_at / cut_check). *)
From Coq Require Import List Arith NArith Lia.
From Jbk Require Import Base.ListExtra Base.Bytes Base.Crc.
Import ListNotations.

Inductive err := ECorrupt | EFormat | EVersion | EIo | ENotJbk | EFeature | EOob.
Inductive res (A : Type) := Ok (a : A) | Err (e : err).
Arguments Ok {A} a. Arguments Err {A} e.

Definition bind {A B} (r : res A) (f : A -> res B) : res B :=
  match r with Ok a => f a | Err e => Err e end.
Notation "x <- c1 ;; c2" := (bind c1 (fun x => c2)) (at level 61, c1 at next level, right associativity).
Notation "' pat <- c1 ;; c2" := (bind c1 (fun x => match x with pat => c2 end))
  (at level 61, pat pattern, c1 at next level, right associativity).

Definition parser (A : Type) := list N -> res (A * list N).

(* SliceParser::read_slice / read_data / skip: Format error when the slice is too short *)
Definition p_bytes (n : nat) : parser (list N) :=
  fun l => if n <=? length l then Ok (firstn n l, skipn n l) else Err EFormat.
Definition p_u (n : nat) : parser N :=
  fun l => '(b, r) <- p_bytes n l ;; Ok (le_val b, r).
Definition p_skip (n : nat) : parser unit :=
  fun l => '(_, r) <- p_bytes n l ;; Ok (tt, r).

Lemma p_bytes_app a r n : n = length a -> p_bytes n (a ++ r) = Ok (a, r).
Proof.
  intros ->. unfold p_bytes. rewrite app_length.
  replace (length a <=? length a + length r) with true by (symmetry; apply Nat.leb_le; lia).
  now rewrite firstn_app_len, skipn_app_len.
Qed.
Lemma p_u_enc n v r : (v < 256 ^ N.of_nat n)%N -> p_u n (le_enc n v ++ r) = Ok (v, r).
Proof.
  intros H. unfold p_u. rewrite p_bytes_app by (now rewrite le_enc_length). cbn [bind].
  now rewrite le_val_enc.
Qed.
Lemma p_skip_app a r n : n = length a -> p_skip n (a ++ r) = Ok (tt, r).
Proof. intros H. unfold p_skip. now rewrite p_bytes_app. Qed.

(* positions inside files are N (they are read from the file and may be absurd on damaged input);
   they are converted to nat only after a bounds check *)
Definition subN (o n : N) (l : list N) : list N := sub (N.to_nat o) (N.to_nat n) l.
Definition lenN (l : list N) : N := N.of_nat (length l).

(* Reader::cut_check(offset, size, Crc32) + data: the [size] data bytes at [off], whose 4-byte
   CRC follows.  Out-of-range is reported as EOob (what the Rust does there is C06's subject). *)
Definition read_block (f : list N) (off size : N) : res (list N) :=
  if (off + size + 4 <=? lenN f)%N then
    let blk := subN off (size + 4) f in
    if check_block blk then Ok (firstn (N.to_nat size) blk) else Err ECorrupt
  else Err EOob.

(* unchecked cut (BlockCheck::None) *)
Definition read_raw (f : list N) (off size : N) : res (list N) :=
  if (off + size <=? lenN f)%N then Ok (subN off size f) else Err EOob.

Lemma read_block_placed pre data post :
  read_block (pre ++ mk_block data ++ post) (lenN pre) (lenN data) = Ok data.
Proof.
  unfold read_block, lenN, subN, mk_block.
  rewrite !app_length, crc_bytes_length.
  replace (N.of_nat (length pre) + N.of_nat (length data) + 4 <=?
           N.of_nat (length pre + (length data + 4 + length post)))%N with true
    by (symmetry; apply N.leb_le; lia).
  replace (N.to_nat (N.of_nat (length data) + 4)) with (length (data ++ crc_bytes data))
    by (rewrite app_length, crc_bytes_length; lia).
  rewrite !Nat2N.id, sub_concat.
  change (data ++ crc_bytes data) with (mk_block data). rewrite check_block_mk.
  unfold mk_block. now rewrite firstn_app_len.
Qed.
