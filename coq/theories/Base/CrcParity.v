(* CRC-32C's generator polynomial x^32 + 0x1EDC6F41 has an even number of terms, i.e. it is divisible
   by (x + 1): the parity of the register after processing a message is the parity of the initial
   register plus the parity of the message.  Hence every alteration of a block (data and stored CRC)
   that flips an ODD number of bits — anywhere, however scattered — makes the check fail. *)
From Coq Require Import List Arith NArith Bool Lia.
From Jbk Require Import Base.ListExtra Base.Bytes Base.Crc.
Import ListNotations.

Fixpoint parity (l : list bool) : bool := match l with [] => false | b :: l => xorb b (parity l) end.

Lemma parity_app a b : parity (a ++ b) = xorb (parity a) (parity b).
Proof. induction a as [|x a IH]; cbn [app parity]; [now destruct (parity b)|]. rewrite IH. now destruct x, (parity a), (parity b). Qed.
Lemma parity_zeros n : parity (zeros n) = false.
Proof. induction n as [|n IH]; [reflexivity|]. unfold zeros in *. cbn [repeat parity]. rewrite IH. reflexivity. Qed.
Lemma parity_xorl a : forall b, length a = length b -> parity (xorl a b) = xorb (parity a) (parity b).
Proof.
  induction a as [|x a IH]; intros [|y b] H; cbn in H; try lia; [reflexivity|].
  cbn [xorl parity]. rewrite IH by lia. now destruct x, y, (parity a), (parity b).
Qed.
Lemma parity_shl s : s <> [] -> parity (shl s) = xorb (parity s) (hd false s).
Proof.
  destruct s as [|x s]; [contradiction|]. intros _. unfold shl. cbn [tl hd parity]. rewrite parity_app. cbn [parity].
  now destruct x, (parity s).
Qed.
Lemma parity_P : parity P = true. Proof. reflexivity. Qed.

Lemma parity_stepTop s b : length s = 32 -> parity (stepTop s b) = xorb (parity s) b.
Proof.
  intros L. assert (N : s <> []) by (destruct s; [discriminate|discriminate]).
  unfold stepTop. destruct (xorb (hd false s) b) eqn:E.
  - rewrite parity_xorl by (rewrite shl_length by exact N; rewrite L; reflexivity).
    rewrite parity_shl by exact N. rewrite parity_P. now destruct (parity s), (hd false s), b.
  - rewrite parity_shl by exact N. now destruct (parity s), (hd false s), b.
Qed.

Theorem parity_run bits : forall s, length s = 32 -> parity (run s bits) = xorb (parity s) (parity bits).
Proof.
  induction bits as [|b bits IH]; intros s L; cbn [run fold_left parity]; [now destruct (parity s)|].
  fold (run (stepTop s b) bits). rewrite IH by (now apply stepTop_length). rewrite parity_stepTop by exact L.
  now destruct (parity s), b, (parity bits).
Qed.

(* every alteration of a valid block that flips an odd number of bits is detected *)
Theorem check_block_odd_weight blk d :
  4 <= length blk -> check_block blk = true -> length d = length blk ->
  parity (bits_of_bytes d) = true -> check_block (bxor blk d) = false.
Proof.
  intros H4 Hc Hd Hp.
  destruct (check_block (bxor blk d)) eqn:E; [exfalso|reflexivity].
  rewrite check_block_residue in E by (rewrite bxor_length; lia).
  rewrite check_block_residue in Hc by assumption.
  rewrite bits_of_bytes_bxor in E by lia.
  assert (P1 := parity_run (bits_of_bytes blk) ones eq_refl). rewrite Hc in P1.
  assert (P2 := parity_run (xorl (bits_of_bytes blk) (bits_of_bytes d)) ones eq_refl). rewrite E in P2.
  rewrite parity_xorl in P2 by (rewrite !bits_of_bytes_length; lia).
  rewrite Hp in P2. unfold zero in P1, P2. rewrite parity_zeros in P1, P2.
  destruct (parity ones), (parity (bits_of_bytes blk)); cbn in P1, P2; discriminate.
Qed.

(* in particular: any single flipped bit, any three flipped bits, ... wherever they are *)
Example three_scattered_bits_detected :
  check_block (bxor (mk_block [1; 2; 3; 4; 5; 6; 7; 8; 9; 10]%N) [128; 0; 0; 0; 0; 4; 0; 0; 0; 0; 0; 0; 0; 1]%N) = false.
Proof.
  apply check_block_odd_weight; [apply Nat.leb_le; vm_compute; reflexivity|vm_compute; reflexivity|vm_compute; reflexivity|vm_compute; reflexivity].
Qed.
