(* Bytes are N below 256; byte strings are lists.  Little-endian fixed-width integers
   (src/bases/write.rs write_usized / parsing.rs read_usized), needed_bytes (bases/mod.rs:79),
   signed storage (write_isized / read_isized). *)
From Coq Require Import List NArith ZArith Lia ZifyN ZifyBool ZifyNat.
From Jbk Require Import Base.ListExtra.
Import ListNotations.
Open Scope N_scope.
Ltac Zify.zify_post_hook ::= Z.div_mod_to_equations.

Notation byte := N (only parsing).
Notation bytes := (list N) (only parsing).

Definition wf_bytes (l : bytes) : Prop := Forall (fun b => b < 256) l.

Lemma wf_bytes_app a b : wf_bytes (a ++ b) <-> wf_bytes a /\ wf_bytes b.
Proof. unfold wf_bytes. apply Forall_app. Qed.

(* little-endian fixed-width unsigned; an over-wide value is truncated, as write_usized does *)
Fixpoint le_enc (n : nat) (v : N) : bytes :=
  match n with O => [] | S n => (v mod 256) :: le_enc n (v / 256) end.
Fixpoint le_val (l : bytes) : N :=
  match l with [] => 0 | b :: l => b + 256 * le_val l end.
Definition le_dec (n : nat) (l : bytes) : option (N * bytes) :=
  if (n <=? length l)%nat then Some (le_val (firstn n l), skipn n l) else None.

Lemma le_enc_length n v : length (le_enc n v) = n.
Proof. revert v; induction n as [|n IH]; intros v; cbn [le_enc length]; [reflexivity|]. now rewrite IH. Qed.

Lemma le_enc_wf n v : wf_bytes (le_enc n v).
Proof.
  revert v; induction n as [|n IH]; intros v; cbn [le_enc]; constructor.
  - apply N.mod_lt. discriminate.
  - apply IH.
Qed.

Lemma le_val_enc n : forall v, v < 256 ^ N.of_nat n -> le_val (le_enc n v) = v.
Proof.
  induction n as [|n IH]; intros v H.
  - cbn in *. lia.
  - cbn [le_enc le_val]. rewrite IH.
    + pose proof (N.div_mod v 256). lia.
    + rewrite Nat2N.inj_succ, N.pow_succ_r' in H. apply N.div_lt_upper_bound; lia.
Qed.

Lemma le_val_enc_mod n : forall v, le_val (le_enc n v) = v mod 256 ^ N.of_nat n.
Proof.
  induction n as [|n IH]; intros v.
  - cbn. now rewrite N.mod_1_r.
  - cbn [le_enc le_val]. rewrite IH. rewrite Nat2N.inj_succ, N.pow_succ_r'.
    assert (0 < 256 ^ N.of_nat n) by (apply N.neq_0_lt_0, N.pow_nonzero; discriminate).
    rewrite (N.mul_comm 256), N.mod_mul_r by lia. lia.
Qed.

Lemma le_val_bound l : wf_bytes l -> le_val l < 256 ^ N.of_nat (length l).
Proof.
  induction 1 as [|b l Hb Hl IH]; cbn [le_val length]; [cbn; lia|].
  rewrite Nat2N.inj_succ, N.pow_succ_r'. lia.
Qed.

Lemma le_enc_val l : wf_bytes l -> le_enc (length l) (le_val l) = l.
Proof.
  induction 1 as [|b l Hb Hl IH]; cbn [le_val length le_enc]; [reflexivity|].
  f_equal.
  - lia.
  - transitivity (le_enc (length l) (le_val l)); [f_equal; lia | exact IH].
Qed.

Lemma le_dec_enc n v rest : v < 256 ^ N.of_nat n -> le_dec n (le_enc n v ++ rest) = Some (v, rest).
Proof.
  intros H. unfold le_dec. rewrite app_length, le_enc_length.
  replace (n <=? n + length rest)%nat with true by (symmetry; apply Nat.leb_le; lia).
  rewrite firstn_app_len, skipn_app_len by (now rewrite le_enc_length).
  rewrite le_val_enc by assumption. reflexivity.
Qed.

(* bases/mod.rs:79 needed_bytes: while val > 0 { val >>= 8; n += 1 }; max(n, 1).  u64: 8 rounds. *)
Fixpoint nb_loop (fuel : nat) (v : N) : nat :=
  match fuel with O => O | S f => if v =? 0 then O else S (nb_loop f (v / 256)) end.
Definition needed_bytes (v : N) : nat := Nat.max 1 (nb_loop 8 v).

Lemma nb_loop_bound fuel : forall v, v < 256 ^ N.of_nat fuel -> v < 256 ^ N.of_nat (nb_loop fuel v).
Proof.
  induction fuel as [|f IH]; intros v H.
  - cbn in *. lia.
  - cbn [nb_loop]. destruct (N.eqb_spec v 0) as [->|Hne]; [cbn; lia|].
    rewrite !Nat2N.inj_succ, !N.pow_succ_r' in *.
    assert (Hd : v / 256 < 256 ^ N.of_nat f) by (apply N.div_lt_upper_bound; lia).
    specialize (IH _ Hd). pose proof (N.div_mod v 256). pose proof (N.mod_lt v 256). lia.
Qed.

Lemma nb_loop_min fuel : forall v k, (k < nb_loop fuel v)%nat -> 256 ^ N.of_nat k <= v.
Proof.
  induction fuel as [|f IH]; intros v k Hk; [cbn in Hk; lia|].
  cbn [nb_loop] in Hk. destruct (N.eqb_spec v 0) as [->|Hne]; [cbn in Hk; lia|].
  destruct k as [|k]; [cbn; lia|].
  specialize (IH (v / 256) k ltac:(lia)). rewrite Nat2N.inj_succ, N.pow_succ_r'.
  pose proof (N.div_mod v 256). lia.
Qed.

Lemma nb_loop_le fuel v : (nb_loop fuel v <= fuel)%nat.
Proof. revert v; induction fuel as [|f IH]; intros v; cbn [nb_loop]; [lia|]. destruct (v =? 0); [lia|]. specialize (IH (v / 256)). lia. Qed.

Theorem needed_bytes_fits v : v < 2 ^ 64 -> v < 256 ^ N.of_nat (needed_bytes v).
Proof.
  intros H. unfold needed_bytes.
  assert (B : v < 256 ^ N.of_nat (nb_loop 8 v)) by (apply nb_loop_bound; change (256 ^ N.of_nat 8) with (2 ^ 64); lia).
  destruct (nb_loop 8 v) as [|n] eqn:E; [cbn in *; lia|].
  replace (Nat.max 1 (S n)) with (S n) by lia. exact B.
Qed.

Theorem needed_bytes_range v : (1 <= needed_bytes v <= 8)%nat.
Proof. unfold needed_bytes. pose proof (nb_loop_le 8 v). lia. Qed.

(* minimality: one byte less does not fit (unless the width is the minimum 1) *)
Theorem needed_bytes_minimal v k : (k < needed_bytes v)%nat -> (1 <= k)%nat -> 256 ^ N.of_nat k <= v.
Proof.
  unfold needed_bytes. intros Hk H1. apply (nb_loop_min 8). lia.
Qed.

Lemma needed_bytes_mono a b : a <= b -> b < 2 ^ 64 -> (needed_bytes a <= needed_bytes b)%nat.
Proof.
  intros Hab Hb.
  destruct (Nat.le_gt_cases (needed_bytes a) (needed_bytes b)) as [L|G]; [exact L|exfalso].
  pose proof (needed_bytes_range b) as Rb.
  pose proof (needed_bytes_minimal a (needed_bytes b) G ltac:(lia)).
  pose proof (needed_bytes_fits b Hb). lia.
Qed.

(* ---- signed: two's complement on n bytes (byteorder write_int / read_int) ---- *)
Open Scope Z_scope.
Definition strunc (n : nat) (z : Z) : N := Z.to_N (z mod 256 ^ Z.of_nat n).   (* stored n-byte pattern *)
Definition sext (n : nat) (u : N) : Z :=
  if Z.of_N u <? 256 ^ Z.of_nat n / 2 then Z.of_N u else Z.of_N u - 256 ^ Z.of_nat n.
Definition fits_signed (n : nat) (z : Z) := - (256 ^ Z.of_nat n / 2) <= z < 256 ^ Z.of_nat n / 2.

Lemma pow256_even n : (0 < n)%nat -> 256 ^ Z.of_nat n = 2 * (256 ^ Z.of_nat n / 2).
Proof.
  intros H. destruct n as [|n]; [lia|]. rewrite Nat2Z.inj_succ, Z.pow_succ_r by lia.
  replace (256 * 256 ^ Z.of_nat n) with (2 * (128 * 256 ^ Z.of_nat n)) by lia.
  rewrite Z.mul_comm at 2. rewrite Z.div_mul by lia. lia.
Qed.

Theorem signed_roundtrip n z : (0 < n)%nat -> fits_signed n z -> sext n (strunc n z) = z.
Proof.
  intros Hn [Hlo Hhi]. unfold sext, strunc.
  pose proof (pow256_even n Hn) as E. set (M := 256 ^ Z.of_nat n) in *. set (h := M / 2) in *.
  assert (HM : 0 < M) by (unfold M; apply Z.pow_pos_nonneg; lia).
  pose proof (Z.mod_pos_bound z M HM) as Hb. rewrite Z2N.id by lia.
  destruct (Z_lt_le_dec z 0) as [Hneg|Hpos].
  - assert (Em : z mod M = z + M) by (symmetry; apply Z.mod_unique with (q := -1); lia).
    rewrite Em. destruct (Z.ltb_spec (z + M) h); lia.
  - rewrite Z.mod_small by lia. destruct (Z.ltb_spec z h); lia.
Qed.

Theorem signed_altered n z : (0 < n)%nat -> ~ fits_signed n z -> sext n (strunc n z) <> z.
Proof.
  intros Hn Hnf E. apply Hnf. unfold fits_signed. unfold sext, strunc in E.
  pose proof (pow256_even n Hn) as Ev. set (M := 256 ^ Z.of_nat n) in *. set (h := M / 2) in *.
  assert (HM : 0 < M) by (unfold M; apply Z.pow_pos_nonneg; lia).
  pose proof (Z.mod_pos_bound z M HM). rewrite Z2N.id in E by lia.
  destruct (Z.ltb_spec (z mod M) h); lia.
Qed.

Lemma strunc_bound n z : (strunc n z < 256 ^ N.of_nat n)%N.
Proof.
  unfold strunc. assert (HM : 0 < 256 ^ Z.of_nat n) by (apply Z.pow_pos_nonneg; lia).
  pose proof (Z.mod_pos_bound z _ HM).
  apply N2Z.inj_lt. rewrite Z2N.id by lia. rewrite N2Z.inj_pow, nat_N_Z. cbn. lia.
Qed.
Close Scope Z_scope.
Close Scope N_scope.
