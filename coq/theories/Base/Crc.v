(* CRC-32C exactly as src/bases/block.rs: width 32, poly 0x1EDC6F41, init 0xFFFFFFFF, no reflection,
   no xor-out, stored big-endian after the block.  Registers are [list bool], MSB first.
   Part 1 (bit level): linearity, burst detection, kernel witness.  Part 2: the byte-level block check. *)
From Coq Require Import List Bool Arith NArith Lia.
From Jbk Require Import Base.ListExtra Base.Bytes.
Import ListNotations.



Definition reg := list bool.
Fixpoint xorl (a b : list bool) : list bool :=
  match a, b with
  | x :: a, y :: b => xorb x y :: xorl a b
  | _, _ => []
  end.
Definition zeros (n : nat) : list bool := repeat false n.
Definition shl (s : reg) : reg := tl s ++ [false].

(* CRC-32C polynomial 0x1EDC6F41, MSB first *)
Definition P : reg :=
  [false;false;false;true; true;true;true;false; true;true;false;true; true;true;false;false;
   false;true;true;false; true;true;true;true; false;true;false;false; false;false;false;true].
Definition zero := zeros 32.
Definition e0 : reg := zeros 31 ++ [true].

Definition step0 (s : reg) : reg := if hd false s then xorl (shl s) P else shl s.
Definition stepTop (s : reg) (b : bool) : reg :=
  if xorb (hd false s) b then xorl (shl s) P else shl s.
Definition stepBot (s : reg) (b : bool) : reg := xorl (step0 s) (if b then e0 else zero).
Definition run (s : reg) (bits : list bool) : reg := fold_left stepTop bits s.
Definition botrun (s : reg) (bits : list bool) : reg := fold_left stepBot bits s.
Fixpoint iter {A} (n : nat) (f : A -> A) (x : A) : A :=
  match n with O => x | S n => iter n f (f x) end.

(* ---------- basic xorl facts ---------- *)
Lemma xorl_length a b : length a = length b -> length (xorl a b) = length a.
Proof. revert b; induction a as [|x a IH]; intros [|y b] H; simpl in *; try lia. rewrite IH; lia. Qed.
Lemma xorl_comm a b : xorl a b = xorl b a.
Proof. revert b; induction a as [|x a IH]; intros [|y b]; simpl; try reflexivity. now rewrite IH, xorb_comm. Qed.
Lemma xorl_assoc a b c : xorl (xorl a b) c = xorl a (xorl b c).
Proof. revert b c; induction a as [|x a IH]; intros [|y b] [|z c]; simpl; try reflexivity. now rewrite IH, xorb_assoc. Qed.
Lemma xorl_zeros_r a n : length a = n -> xorl a (zeros n) = a.
Proof. revert n; induction a as [|x a IH]; intros [|n] H; simpl in *; try lia; try reflexivity. rewrite IH by lia. now rewrite xorb_false_r. Qed.
Lemma xorl_nilpotent a : xorl a a = zeros (length a).
Proof. induction a as [|x a IH]; simpl; [reflexivity|]. now rewrite IH, xorb_nilpotent. Qed.
Lemma xorl_app a a' b b' : length a = length b -> xorl (a ++ a') (b ++ b') = xorl a b ++ xorl a' b'.
Proof. revert b; induction a as [|x a IH]; intros [|y b] H; simpl in *; try lia; [reflexivity|]. rewrite IH by lia. reflexivity. Qed.
Lemma xorl_tl a b : tl (xorl a b) = xorl (tl a) (tl b).
Proof. destruct a, b; simpl; try reflexivity. destruct a; reflexivity. Qed.
Lemma xorl_hd a b : length a = length b -> hd false (xorl a b) = xorb (hd false a) (hd false b).
Proof. destruct a, b; simpl; intros; try lia; reflexivity. Qed.

Lemma shl_length s : s <> [] -> length (shl s) = length s.
Proof. destruct s; [congruence|]. intros _. unfold shl. simpl. rewrite app_length. simpl. lia. Qed.
Lemma shl_xorl a b : length a = length b -> shl (xorl a b) = xorl (shl a) (shl b).
Proof.
  intros H. unfold shl. rewrite xorl_tl.
  rewrite xorl_app by (destruct a, b; simpl in *; lia). reflexivity.
Qed.

Lemma P_length : length P = 32. Proof. reflexivity. Qed.
Definition sel (b : bool) (v : reg) : reg := if b then v else zero.
Lemma sel_xor b c v : length v = 32 -> sel (xorb b c) v = xorl (sel b v) (sel c v).
Proof.
  intros H. destruct b, c; cbn [sel xorb].
  - rewrite xorl_nilpotent, H. reflexivity.
  - unfold zero. now rewrite xorl_zeros_r.
  - unfold zero. rewrite xorl_comm. now rewrite xorl_zeros_r.
  - reflexivity.
Qed.

Lemma step0_alt s : length s = 32 -> step0 s = xorl (shl s) (sel (hd false s) P).
Proof.
  intros H. unfold step0, sel. destruct (hd false s); [reflexivity|].
  unfold zero. rewrite xorl_zeros_r; [reflexivity|]. rewrite shl_length; [assumption|]. destruct s; discriminate.
Qed.
Lemma stepTop_alt s b : length s = 32 -> stepTop s b = xorl (step0 s) (sel b P).
Proof.
  intros H. unfold stepTop. rewrite step0_alt by assumption.
  assert (Hs : length (shl s) = 32) by (rewrite shl_length; [assumption | destruct s; discriminate]).
  change (if xorb (hd false s) b then xorl (shl s) P else shl s)
    with (if xorb (hd false s) b then xorl (shl s) P else shl s).
  rewrite xorl_assoc, <- sel_xor by apply P_length.
  unfold sel. destruct (xorb (hd false s) b); [reflexivity|].
  unfold zero. now rewrite xorl_zeros_r.
Qed.

Lemma step0_length s : length s = 32 -> length (step0 s) = 32.
Proof.
  intros H. rewrite step0_alt by assumption.
  assert (Hs : length (shl s) = 32) by (rewrite shl_length; [assumption | destruct s; discriminate]).
  rewrite xorl_length; [assumption|]. rewrite Hs. unfold sel. destruct (hd false s); reflexivity.
Qed.

Lemma step0_linear a b : length a = 32 -> length b = 32 -> step0 (xorl a b) = xorl (step0 a) (step0 b).
Proof.
  intros Ha Hb.
  assert (Hab : length (xorl a b) = 32) by (rewrite xorl_length; lia).
  rewrite !step0_alt by assumption.
  rewrite shl_xorl by lia. rewrite xorl_hd by lia. rewrite sel_xor by apply P_length.
  rewrite !xorl_assoc. f_equal. rewrite <- !xorl_assoc. f_equal. apply xorl_comm.
Qed.
Lemma step0_zero : step0 zero = zero. Proof. reflexivity. Qed.

(* injectivity, as in the first spike but for concrete P *)
Lemma last_xorl a b : length a = length b -> a <> [] ->
  last (xorl a b) false = xorb (last a false) (last b false).
Proof.
  revert b. induction a as [|x a IH]; intros b Hl Hn; [congruence|].
  destruct b as [|y b]; [discriminate|]. simpl in Hl.
  destruct a as [|x' a].
  - destruct b; [reflexivity|discriminate].
  - destruct b as [|y' b]; [discriminate|].
    change (xorl (x :: x' :: a) (y :: y' :: b)) with (xorb x y :: xorl (x' :: a) (y' :: b)).
    change (last (x :: x' :: a) false) with (last (x' :: a) false).
    change (last (y :: y' :: b) false) with (last (y' :: b) false).
    rewrite <- IH by (simpl in *; try lia; congruence).
    simpl. reflexivity.
Qed.
Lemma step0_last s : length s = 32 -> last (step0 s) false = hd false s.
Proof.
  intros H. rewrite step0_alt by assumption.
  assert (Hs : length (shl s) = 32) by (rewrite shl_length; [assumption | destruct s; discriminate]).
  rewrite last_xorl.
  - unfold shl at 1. rewrite last_last. unfold sel. destruct (hd false s); reflexivity.
  - rewrite Hs. unfold sel; destruct (hd false s); reflexivity.
  - intro E. rewrite E in Hs. discriminate.
Qed.
Lemma xorl_cancel_r a b c : length a = length c -> length b = length c -> xorl a c = xorl b c -> a = b.
Proof.
  revert b c; induction a as [|x a IH]; intros [|y b] [|z c] Ha Hb E; simpl in *; try lia; try reflexivity.
  injection E as E1 E2. f_equal.
  - destruct x, y, z; simpl in *; congruence.
  - eapply IH; [| |exact E2]; lia.
Qed.
Lemma step0_inj s t : length s = 32 -> length t = 32 -> step0 s = step0 t -> s = t.
Proof.
  intros Hs Ht E.
  assert (Hh : hd false s = hd false t) by (rewrite <- !step0_last by assumption; now rewrite E).
  rewrite !step0_alt in E by assumption. rewrite <- Hh in E.
  apply xorl_cancel_r in E.
  - unfold shl in E. apply app_inj_tail in E. destruct E as [E _].
    destruct s, t; try discriminate. simpl in *. congruence.
  - rewrite shl_length by (destruct s; discriminate). unfold sel; destruct (hd false s); simpl; lia.
  - rewrite shl_length by (destruct t; discriminate). unfold sel; destruct (hd false s); simpl; lia.
Qed.

Lemma iter_step0_length n s : length s = 32 -> length (iter n step0 s) = 32.
Proof. revert s; induction n; intros s H; simpl; [assumption|]. apply IHn, step0_length, H. Qed.
Lemma iter_step0_nonzero n s : length s = 32 -> s <> zero -> iter n step0 s <> zero.
Proof.
  revert s; induction n as [|n IH]; intros s H Hn; simpl; [assumption|].
  apply IH; [apply step0_length, H|]. intro E. apply Hn. apply step0_inj; [assumption | reflexivity | now rewrite step0_zero].
Qed.
Lemma iter_step0_linear n a b : length a = 32 -> length b = 32 ->
  iter n step0 (xorl a b) = xorl (iter n step0 a) (iter n step0 b).
Proof.
  revert a b; induction n as [|n IH]; intros a b Ha Hb; simpl; [reflexivity|].
  rewrite step0_linear by assumption. apply IH; apply step0_length; assumption.
Qed.
Lemma iter_comm {A} n (f : A -> A) x : iter n f (f x) = f (iter n f x).
Proof. revert x; induction n; intros x; simpl; [reflexivity|]. now rewrite IHn. Qed.

Lemma x32_mod_g : iter 32 step0 e0 = P. Proof. vm_compute. reflexivity. Qed.
Lemma iter32_zero : iter 32 step0 zero = zero. Proof. vm_compute. reflexivity. Qed.

(* top formulation = 32 more zero-steps of the bottom formulation *)
Lemma stepBot_length s b : length s = 32 -> length (stepBot s b) = 32.
Proof. intros H. unfold stepBot. rewrite xorl_length; rewrite step0_length by assumption; [reflexivity|]. destruct b; reflexivity. Qed.
Lemma stepTop_length s b : length s = 32 -> length (stepTop s b) = 32.
Proof. intros H. rewrite stepTop_alt by assumption. rewrite xorl_length; rewrite step0_length by assumption; [reflexivity|]. destruct b; reflexivity. Qed.

Lemma top_bot s bits : length s = 32 ->
  run (iter 32 step0 s) bits = iter 32 step0 (botrun s bits).
Proof.
  revert s; induction bits as [|b bits IH]; intros s H; [reflexivity|].
  cbn [run botrun fold_left]. change (fold_left stepTop bits ?x) with (run x bits).
  change (fold_left stepBot bits ?x) with (botrun x bits).
  rewrite <- IH by (apply stepBot_length, H). f_equal.
  rewrite stepTop_alt by (apply iter_step0_length, H).
  unfold stepBot. rewrite iter_step0_linear.
  - rewrite iter_comm. f_equal. destruct b; simpl; [apply x32_mod_g | apply iter32_zero].
  - apply step0_length, H.
  - destruct b; reflexivity.
Qed.

(* feeding at most 32 bits at the bottom of a zero register just stores them *)
Lemma sel_e0 (b : bool) : (if b then e0 else zero) = zeros 31 ++ [b].
Proof. destruct b; reflexivity. Qed.
Lemma zeros_length n : length (zeros n) = n. Proof. apply repeat_length. Qed.
Lemma stepBot_zeros_prefix k u b : k + 1 + length u = 32 ->
  stepBot (zeros (S k) ++ u) b = zeros k ++ u ++ [b].
Proof.
  intros H. unfold stepBot. rewrite sel_e0.
  assert (E : step0 (zeros (S k) ++ u) = (zeros k ++ u) ++ [false]).
  { unfold step0. change (zeros (S k) ++ u) with (false :: (zeros k ++ u)). reflexivity. }
  rewrite E. rewrite xorl_app by (rewrite app_length, !zeros_length; lia).
  rewrite xorl_zeros_r by (rewrite app_length, zeros_length; lia).
  cbn [xorl]. rewrite xorb_false_l. now rewrite <- app_assoc.
Qed.
Lemma botrun_embed u bits : length u + length bits <= 32 ->
  botrun (zeros (32 - length u) ++ u) bits = zeros (32 - length u - length bits) ++ u ++ bits.
Proof.
  revert u; induction bits as [|b bits IH]; intros u H.
  - simpl length. rewrite Nat.sub_0_r, app_nil_r. reflexivity.
  - cbn [botrun fold_left]. change (fold_left stepBot bits ?x) with (botrun x bits).
    simpl length in H.
    destruct (32 - length u) as [|k] eqn:Ek; [lia|].
    rewrite stepBot_zeros_prefix by lia.
    assert (Hl : length (u ++ [b]) = length u + 1) by (rewrite app_length; reflexivity).
    pose proof (IH (u ++ [b])) as IH'. rewrite Hl in IH'.
    replace (32 - (length u + 1)) with k in IH' by lia.
    rewrite IH' by lia. rewrite <- app_assoc. cbn [app length].
    first [reflexivity | f_equal; lia].
Qed.

Lemma zeros_app_nonzero k w : In true w -> zeros k ++ w <> zeros (k + length w).
Proof.
  intros Hin E. assert (In true (zeros (k + length w))) by (rewrite <- E; apply in_or_app; now right).
  unfold zeros in H. apply repeat_spec in H. discriminate.
Qed.

(* main lemma: a non-zero window of at most 32 bits leaves a non-zero register *)
Lemma window_nonzero w : length w <= 32 -> In true w -> run zero w <> zero.
Proof.
  intros Hl Hin.
  rewrite <- iter32_zero at 1. rewrite top_bot by reflexivity.
  pose proof (botrun_embed [] w) as E. cbn [length] in E. rewrite Nat.sub_0_r, app_nil_r in E.
  cbn [app] in E. change (zeros 32) with zero in E. rewrite E by lia.
  apply iter_step0_nonzero.
  - rewrite app_length. unfold zeros. rewrite repeat_length. lia.
  - unfold zero. replace 32 with ((32 - length w) + length w) at 2 by lia.
    now apply zeros_app_nonzero.
Qed.

Lemma run_app s a b : run s (a ++ b) = run (run s a) b.
Proof. unfold run. apply fold_left_app. Qed.
Lemma run_zeros_is_iter s n : length s = 32 -> run s (zeros n) = iter n step0 s.
Proof.
  revert s; induction n as [|n IH]; intros s H; [reflexivity|].
  simpl. change (fold_left stepTop (repeat false n) ?x) with (run x (zeros n)).
  rewrite IH by (apply stepTop_length, H). f_equal.
  unfold stepTop, step0. now rewrite xorb_false_r.
Qed.
Lemma run_zero_zeros n : run zero (zeros n) = zero.
Proof. rewrite run_zeros_is_iter by reflexivity. induction n; simpl; [reflexivity|]. now rewrite step0_zero. Qed.
Lemma run_length s bits : length s = 32 -> length (run s bits) = 32.
Proof. revert s; induction bits; intros s H; simpl; [assumption|]. apply IHbits, stepTop_length, H. Qed.

Theorem burst_nonzero a w c : length w <= 32 -> In true w ->
  run zero (zeros a ++ w ++ zeros c) <> zero.
Proof.
  intros Hl Hin. rewrite !run_app, run_zero_zeros.
  rewrite run_zeros_is_iter by (apply run_length; reflexivity).
  apply iter_step0_nonzero; [apply run_length; reflexivity|]. now apply window_nonzero.
Qed.

(* linearity of the whole run *)
Lemma stepTop_linear s t b c : length s = 32 -> length t = 32 ->
  stepTop (xorl s t) (xorb b c) = xorl (stepTop s b) (stepTop t c).
Proof.
  intros Hs Ht. rewrite !stepTop_alt by (try assumption; rewrite xorl_length; lia).
  rewrite step0_linear by assumption. rewrite sel_xor by apply P_length.
  rewrite !xorl_assoc. f_equal. rewrite <- !xorl_assoc. f_equal. apply xorl_comm.
Qed.
Theorem run_linear s t m d : length s = 32 -> length t = 32 -> length m = length d ->
  run (xorl s t) (xorl m d) = xorl (run s m) (run t d).
Proof.
  revert s t d; induction m as [|x m IH]; intros s t [|y d] Hs Ht Hl; simpl in *; try lia; [reflexivity|].
  change (fold_left stepTop ?l ?x) with (run x l).
  rewrite stepTop_linear by assumption. apply IH; try lia; apply stepTop_length; assumption.
Qed.

(* detection: two equal-length messages whose difference is a burst of <= 32 bits have different CRCs *)
Theorem crc_burst_detected init m a w c :
  length init = 32 -> length m = a + length w + c -> length w <= 32 -> In true w ->
  run init (xorl m (zeros a ++ w ++ zeros c)) <> run init m.
Proof.
  intros Hi Hm Hl Hin E.
  assert (Hd : length (zeros a ++ w ++ zeros c) = length m)
    by (rewrite !app_length; unfold zeros; rewrite !repeat_length; lia).
  pose proof (run_linear init zero m (zeros a ++ w ++ zeros c) Hi eq_refl (eq_sym Hd)) as L.
  unfold zero in L at 1. rewrite xorl_zeros_r in L by assumption.
  rewrite L in E.
  apply (burst_nonzero a w c Hl Hin).
  assert (Hr : length (run init m) = 32) by now apply run_length.
  assert (Hz : length (run zero (zeros a ++ w ++ zeros c)) = 32) by (apply run_length; reflexivity).
  apply (xorl_cancel_r _ _ (run init m)); try lia.
  - unfold zero, zeros. rewrite repeat_length. lia.
  - rewrite (xorl_comm _ (run init m)), E. rewrite (xorl_comm zero). unfold zero. symmetry. now apply xorl_zeros_r.
Qed.

(* K1: the 33-bit generator pattern, anywhere in a block, is invisible to the CRC *)
Lemma kernel_witness : run zero (true :: P) = zero /\ forall a c, run zero (zeros a ++ (true :: P) ++ zeros c) = zero.
Proof.
  assert (E : run zero (true :: P) = zero) by (vm_compute; reflexivity).
  split; [exact E|]. intros a c. rewrite !run_app, run_zero_zeros, E. apply run_zero_zeros.
Qed.
(* hence two different messages with the same CRC, for every start register and every length *)
Theorem crc_collision_exists init m a c : length init = 32 -> length m = a + 33 + c ->
  run init (xorl m (zeros a ++ (true :: P) ++ zeros c)) = run init m /\ xorl m (zeros a ++ (true :: P) ++ zeros c) <> m.
Proof.
  intros Hi Hm.
  assert (Hd : length (zeros a ++ (true :: P) ++ zeros c) = length m)
    by (rewrite !app_length; unfold zeros; rewrite !repeat_length; simpl; lia).
  split.
  - pose proof (run_linear init zero m (zeros a ++ (true :: P) ++ zeros c) Hi eq_refl (eq_sym Hd)) as L.
    unfold zero in L at 1. rewrite xorl_zeros_r in L by assumption. rewrite L.
    destruct kernel_witness as [_ K]. rewrite K. unfold zero. apply xorl_zeros_r. now apply run_length.
  - intro E.
    (* position a differs *)
    assert (Hn : nth a (xorl m (zeros a ++ (true :: P) ++ zeros c)) false = negb (nth a m false)).
    { clear E Hd. revert m Hm. induction a as [|a IH]; intros m Hm.
      - destruct m as [|x m]; [simpl in Hm; lia|]. simpl. destruct x; reflexivity.
      - destruct m as [|x m]; [simpl in Hm; lia|]. cbn [zeros repeat app xorl nth]. apply IH. simpl in Hm. lia. }
    rewrite E in Hn. destruct (nth a m false); discriminate.
Qed.

(* ------------------------------------------------------------------ *)
(* residue form: feeding a register its own content empties it *)
Lemma zeros_snoc k : zeros k ++ [false] = zeros (S k).
Proof. unfold zeros. induction k as [|k IH]; cbn [repeat app]; [reflexivity|]. now rewrite IH. Qed.

Lemma run_self u : forall k, run (u ++ zeros k) u = zeros (length u + k).
Proof.
  induction u as [|a u IH]; intros k; [reflexivity|].
  cbn [run fold_left app]. change (fold_left stepTop u ?x) with (run x u).
  unfold stepTop. cbn [hd]. rewrite xorb_nilpotent. unfold shl. cbn [tl].
  rewrite <- app_assoc, zeros_snoc, IH. cbn [length]. f_equal. lia.
Qed.

Lemma run_residue r w : length r = 32 -> length w = 32 -> run r w = iter 32 step0 (xorl r w).
Proof.
  intros Hr Hw.
  pose proof (run_linear r w w w Hr Hw eq_refl) as L.
  rewrite xorl_nilpotent, Hw in L.
  pose proof (run_self w 0) as S0. rewrite app_nil_r, Nat.add_0_r, Hw in S0. rewrite S0 in L.
  rewrite run_zeros_is_iter in L by (rewrite xorl_length; lia).
  rewrite L. symmetry. apply xorl_zeros_r. now apply run_length.
Qed.

Lemma reg_eq_dec (a b : reg) : {a = b} + {a <> b}.
Proof. apply list_eq_dec, bool_dec. Qed.

Theorem residue_iff r w : length r = 32 -> length w = 32 -> (run r w = zero <-> w = r).
Proof.
  intros Hr Hw. rewrite run_residue by assumption. split.
  - intros E. destruct (reg_eq_dec (xorl r w) zero) as [Z|NZ].
    + symmetry. apply (xorl_cancel_r r w w); try lia. rewrite Z, xorl_nilpotent, Hw. reflexivity.
    + exfalso. apply (iter_step0_nonzero 32 (xorl r w)); [rewrite xorl_length; lia|exact NZ|exact E].
  - intros ->. rewrite xorl_nilpotent, Hr. apply iter32_zero.
Qed.

(* ------------------------------------------------------------------ *)
(* Part 2: bytes *)
Open Scope N_scope.
Definition bits_of_byte (b : N) : list bool := map (N.testbit b) [7;6;5;4;3;2;1;0].
Fixpoint bits_of_bytes (l : list N) : list bool :=
  match l with [] => [] | b :: l => bits_of_byte b ++ bits_of_bytes l end.
Definition byte_of_bits (bs : list bool) : N :=
  fold_left (fun acc (b : bool) => 2 * acc + (if b then 1 else 0)) bs 0.
Fixpoint bytes_of_bits (bs : list bool) : list N :=
  match bs with
  | b7 :: b6 :: b5 :: b4 :: b3 :: b2 :: b1 :: b0 :: rest =>
      byte_of_bits [b7;b6;b5;b4;b3;b2;b1;b0] :: bytes_of_bits rest
  | _ => []
  end.
Close Scope N_scope.

Lemma bits_of_byte_length b : length (bits_of_byte b) = 8.
Proof. reflexivity. Qed.
Lemma bits_of_bytes_length l : length (bits_of_bytes l) = 8 * length l.
Proof. induction l as [|b l IH]; cbn [bits_of_bytes length]; [reflexivity|]. rewrite app_length, bits_of_byte_length, IH. lia. Qed.
Lemma bits_of_bytes_app a b : bits_of_bytes (a ++ b) = bits_of_bytes a ++ bits_of_bytes b.
Proof. induction a as [|x a IH]; cbn [bits_of_bytes app]; [reflexivity|]. now rewrite IH, app_assoc. Qed.

Lemma bits_of_byte_of_bits b7 b6 b5 b4 b3 b2 b1 b0 :
  bits_of_byte (byte_of_bits [b7;b6;b5;b4;b3;b2;b1;b0]) = [b7;b6;b5;b4;b3;b2;b1;b0].
Proof. destruct b7, b6, b5, b4, b3, b2, b1, b0; reflexivity. Qed.

Lemma byte_sweep : forallb (fun n => N.eqb (byte_of_bits (bits_of_byte (N.of_nat n))) (N.of_nat n)) (seq 0 256) = true.
Proof. vm_compute. reflexivity. Qed.
Lemma byte_of_bits_of_byte b : (b < 256)%N -> byte_of_bits (bits_of_byte b) = b.
Proof.
  intros H. pose proof byte_sweep as S. rewrite forallb_forall in S.
  specialize (S (N.to_nat b)). rewrite N2Nat.id in S. apply N.eqb_eq, S.
  apply in_seq. lia.
Qed.

Lemma bits_bytes_bits r : forall n, length r = 8 * n -> bits_of_bytes (bytes_of_bits r) = r.
Proof.
  intros n; revert r; induction n as [|n IH]; intros r H.
  - destruct r; [reflexivity|cbn in H; lia].
  - do 8 (destruct r as [|? r]; [cbn in H; lia|]).
    cbn [bytes_of_bits bits_of_bytes]. rewrite bits_of_byte_of_bits. cbn [app].
    do 8 f_equal. apply IH. cbn [length] in H. lia.
Qed.
Lemma bytes_of_bits_length r : forall n, length r = 8 * n -> length (bytes_of_bits r) = n.
Proof.
  intros n; revert r; induction n as [|n IH]; intros r H.
  - destruct r; [reflexivity|cbn in H; lia].
  - do 8 (destruct r as [|? r]; [cbn in H; lia|]).
    cbn [bytes_of_bits length]. f_equal. apply IH. cbn [length] in H. lia.
Qed.
Lemma bytes_bits_bytes l : wf_bytes l -> bytes_of_bits (bits_of_bytes l) = l.
Proof.
  induction 1 as [|b l Hb Hl IH]; [reflexivity|].
  cbn [bits_of_bytes]. unfold bits_of_byte at 1. cbn [map app bytes_of_bits].
  rewrite IH. f_equal. apply (byte_of_bits_of_byte b Hb).
Qed.
Lemma bytes_of_bits_wf r : wf_bytes (bytes_of_bits r).
Proof.
  assert (G : forall n r, length r <= n -> wf_bytes (bytes_of_bits r)).
  { induction n as [|n IH]; intros r0 H.
    - destruct r0; [constructor|cbn in H; lia].
    - do 8 (destruct r0 as [|? r0]; [constructor|]).
      cbn [bytes_of_bits]. constructor.
      + destruct b, b0, b1, b2, b3, b4, b5, b6; vm_compute; reflexivity.
      + apply IH. cbn [length] in H. lia. }
  apply (G (length r)). lia.
Qed.

(* byte-wise xor *)
Fixpoint bxor (a b : list N) : list N :=
  match a, b with x :: a, y :: b => N.lxor x y :: bxor a b | _, _ => [] end.
Lemma bits_of_byte_lxor x y : bits_of_byte (N.lxor x y) = xorl (bits_of_byte x) (bits_of_byte y).
Proof. unfold bits_of_byte. cbn [map xorl]. now rewrite !N.lxor_spec. Qed.
Lemma bits_of_bytes_bxor a : forall b, length a = length b ->
  bits_of_bytes (bxor a b) = xorl (bits_of_bytes a) (bits_of_bytes b).
Proof.
  induction a as [|x a IH]; intros [|y b] H; cbn in H; try lia; [reflexivity|].
  cbn [bxor bits_of_bytes]. rewrite bits_of_byte_lxor, IH by lia.
  symmetry. apply xorl_app. reflexivity.
Qed.
Lemma bxor_length a : forall b, length a = length b -> length (bxor a b) = length a.
Proof. induction a as [|x a IH]; intros [|y b] H; cbn in *; try lia. now rewrite IH by lia. Qed.

(* the block check *)
Definition ones : reg := repeat true 32.
Definition crc (data : list N) : reg := run ones (bits_of_bytes data).
Definition crc_bytes (data : list N) : list N := bytes_of_bits (crc data).   (* 4 bytes, big-endian *)
Definition mk_block (data : list N) : list N := data ++ crc_bytes data.
Fixpoint beqs (a b : list bool) : bool :=
  match a, b with
  | [], [] => true
  | x :: a, y :: b => Bool.eqb x y && beqs a b
  | _, _ => false
  end.
Lemma beqs_spec a : forall b, beqs a b = true <-> a = b.
Proof.
  induction a as [|x a IH]; intros [|y b]; cbn [beqs]; try (split; [discriminate|congruence]); [tauto|].
  rewrite andb_true_iff, eqb_true_iff, IH. split; [intros [-> ->]; reflexivity|intros E; injection E; tauto].
Qed.
(* block.rs:21 assert_slice_crc on a full slice (data ++ 4 CRC bytes); needs length >= 4 *)
Definition check_block (blk : list N) : bool :=
  let n := length blk - 4 in
  beqs (crc (firstn n blk)) (bits_of_bytes (skipn n blk)).

Lemma crc_length data : length (crc data) = 32.
Proof. apply run_length. reflexivity. Qed.
Lemma crc_bytes_length data : length (crc_bytes data) = 4.
Proof. apply bytes_of_bits_length. now rewrite crc_length. Qed.
Lemma crc_bytes_wf data : wf_bytes (crc_bytes data).
Proof. apply bytes_of_bits_wf. Qed.

Theorem check_block_mk data : check_block (mk_block data) = true.
Proof.
  unfold check_block, mk_block. rewrite app_length, crc_bytes_length.
  replace (length data + 4 - 4) with (length data) by lia.
  rewrite firstn_app_len, skipn_app_len by reflexivity.
  apply beqs_spec. unfold crc_bytes. symmetry. apply (bits_bytes_bits _ 4). now rewrite crc_length.
Qed.

(* residue form of the check: the run over the whole block ends in the zero register *)
Theorem check_block_residue blk : 4 <= length blk ->
  (check_block blk = true <-> run ones (bits_of_bytes blk) = zero).
Proof.
  intros H. unfold check_block. set (n := length blk - 4).
  rewrite beqs_spec.
  rewrite <- (firstn_skipn n blk) at 3. rewrite bits_of_bytes_app, run_app.
  fold (crc (firstn n blk)).
  assert (L : length (bits_of_bytes (skipn n blk)) = 32).
  { rewrite bits_of_bytes_length, skipn_length. subst n. lia. }
  rewrite residue_iff by (try apply crc_length; exact L). split; congruence.
Qed.

(* Detection: any alteration whose differing bits lie within 32 consecutive bit positions of the
   block (data or stored CRC) makes the check fail. *)
Theorem check_block_burst blk d a w c :
  4 <= length blk -> check_block blk = true -> length d = length blk ->
  bits_of_bytes d = zeros a ++ w ++ zeros c -> length w <= 32 -> In true w ->
  check_block (bxor blk d) = false.
Proof.
  intros H4 Hc Hd Hbits Hw Hin.
  destruct (check_block (bxor blk d)) eqn:E; [exfalso|reflexivity].
  rewrite check_block_residue in E by (rewrite bxor_length; lia).
  rewrite check_block_residue in Hc by assumption.
  rewrite bits_of_bytes_bxor in E by lia. rewrite Hbits in E.
  assert (Hm : length (bits_of_bytes blk) = a + length w + c).
  { rewrite bits_of_bytes_length, <- Hd, <- bits_of_bytes_length, Hbits, !app_length, !zeros_length. lia. }
  apply (crc_burst_detected ones (bits_of_bytes blk) a w c eq_refl Hm Hw Hin).
  now rewrite E, Hc.
Qed.

(* byte-level corollary: alterations confined to at most 4 consecutive bytes are always detected *)
Lemma bits_of_zero_bytes n : bits_of_bytes (repeat 0%N n) = zeros (8 * n).
Proof.
  induction n as [|n IH]; [reflexivity|]. cbn [repeat bits_of_bytes]. rewrite IH.
  replace (8 * S n) with (8 + 8 * n) by lia. unfold zeros. rewrite repeat_app. reflexivity.
Qed.
Lemma bits_nonzero_bytes w : wf_bytes w -> (exists b, In b w /\ b <> 0%N) -> In true (bits_of_bytes w).
Proof.
  intros W [b [Hin Hb]]. induction W as [|x w Hx Hw IH]; [destruct Hin|].
  cbn [bits_of_bytes]. apply in_or_app. destruct Hin as [->|Hin]; [left|right; now apply IH].
  destruct (in_dec bool_dec true (bits_of_byte b)) as [I|NI]; [exact I|exfalso].
  apply Hb. rewrite <- (byte_of_bits_of_byte b Hx).
  unfold bits_of_byte in *. cbn [map] in *.
  repeat match goal with |- context [N.testbit b ?k] =>
    let e := fresh in destruct (N.testbit b k) eqn:e; [exfalso; apply NI; cbn; tauto|] end.
  reflexivity.
Qed.
Theorem check_block_4bytes blk pre w post :
  check_block blk = true -> 4 <= length blk -> length w <= 4 -> wf_bytes w ->
  (exists b, In b w /\ b <> 0%N) ->
  length blk = pre + length w + post ->
  check_block (bxor blk (repeat 0%N pre ++ w ++ repeat 0%N post)) = false.
Proof.
  intros Hc H4 Hw W Hnz Hl.
  apply (check_block_burst blk _ (8 * pre) (bits_of_bytes w) (8 * post)); try assumption.
  - rewrite !app_length, !repeat_length. lia.
  - now rewrite !bits_of_bytes_app, !bits_of_zero_bytes.
  - rewrite bits_of_bytes_length. lia.
  - now apply bits_nonzero_bytes.
Qed.

(* K1: the generator pattern 0x01 1E DC 6F 41, xor-ed at any byte offset, is invisible to the check *)
Definition kernel_pattern : list N := [1; 30; 220; 111; 65]%N.
Lemma kernel_pattern_bits : bits_of_bytes kernel_pattern = zeros 7 ++ (true :: P).
Proof. vm_compute. reflexivity. Qed.

Theorem check_block_kernel blk pre post :
  check_block blk = true -> length blk = pre + 5 + post -> 4 <= length blk ->
  check_block (bxor blk (repeat 0%N pre ++ kernel_pattern ++ repeat 0%N post)) = true /\
  bits_of_bytes (bxor blk (repeat 0%N pre ++ kernel_pattern ++ repeat 0%N post)) <> bits_of_bytes blk.
Proof.
  intros Hc Hl H4.
  set (d := repeat 0%N pre ++ kernel_pattern ++ repeat 0%N post).
  assert (Hd : length d = length blk) by (subst d; rewrite !app_length, !repeat_length; cbn; lia).
  assert (Hb : bits_of_bytes d = zeros (8 * pre + 7) ++ (true :: P) ++ zeros (8 * post)).
  { subst d. rewrite !bits_of_bytes_app, !bits_of_zero_bytes, kernel_pattern_bits.
    unfold zeros. rewrite repeat_app, <- !app_assoc. reflexivity. }
  assert (Hm : length (bits_of_bytes blk) = (8 * pre + 7) + 33 + 8 * post)
    by (rewrite bits_of_bytes_length; lia).
  destruct (crc_collision_exists ones (bits_of_bytes blk) (8 * pre + 7) (8 * post) eq_refl Hm) as [K1 K2].
  rewrite check_block_residue in Hc by assumption.
  split.
  - rewrite check_block_residue by (rewrite bxor_length; lia).
    rewrite bits_of_bytes_bxor, Hb by lia. now rewrite K1.
  - rewrite bits_of_bytes_bxor, Hb by lia. exact K2.
Qed.
