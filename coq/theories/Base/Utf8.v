(* UTF-8 well-formedness as decided by Rust's std::str::from_utf8 (Unicode 15, table 3-7): names and
   locations are PStrings that the reader turns into a SmallString, which fails on ill-formed bytes. *)
From Coq Require Import List Arith NArith ZArith Bool Lia ZifyN ZifyBool ZifyNat.
Import ListNotations.
Ltac Zify.zify_post_hook ::= Z.div_mod_to_equations.
Open Scope N_scope.

Definition u8cont (b : N) : bool := (128 <=? b) && (b <=? 191).
Fixpoint utf8_valid (l : list N) : bool :=
  match l with
  | [] => true
  | b0 :: r =>
      if b0 <? 128 then utf8_valid r
      else if (194 <=? b0) && (b0 <=? 223) then
        match r with b1 :: r1 => u8cont b1 && utf8_valid r1 | _ => false end
      else if b0 =? 224 then
        match r with b1 :: b2 :: r2 => (160 <=? b1) && (b1 <=? 191) && u8cont b2 && utf8_valid r2 | _ => false end
      else if ((225 <=? b0) && (b0 <=? 236)) || (b0 =? 238) || (b0 =? 239) then
        match r with b1 :: b2 :: r2 => u8cont b1 && u8cont b2 && utf8_valid r2 | _ => false end
      else if b0 =? 237 then
        match r with b1 :: b2 :: r2 => (128 <=? b1) && (b1 <=? 159) && u8cont b2 && utf8_valid r2 | _ => false end
      else if b0 =? 240 then
        match r with b1 :: b2 :: b3 :: r3 => (144 <=? b1) && (b1 <=? 191) && u8cont b2 && u8cont b3 && utf8_valid r3 | _ => false end
      else if (241 <=? b0) && (b0 <=? 243) then
        match r with b1 :: b2 :: b3 :: r3 => u8cont b1 && u8cont b2 && u8cont b3 && utf8_valid r3 | _ => false end
      else if b0 =? 244 then
        match r with b1 :: b2 :: b3 :: r3 => (128 <=? b1) && (b1 <=? 143) && u8cont b2 && u8cont b3 && utf8_valid r3 | _ => false end
      else false
  end.

(* the encoder: Unicode scalar values (0..0x10FFFF without the surrogates) *)
Definition scalar (c : N) : Prop := c < 55296 \/ (57344 <= c /\ c < 1114112).
Definition utf8_enc (c : N) : list N :=
  if c <? 128 then [c]
  else if c <? 2048 then [192 + c / 64; 128 + c mod 64]
  else if c <? 65536 then [224 + c / 4096; 128 + (c / 64) mod 64; 128 + c mod 64]
  else [240 + c / 262144; 128 + (c / 4096) mod 64; 128 + (c / 64) mod 64; 128 + c mod 64].

Lemma andb_true_absorb x y : x = true -> x && y = y.
Proof. now intros ->. Qed.
Ltac bprop := rewrite ?andb_true_iff, ?orb_true_iff, ?N.leb_le, ?N.ltb_lt, ?N.eqb_eq.
Ltac btrue := bprop; lia.
Ltac bfalse := apply not_true_iff_false; bprop; lia.
Ltac decide_ifs :=
  repeat match goal with
         | |- context [if ?b then _ else _] =>
             first [replace b with true by (symmetry; btrue) | replace b with false by (symmetry; bfalse)]; cbv iota
         end.
Ltac finish_enc := unfold u8cont; first [reflexivity | apply andb_true_absorb; btrue].

Lemma utf8_valid_enc_app c r : scalar c -> utf8_valid (utf8_enc c ++ r) = utf8_valid r.
Proof.
  intros S. unfold utf8_enc.
  destruct (N.ltb_spec c 128) as [H1|H1]; [cbn [app utf8_valid]; apply N.ltb_lt in H1; now rewrite H1|].
  destruct (N.ltb_spec c 2048) as [H2|H2].
  { cbn [app]. unfold utf8_valid at 1. fold utf8_valid. decide_ifs. finish_enc. }
  destruct (N.ltb_spec c 65536) as [H3|H3].
  { cbn [app]. unfold utf8_valid at 1. fold utf8_valid.
    destruct (N.lt_ge_cases c 4096); [decide_ifs; finish_enc|].
    destruct (N.lt_ge_cases c 53248); [decide_ifs; finish_enc|].
    destruct (N.lt_ge_cases c 55296); [decide_ifs; finish_enc|].
    assert (57344 <= c) by (destruct S as [S|[S1 S2]]; lia). decide_ifs; finish_enc. }
  assert (c < 1114112) by (destruct S as [S|[S1 S2]]; lia).
  cbn [app]. unfold utf8_valid at 1. fold utf8_valid.
  destruct (N.lt_ge_cases c 262144); [decide_ifs; finish_enc|].
  destruct (N.lt_ge_cases c 1048576); [decide_ifs; finish_enc|].
  decide_ifs; finish_enc.
Qed.

(* every string (a sequence of scalar values) encodes to well-formed bytes *)
Theorem utf8_encode_valid cs : Forall scalar cs -> utf8_valid (flat_map utf8_enc cs) = true.
Proof.
  induction 1 as [|c cs S F IH]; [reflexivity|]. cbn [flat_map]. now rewrite utf8_valid_enc_app.
Qed.

Lemma utf8_valid_ascii l : Forall (fun b => b < 128) l -> utf8_valid l = true.
Proof.
  induction 1 as [|b l H F IH]; [reflexivity|]. cbn [utf8_valid]. apply N.ltb_lt in H. now rewrite H.
Qed.
Example utf8_rejects_lone_continuation : utf8_valid [110; 128] = false. Proof. reflexivity. Qed.
Example utf8_rejects_surrogate : utf8_valid [237; 160; 128] = false. Proof. reflexivity. Qed.
Example utf8_rejects_overlong : utf8_valid [192; 175] = false. Proof. reflexivity. Qed.
Example utf8_accepts_multibyte : utf8_valid [195; 169; 226; 130; 172; 240; 159; 152; 128] = true. Proof. reflexivity. Qed.
Close Scope N_scope.
