(* Reader programs: the model reader is written against three primitives — a CRC-checked block
   read, an unchecked read, and the file length — so that "what the result depends on" is
   explicit.  [run] executes a program on the bytes of a file. *)
From Coq Require Import List Arith NArith Bool Lia.
From Jbk Require Import Base.ListExtra Base.Bytes Base.Crc Base.Parser.
Import ListNotations.
Open Scope N_scope.

Inductive prog (A : Type) : Type :=
| Ret (a : A)
| Fail (e : err)
| RdBlock (off size : N) (k : list N -> prog A)     (* Reader::parse_block_in: [size] data bytes + CRC *)
| RdRaw (off size : N) (k : list N -> prog A)       (* unchecked cut *)
| Len (k : N -> prog A).                            (* Reader::size of the whole file *)
Arguments Ret {A} a. Arguments Fail {A} e. Arguments RdBlock {A} off size k.
Arguments RdRaw {A} off size k. Arguments Len {A} k.

Fixpoint pbind {A B} (p : prog A) (g : A -> prog B) : prog B :=
  match p with
  | Ret a => g a
  | Fail e => Fail e
  | RdBlock off size k => RdBlock off size (fun d => pbind (k d) g)
  | RdRaw off size k => RdRaw off size (fun d => pbind (k d) g)
  | Len k => Len (fun n => pbind (k n) g)
  end.
Definition lift {A} (r : res A) : prog A := match r with Ok a => Ret a | Err e => Fail e end.

Declare Scope prog_scope.
Delimit Scope prog_scope with prog.
Notation "x <~ c1 ;; c2" := (pbind c1 (fun x => c2)) (at level 61, c1 at next level, right associativity) : prog_scope.
Notation "' pat <~ c1 ;; c2" := (pbind c1 (fun x => match x with pat => c2 end))
  (at level 61, pat pattern, c1 at next level, right associativity) : prog_scope.

Fixpoint run {A} (f : list N) (p : prog A) : res A :=
  match p with
  | Ret a => Ok a
  | Fail e => Err e
  | RdBlock off size k => match read_block f off size with Ok d => run f (k d) | Err e => Err e end
  | RdRaw off size k => match read_raw f off size with Ok d => run f (k d) | Err e => Err e end
  | Len k => run f (k (lenN f))
  end.

(* the same interpreter with the file length computed once (used by the extracted entry points) *)
Definition read_block_n (n : N) (f : list N) (off size : N) : res (list N) :=
  if (off + size + 4 <=? n) then
    let blk := subN off (size + 4) f in
    if check_block blk then Ok (firstn (N.to_nat size) blk) else Err ECorrupt
  else Err EOob.
Definition read_raw_n (n : N) (f : list N) (off size : N) : res (list N) :=
  if (off + size <=? n) then Ok (subN off size f) else Err EOob.
Fixpoint run_n {A} (n : N) (f : list N) (p : prog A) : res A :=
  match p with
  | Ret a => Ok a
  | Fail e => Err e
  | RdBlock off size k => match read_block_n n f off size with Ok d => run_n n f (k d) | Err e => Err e end
  | RdRaw off size k => match read_raw_n n f off size with Ok d => run_n n f (k d) | Err e => Err e end
  | Len k => run_n n f (k n)
  end.
Lemma run_n_run {A} f (p : prog A) : run_n (lenN f) f p = run f p.
Proof.
  induction p as [a|e|off size k IH|off size k IH|k IH]; cbn [run run_n]; try reflexivity.
  - change (read_block_n (lenN f) f off size) with (read_block f off size).
    destruct (read_block f off size); [apply IH|reflexivity].
  - change (read_raw_n (lenN f) f off size) with (read_raw f off size).
    destruct (read_raw f off size); [apply IH|reflexivity].
  - apply IH.
Qed.

Lemma run_pbind {A B} f (p : prog A) (g : A -> prog B) :
  run f (pbind p g) = match run f p with Ok a => run f (g a) | Err e => Err e end.
Proof.
  induction p as [a|e|off size k IH|off size k IH|k IH]; cbn [pbind run]; try reflexivity.
  - destruct (read_block f off size); [apply IH|reflexivity].
  - destruct (read_raw f off size); [apply IH|reflexivity].
  - apply IH.
Qed.
Lemma run_lift {A} f (r : res A) : run f (lift r) = r.
Proof. destruct r; reflexivity. Qed.

(* The result of a program depends only on the length of the file and on the ranges it reads. *)
Fixpoint reads_agree {A} (f f' : list N) (p : prog A) : Prop :=
  match p with
  | Ret _ | Fail _ => True
  | RdBlock off size k =>
      (off + size + 4 <= lenN f -> subN off (size + 4) f' = subN off (size + 4) f) /\
      forall d, read_block f off size = Ok d -> reads_agree f f' (k d)
  | RdRaw off size k =>
      (off + size <= lenN f -> subN off size f' = subN off size f) /\
      forall d, read_raw f off size = Ok d -> reads_agree f f' (k d)
  | Len k => reads_agree f f' (k (lenN f))
  end.

Theorem run_agree {A} (p : prog A) f f' : lenN f' = lenN f -> reads_agree f f' p -> run f' p = run f p.
Proof.
  intros HL. induction p as [a|e|off size k IH|off size k IH|k IH]; cbn [reads_agree run]; intros H; try reflexivity.
  - destruct H as [H1 H2].
    assert (E : read_block f' off size = read_block f off size).
    { unfold read_block. rewrite HL. destruct (N.leb_spec (off + size + 4) (lenN f)) as [L|L]; [|reflexivity].
      now rewrite H1. }
    rewrite E. destruct (read_block f off size) as [d|e] eqn:R; [|reflexivity]. apply IH, H2. reflexivity.
  - destruct H as [H1 H2].
    assert (E : read_raw f' off size = read_raw f off size).
    { unfold read_raw. rewrite HL. destruct (N.leb_spec (off + size) (lenN f)) as [L|L]; [|reflexivity].
      now rewrite H1. }
    rewrite E. destruct (read_raw f off size) as [d|e] eqn:R; [|reflexivity]. apply IH, H2. reflexivity.
  - rewrite HL. apply IH, H.
Qed.

(* executable check: every range the program reads on [f] is disjoint from [lo, hi) *)
Fixpoint disjoint_run {A} (f : list N) (lo hi : N) (p : prog A) : bool :=
  match p with
  | Ret _ | Fail _ => true
  | RdBlock off size k =>
      ((off + size + 4 <=? lo) || (hi <=? off)) &&
      match read_block f off size with Ok d => disjoint_run f lo hi (k d) | Err _ => true end
  | RdRaw off size k =>
      ((off + size <=? lo) || (hi <=? off)) &&
      match read_raw f off size with Ok d => disjoint_run f lo hi (k d) | Err _ => true end
  | Len k => disjoint_run f lo hi (k (lenN f))
  end.

Lemma disjoint_run_pbind {A B} f lo hi (p : prog A) (g : A -> prog B) :
  disjoint_run f lo hi (pbind p g) =
  disjoint_run f lo hi p && match run f p with Ok a => disjoint_run f lo hi (g a) | Err _ => true end.
Proof.
  induction p as [a|e|off size k IH|off size k IH|k IH]; cbn [pbind run disjoint_run]; try reflexivity.
  - destruct (read_block f off size); [rewrite IH, andb_assoc; reflexivity|now rewrite !andb_true_r].
  - destruct (read_raw f off size); [rewrite IH, andb_assoc; reflexivity|now rewrite !andb_true_r].
  - apply IH.
Qed.

Lemma subN_splice_disjoint f g nb off n :
  (g + length nb <= length f)%nat ->
  (off + n <= N.of_nat g \/ N.of_nat (g + length nb) <= off) ->
  subN off n (splice g nb f) = subN off n f.
Proof.
  intros Hg [H|H]; unfold subN.
  - apply sub_splice_before; [assumption|lia].
  - apply sub_splice_after; [assumption|lia].
Qed.

Theorem disjoint_run_agree {A} (p : prog A) f g nb :
  (g + length nb <= length f)%nat ->
  disjoint_run f (N.of_nat g) (N.of_nat (g + length nb)) p = true ->
  reads_agree f (splice g nb f) p.
Proof.
  intros Hg. induction p as [a|e|off size k IH|off size k IH|k IH]; cbn [disjoint_run reads_agree]; intros H; try exact I.
  - apply andb_prop in H. destruct H as [D H]. split.
    + intros _. apply subN_splice_disjoint; [assumption|].
      apply orb_prop in D. destruct D as [D|D]; [left|right]; apply N.leb_le in D; lia.
    + intros d R. rewrite R in H. now apply IH.
  - apply andb_prop in H. destruct H as [D H]. split.
    + intros _. apply subN_splice_disjoint; [assumption|].
      apply orb_prop in D. destruct D as [D|D]; [left|right]; apply N.leb_le in D; lia.
    + intros d R. rewrite R in H. now apply IH.
  - now apply IH.
Qed.

Corollary run_splice_disjoint {A} (p : prog A) f g nb :
  (g + length nb <= length f)%nat ->
  disjoint_run f (N.of_nat g) (N.of_nat (g + length nb)) p = true ->
  run (splice g nb f) p = run f p.
Proof.
  intros Hg D. apply run_agree.
  - unfold lenN. now rewrite splice_length.
  - now apply disjoint_run_agree.
Qed.
Close Scope N_scope.

Open Scope N_scope.
Lemma disjoint_run_mono {A} (p : prog A) f lo hi lo' hi' :
  lo <= lo' -> hi' <= hi -> disjoint_run f lo hi p = true -> disjoint_run f lo' hi' p = true.
Proof.
  intros Hl Hh. induction p as [a|e|off size k IH|off size k IH|k IH]; cbn [disjoint_run]; intros H; try reflexivity.
  - apply andb_prop in H. destruct H as [D H]. apply andb_true_intro. split.
    + apply orb_prop in D. apply orb_true_intro. destruct D as [D|D]; [left|right]; apply N.leb_le in D; apply N.leb_le; lia.
    + destruct (read_block f off size); [now apply IH|reflexivity].
  - apply andb_prop in H. destruct H as [D H]. apply andb_true_intro. split.
    + apply orb_prop in D. apply orb_true_intro. destruct D as [D|D]; [left|right]; apply N.leb_le in D; apply N.leb_le; lia.
    + destruct (read_raw f off size); [now apply IH|reflexivity].
  - now apply IH.
Qed.

Lemma disjoint_run_agree_eq {A} (p : prog A) f f' lo hi :
  lenN f' = lenN f -> reads_agree f f' p -> disjoint_run f' lo hi p = disjoint_run f lo hi p.
Proof.
  intros HL. induction p as [a|e|off size k IH|off size k IH|k IH]; cbn [reads_agree disjoint_run]; intros H; try reflexivity.
  - destruct H as [H1 H2].
    assert (E : read_block f' off size = read_block f off size).
    { unfold read_block. rewrite HL. destruct (N.leb_spec (off + size + 4) (lenN f)) as [L|L]; [|reflexivity]. now rewrite H1. }
    rewrite E. f_equal. destruct (read_block f off size) as [d|e] eqn:R; [|reflexivity]. apply IH, H2. reflexivity.
  - destruct H as [H1 H2].
    assert (E : read_raw f' off size = read_raw f off size).
    { unfold read_raw. rewrite HL. destruct (N.leb_spec (off + size) (lenN f)) as [L|L]; [|reflexivity]. now rewrite H1. }
    rewrite E. f_equal. destruct (read_raw f off size) as [d|e] eqn:R; [|reflexivity]. apply IH, H2. reflexivity.
  - rewrite HL. apply IH, H.
Qed.
Close Scope N_scope.
