(* Small list library used everywhere: sub-lists by (offset, length), splicing, frame lemmas.
   Coq 8.16's List lacks several of these.  Positions and lengths are [nat]. *)
From Coq Require Import List Arith Lia.
Import ListNotations.

Section Sub.
Context {A : Type}.
Implicit Types l : list A.

Definition sub (o n : nat) l : list A := firstn n (skipn o l).

Lemma skipn_skipn l a b : skipn a (skipn b l) = skipn (b + a) l.
Proof.
  revert l; induction b as [|b IH]; intros l; cbn [skipn plus]; [reflexivity|].
  destruct l; cbn [skipn]; [now rewrite skipn_nil|apply IH].
Qed.

Lemma sub_length o n l : o + n <= length l -> length (sub o n l) = n.
Proof. intros H. unfold sub. rewrite firstn_length, skipn_length. lia. Qed.

Lemma sub_length_le o n l : length (sub o n l) <= n.
Proof. unfold sub. rewrite firstn_length. lia. Qed.

Lemma sub_0_all l : sub 0 (length l) l = l.
Proof. unfold sub. cbn [skipn]. apply firstn_all. Qed.

Lemma sub_nil o n : sub o n (@nil A) = [].
Proof. unfold sub. rewrite skipn_nil. apply firstn_nil. Qed.

Lemma sub_zero o l : sub o 0 l = [].
Proof. reflexivity. Qed.

Lemma sub_sub l o1 n1 o2 n2 : o2 + n2 <= n1 ->
  sub o2 n2 (sub o1 n1 l) = sub (o1 + o2) n2 l.
Proof.
  intros H. unfold sub. rewrite skipn_firstn_comm, firstn_firstn, skipn_skipn.
  f_equal. lia.
Qed.

Lemma sub_split l o a b : sub o (a + b) l = sub o a l ++ sub (o + a) b l.
Proof.
  unfold sub. rewrite <- skipn_skipn.
  rewrite <- (firstn_skipn a (skipn o l)) at 1.
  rewrite firstn_app, firstn_firstn.
  replace (Nat.min (a + b) a) with a by lia.
  f_equal. rewrite firstn_length.
  destruct (Nat.le_ge_cases a (length (skipn o l))) as [Hle|Hge].
  - rewrite Nat.min_l by assumption. replace (a + b - a) with b by lia. reflexivity.
  - rewrite (skipn_all2 (skipn o l)) by assumption. now rewrite !firstn_nil.
Qed.

Lemma sub_app_l l1 l2 o n : o + n <= length l1 -> sub o n (l1 ++ l2) = sub o n l1.
Proof.
  intros H. unfold sub. rewrite skipn_app, firstn_app, skipn_length.
  replace (n - (length l1 - o)) with 0 by lia. cbn [firstn]. apply app_nil_r.
Qed.

Lemma sub_app_r l1 l2 o n : length l1 <= o -> sub o n (l1 ++ l2) = sub (o - length l1) n l2.
Proof.
  intros H. unfold sub. rewrite skipn_app. rewrite (skipn_all2 l1) by assumption. reflexivity.
Qed.

(* the segment lemma: reading where a piece was placed gives the piece back *)
Lemma sub_concat l1 m l2 : sub (length l1) (length m) (l1 ++ m ++ l2) = m.
Proof.
  rewrite sub_app_r by lia. rewrite Nat.sub_diag. rewrite sub_app_l by lia. apply sub_0_all.
Qed.

Lemma sub_placed l1 m l2 o n : o + n <= length m ->
  sub (length l1 + o) n (l1 ++ m ++ l2) = sub o n m.
Proof.
  intros H. rewrite sub_app_r by lia. replace (length l1 + o - length l1) with o by lia.
  apply sub_app_l. assumption.
Qed.

(* splice: overwrite [length new] elements at offset [o] *)
Definition splice (o : nat) (new l : list A) : list A :=
  firstn o l ++ new ++ skipn (o + length new) l.

Lemma splice_length o new l : o + length new <= length l -> length (splice o new l) = length l.
Proof. intros H. unfold splice. rewrite !app_length, firstn_length, skipn_length. lia. Qed.

Lemma splice_sub_same o new l : o + length new <= length l -> sub o (length new) (splice o new l) = new.
Proof.
  intros H. unfold splice.
  assert (E : o = length (firstn o l)) by (rewrite firstn_length; lia).
  rewrite E at 1. apply sub_concat.
Qed.

Lemma nth_error_splice_out o new l i : o + length new <= length l ->
  i < o \/ o + length new <= i -> nth_error (splice o new l) i = nth_error l i.
Proof.
  intros H [Hi|Hi]; unfold splice.
  - rewrite nth_error_app1 by (rewrite firstn_length; lia).
    rewrite <- (firstn_skipn o l) at 2. rewrite nth_error_app1 by (rewrite firstn_length; lia). reflexivity.
  - rewrite nth_error_app2 by (rewrite firstn_length; lia).
    rewrite nth_error_app2 by (rewrite firstn_length; lia).
    rewrite firstn_length. replace (Nat.min o (length l)) with o by lia.
    rewrite <- (firstn_skipn (o + length new) l) at 2.
    rewrite nth_error_app2 by (rewrite firstn_length; lia).
    rewrite firstn_length. f_equal. lia.
Qed.

Lemma sub_splice_before o new l a n : o + length new <= length l -> a + n <= o ->
  sub a n (splice o new l) = sub a n l.
Proof.
  intros H Ha. unfold splice. rewrite sub_app_l by (rewrite firstn_length; lia).
  unfold sub. rewrite skipn_firstn_comm, firstn_firstn. f_equal. lia.
Qed.

Lemma sub_splice_after o new l a n : o + length new <= length l -> o + length new <= a ->
  sub a n (splice o new l) = sub a n l.
Proof.
  intros H Ha. unfold splice. rewrite app_assoc.
  rewrite sub_app_r by (rewrite app_length, firstn_length; lia).
  rewrite app_length, firstn_length. replace (Nat.min o (length l)) with o by lia.
  unfold sub. rewrite skipn_skipn. do 2 f_equal. lia.
Qed.

Lemma firstn_sub n l : firstn n l = sub 0 n l.
Proof. reflexivity. Qed.

Lemma nth_error_sub l o n i : i < n -> nth_error (sub o n l) i = nth_error l (o + i).
Proof.
  intros H. unfold sub.
  revert l o i H. induction n as [|n IH]; intros l o i H; [lia|].
  destruct (skipn o l) as [|x t] eqn:E.
  - cbn [firstn]. assert (length l <= o).
    { destruct (Nat.le_gt_cases (length l) o) as [L|L]; [exact L|].
      apply (f_equal (@length A)) in E. rewrite skipn_length in E. cbn in E. lia. }
    destruct i; cbn [nth_error]; symmetry; apply nth_error_None; lia.
  - cbn [firstn]. destruct i as [|i].
    + cbn [nth_error]. rewrite Nat.add_0_r.
      rewrite <- (firstn_skipn o l) at 1. rewrite E.
      assert (Ho : o <= length l).
      { destruct (Nat.le_gt_cases o (length l)) as [L|L]; [exact L|].
        rewrite skipn_all2 in E by lia. discriminate. }
      rewrite nth_error_app2 by (rewrite firstn_length; lia).
      rewrite firstn_length. replace (o - Nat.min o (length l)) with 0 by lia. reflexivity.
    + cbn [nth_error]. replace t with (skipn (S o) l).
      * rewrite IH by lia. f_equal. lia.
      * replace (S o) with (o + 1) by lia. rewrite <- skipn_skipn, E. reflexivity.
Qed.

End Sub.

Lemma firstn_app_len {A} (a b : list A) n : n = length a -> firstn n (a ++ b) = a.
Proof. intros ->. rewrite firstn_app, Nat.sub_diag, firstn_all. cbn [firstn]. apply app_nil_r. Qed.

Lemma skipn_app_len {A} (a b : list A) n : n = length a -> skipn n (a ++ b) = b.
Proof. intros ->. rewrite skipn_app, Nat.sub_diag, skipn_all. reflexivity. Qed.

Lemma map_sub {A B} (f : A -> B) o n l : map f (sub o n l) = sub o n (map f l).
Proof. unfold sub. now rewrite skipn_map, firstn_map. Qed.

Fixpoint sum (l : list nat) : nat := match l with [] => 0 | x :: t => x + sum t end.

Lemma sum_app a b : sum (a ++ b) = sum a + sum b.
Proof. induction a as [|x a IH]; cbn [sum app]; lia. Qed.

Lemma concat_length_sum {A} (ls : list (list A)) : length (concat ls) = sum (map (@length A) ls).
Proof. induction ls as [|x t IH]; cbn [concat map sum]; [reflexivity|]. rewrite app_length, IH. reflexivity. Qed.
