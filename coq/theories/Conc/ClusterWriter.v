(* C08 — creator/content_pack/clusterwriter.rs as a transition system (creator thread, w compression
   workers, the writer thread, the spmc dispatch queue, the mpsc fusion queue, the back-pressure
   counter), and a certified recognizer for the Progress event traces of real runs. *)
From Coq Require Import List Arith Bool Lia Permutation.
Import ListNotations.


(* creator/content_pack/clusterwriter.rs as a transition system.
   todo     : clusters the creator thread will still submit, in id order, with "compress?" flag
   dispatch : spmc queue to the compression workers
   busy     : one slot per worker (Some id = compressing cluster id)
   fusion   : mpsc queue to the single writer thread
   written  : cluster ids in the order their data landed in the file
   inq      : nb_cluster_in_queue, the back-pressure counter (limit 2 * workers)            *)
Record st := { todo : list (nat * bool); dispatch : list nat; busy : list (option nat);
               fusion : list nat; written : list nat; inq : nat }.
Definition maxq (s : st) := 2 * length (busy s).
Fixpoint setnth {B} (k : nat) (x : B) (l : list B) : list B :=
  match l, k with [], _ => [] | _ :: l, O => x :: l | y :: l, S k => y :: setnth k x l end.
Definition ids_of (b : list (option nat)) : list nat := flat_map (fun o => match o with Some i => [i] | None => [] end) b.

Inductive step : st -> st -> Prop :=
| submit_raw s id t : todo s = (id, false) :: t ->
    step s {| todo := t; dispatch := dispatch s; busy := busy s; fusion := fusion s ++ [id]; written := written s; inq := inq s |}
| submit_comp s id t : todo s = (id, true) :: t -> inq s < maxq s ->          (* wait_while(c >= max) *)
    step s {| todo := t; dispatch := dispatch s ++ [id]; busy := busy s; fusion := fusion s; written := written s; inq := S (inq s) |}
| take s k id d : nth_error (busy s) k = Some None -> dispatch s = id :: d ->
    step s {| todo := todo s; dispatch := d; busy := setnth k (Some id) (busy s); fusion := fusion s; written := written s; inq := inq s |}
| done s k id : nth_error (busy s) k = Some (Some id) ->                      (* send to fusion, then count -= 1 *)
    step s {| todo := todo s; dispatch := dispatch s; busy := setnth k None (busy s); fusion := fusion s ++ [id]; written := written s; inq := inq s - 1 |}
| write s id f : fusion s = id :: f ->
    step s {| todo := todo s; dispatch := dispatch s; busy := busy s; fusion := f; written := written s ++ [id]; inq := inq s |}.

Definition all_ids (s : st) : list nat := map fst (todo s) ++ dispatch s ++ ids_of (busy s) ++ fusion s ++ written s.

Lemma ids_of_setnth_some b k id : nth_error b k = Some None -> Permutation (ids_of (setnth k (Some id) b)) (id :: ids_of b).
Proof.
  revert k; induction b as [|o b IH]; intros [|k] H; simpl in *; try discriminate.
  - injection H as ->. simpl. reflexivity.
  - specialize (IH k H). destruct o; simpl.
    + rewrite IH. apply perm_swap.
    + exact IH.
Qed.
Lemma ids_of_setnth_none b k id : nth_error b k = Some (Some id) -> Permutation (id :: ids_of (setnth k None b)) (ids_of b).
Proof.
  revert k; induction b as [|o b IH]; intros [|k] H; simpl in *; try discriminate.
  - injection H as ->. simpl. reflexivity.
  - specialize (IH k H). destruct o; simpl.
    + rewrite perm_swap. now rewrite IH.
    + exact IH.
Qed.
Lemma setnth_length {B} k (x : B) l : length (setnth k x l) = length l.
Proof. revert k; induction l; intros [|k]; simpl; auto. Qed.
Lemma ids_len_some b k id : nth_error b k = Some None -> length (ids_of (setnth k (Some id) b)) = S (length (ids_of b)).
Proof. intros H. now rewrite (Permutation_length (ids_of_setnth_some b k id H)). Qed.
Lemma ids_len_none b k id : nth_error b k = Some (Some id) -> S (length (ids_of (setnth k None b))) = length (ids_of b).
Proof. intros H. now rewrite <- (Permutation_length (ids_of_setnth_none b k id H)). Qed.

(* 1. nothing is lost or duplicated: the ids in flight are always a permutation of the initial ones *)
Ltac perm_mid := rewrite ?app_assoc; apply Permutation_cons_app; rewrite <- ?app_assoc; reflexivity.
Lemma step_perm s s' : step s s' -> Permutation (all_ids s) (all_ids s').
Proof.
  unfold all_ids. intros St. inversion St; subst; cbn [todo dispatch busy fusion written].
  - rewrite H. cbn [map fst app]. rewrite <- !app_assoc. cbn [app]. perm_mid.
  - rewrite H. cbn [map fst app]. rewrite <- !app_assoc. cbn [app]. perm_mid.
  - rewrite H0. apply Permutation_app_head. cbn [app].
    rewrite (ids_of_setnth_some _ _ id H). cbn [app]. apply Permutation_middle.
  - apply Permutation_app_head. apply Permutation_app_head.
    rewrite <- (ids_of_setnth_none _ _ id H). cbn [app].
    rewrite <- !app_assoc. cbn [app]. perm_mid.
  - rewrite H. repeat apply Permutation_app_head. cbn [app]. rewrite app_assoc. apply Permutation_cons_append.
Qed.

(* 2. the back-pressure counter counts exactly the clusters between submission and compression end *)
Definition Inv (s : st) := inq s = length (dispatch s) + length (ids_of (busy s)) /\ inq s <= maxq s.
Lemma step_inv s s' : Inv s -> step s s' -> Inv s'.
Proof.
  unfold Inv. intros [I1 I2] St. inversion St; subst; unfold maxq in *; simpl in *.
  - split; assumption.
  - rewrite app_length. simpl. split; lia.
  - rewrite H0 in I1. simpl in I1. rewrite setnth_length, (ids_len_some _ _ id H). split; lia.
  - pose proof (ids_len_none _ _ id H). rewrite setnth_length. split; lia.
  - split; assumption.
Qed.

(* 3. no deadlock: unless everything is written, some thread can move (needs >= 1 worker) *)
Lemma busy_cases (b : list (option nat)) : (exists k, nth_error b k = Some None) \/ (forall k o, nth_error b k = Some o -> exists id, o = Some id).
Proof.
  induction b as [|o b [[k Hk]|IH]].
  - right. intros [|k] o H; discriminate.
  - left. exists (S k). exact Hk.
  - destruct o as [id|]; [|left; exists 0; reflexivity].
    right. intros [|k] o H; simpl in H; [injection H as <-; eauto|eauto].
Qed.
Lemma all_busy_len (b : list (option nat)) : (forall k o, nth_error b k = Some o -> exists id, o = Some id) -> length (ids_of b) = length b.
Proof.
  induction b as [|o b IH]; intros H; [reflexivity|].
  destruct (H 0 o eq_refl) as [id ->]. simpl. f_equal. apply IH. intros k o' Hk. exact (H (S k) o' Hk).
Qed.

Theorem no_deadlock s : Inv s -> 1 <= length (busy s) ->
  (todo s = [] /\ dispatch s = [] /\ ids_of (busy s) = [] /\ fusion s = []) \/ exists s', step s s'.
Proof.
  intros [I1 I2] Hw.
  destruct (fusion s) as [|id f] eqn:Ef; [|right; eexists; eapply write; eassumption].
  destruct (busy_cases (busy s)) as [[k Hk]|Hall].
  - (* an idle worker *)
    destruct (dispatch s) as [|id d] eqn:Ed; [|right; eexists; eapply take; eassumption].
    destruct (todo s) as [|[id c] t] eqn:Et.
    + destruct (ids_of (busy s)) as [|i l] eqn:Eb; [left; auto|].
      (* some worker is busy: it can finish *)
      assert (exists k' id', nth_error (busy s) k' = Some (Some id')) as [k' [id' Hk']].
      { clear -Eb. induction (busy s) as [|o b IH]; [discriminate|]. destruct o as [j|].
        - exists 0, j. reflexivity.
        - simpl in Eb. destruct (IH Eb) as [k' [id' H]]. exists (S k'), id'. exact H. }
      right. eexists. eapply done. eassumption.
    + right. destruct c.
      * eexists. eapply submit_comp; [eassumption|].
        unfold maxq. simpl in I1.
        assert (length (ids_of (busy s)) < length (busy s)).
        { clear -Hk. revert k Hk. induction (busy s) as [|o b IH]; intros [|k] Hk; simpl in *; try discriminate.
          - injection Hk as ->. simpl. clear IH. induction b as [|o b IHb]; simpl; [lia|]. destruct o; simpl; lia.
          - specialize (IH k Hk). destruct o; simpl; lia. }
        lia.
      * eexists. eapply submit_raw. eassumption.
  - (* every worker is busy: one of them can finish *)
    destruct (busy s) as [|o b] eqn:Eb; [simpl in Hw; lia|].
    destruct (Hall 0 o eq_refl) as [id ->]. right. eexists. eapply (done s 0 id). rewrite Eb. reflexivity.
Qed.

(* 4. termination: every step decreases this measure *)
Definition measure (s : st) := 4 * length (todo s) + 3 * length (dispatch s) + 2 * length (ids_of (busy s)) + length (fusion s).
Theorem step_decreases s s' : step s s' -> measure s' < measure s.
Proof.
  unfold measure. intros St. inversion St; subst; simpl.
  - rewrite H, app_length. simpl. lia.
  - rewrite H, app_length. simpl. lia.
  - rewrite H0, (ids_len_some _ _ id H). simpl. lia.
  - pose proof (ids_len_none _ _ id H). rewrite app_length. simpl. lia.
  - rewrite H. simpl. lia.
Qed.

(* every reachable state: invariants lifted along any execution *)
Inductive steps : st -> st -> Prop :=
| steps_refl s : steps s s
| steps_step s s' s'' : step s s' -> steps s' s'' -> steps s s''.

Theorem steps_perm s s' : steps s s' -> Permutation (all_ids s) (all_ids s').
Proof. induction 1 as [|s s' s'' St _ IH]; [reflexivity|]. now rewrite (step_perm _ _ St). Qed.
Theorem steps_inv s s' : Inv s -> steps s s' -> Inv s'.
Proof. intros I H. induction H as [|s s' s'' St _ IH]; [assumption|]. apply IH. now apply (step_inv s). Qed.

Definition initial (ids : list (nat * bool)) (w : nat) : st :=
  {| todo := ids; dispatch := []; busy := repeat None w; fusion := []; written := []; inq := 0 |}.
Definition final (s : st) := todo s = [] /\ dispatch s = [] /\ ids_of (busy s) = [] /\ fusion s = [].

Lemma ids_of_repeat_none w : ids_of (repeat None w) = [].
Proof. induction w; [reflexivity|]. exact IHw. Qed.
Lemma inv_initial ids w : Inv (initial ids w).
Proof. unfold Inv, initial, maxq. cbn. rewrite ids_of_repeat_none. cbn. lia. Qed.

(* Whatever the schedule: when nothing is left to do, every cluster id has been written exactly once. *)
Theorem final_written ids w s : steps (initial ids w) s -> final s -> Permutation (written s) (map fst ids).
Proof.
  intros H (F1 & F2 & F3 & F4). apply steps_perm in H. unfold all_ids, initial in H. cbn in H.
  rewrite ids_of_repeat_none, F1, F2, F3, F4 in H. cbn in H. rewrite app_nil_r in H. now symmetry.
Qed.

(* ---- certified recognizer for Progress event traces ---- *)
Inductive event := ENew (id : nat) (comp : bool) | EHandle (id : nat) (comp : bool) | EWritten (id : nat).

Fixpoint memb (x : nat) (l : list nat) : bool := match l with [] => false | y :: l => (x =? y) || memb x l end.
Lemma memb_spec x l : memb x l = true <-> In x l.
Proof.
  induction l as [|y l IH]; cbn [memb In]; [split; [discriminate|tauto]|].
  rewrite orb_true_iff, Nat.eqb_eq, IH. split; intros [H|H]; auto.
Qed.

(* opened: ids announced so far (must be 0,1,2,... in order); handled; written (no repeats, only handled ids) *)
Fixpoint scan (evs : list event) (opened handled written : list nat) : option (list nat * list nat) :=
  match evs with
  | [] => Some (opened, written)
  | ENew id _ :: evs => if id =? length opened then scan evs (opened ++ [id]) handled written else None
  | EHandle id _ :: evs =>
      if memb id opened && negb (memb id handled) then scan evs opened (id :: handled) written else None
  | EWritten id :: evs =>
      if memb id handled && negb (memb id written) then scan evs opened handled (id :: written) else None
  end.
(* [expected]: ids of the clusters that must be on disk (the non-empty ones) *)
Definition accepts (evs : list event) (expected : list nat) : bool :=
  match scan evs [] [] [] with
  | Some (opened, written) =>
      (length written =? length expected) && forallb (fun id => memb id written) expected
      && forallb (fun id => memb id opened) written
  | None => false
  end.

Lemma scan_nodup evs : forall o h w o' w', NoDup w -> scan evs o h w = Some (o', w') -> NoDup w'.
Proof.
  induction evs as [|e evs IH]; intros o h w o' w' N H; cbn [scan] in H.
  - injection H as _ <-. exact N.
  - destruct e as [id c|id c|id].
    + destruct (id =? length o); [|discriminate]. eapply IH; eassumption.
    + destruct (memb id o && negb (memb id h)); [|discriminate]. eapply IH; eassumption.
    + destruct (memb id h && negb (memb id w)) eqn:E; [|discriminate].
      apply andb_prop in E. destruct E as [_ E]. apply negb_true_iff in E.
      eapply IH; [|eassumption]. constructor; [|assumption]. intros I. apply memb_spec in I. congruence.
Qed.

(* An accepted trace wrote every expected cluster exactly once and nothing else. *)
Theorem accepts_written_once evs expected : NoDup expected -> accepts evs expected = true ->
  exists opened written, scan evs [] [] [] = Some (opened, written) /\ Permutation written expected.
Proof.
  intros ND. unfold accepts. destruct (scan evs [] [] []) as [[o w]|] eqn:S; [|discriminate].
  intros H. apply andb_prop in H. destruct H as [H H3]. apply andb_prop in H. destruct H as [H1 H2].
  exists o, w. split; [reflexivity|].
  apply Nat.eqb_eq in H1. rewrite forallb_forall in H2.
  symmetry. apply NoDup_Permutation_bis; [assumption|lia|].
  intros x Hx. apply memb_spec, H2, Hx.
Qed.
