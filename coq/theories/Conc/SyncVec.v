(* C07 — bases/io/compression.rs as a transition system: one decoder thread appends decoded bytes to
   a shared buffer cell by cell (a chunk write is NOT atomic) and publishes the decoded length under a
   mutex; any number of reader threads wait (under the same mutex) until the published length reaches
   the end of what they want or the decoder has failed, re-read the published length, and then read
   cells below it WITHOUT any lock.  Any interleaving = any path of [step].
   Second half: a recognizer for the event traces of real runs (hooks of /repo, cfg jubako_verif) and
   the proof that an accepted trace is a run of this transition system. *)
From Coq Require Import List Arith NArith Bool Lia.
Import ListNotations.

Fixpoint setnth {B} (k : nat) (x : B) (l : list B) : list B :=
  match l, k with [], _ => [] | _ :: l, O => x :: l | y :: l, S k => y :: setnth k x l end.
Lemma setnth_Forall {B} (P : B -> Prop) k x l : Forall P l -> P x -> Forall P (setnth k x l).
Proof. intros H Hx. revert k. induction H as [|y l Hy Hl IH]; intros [|k]; simpl; constructor; auto. Qed.
Lemma Forall_nth_error {B} (P : B -> Prop) l i x : Forall P l -> nth_error l i = Some x -> P x.
Proof. intros H. revert i. induction H; intros [|i] E; simpl in E; try discriminate; [congruence|eauto]. Qed.
Lemma setnth_length {B} k (x : B) l : length (setnth k x l) = length l.
Proof. revert k; induction l; intros [|k]; simpl; auto. Qed.
Lemma nth_error_setnth_same {B} k (x y : B) l : nth_error l k = Some y -> nth_error (setnth k x l) k = Some x.
Proof. revert k; induction l as [|z l IH]; intros [|k] H; simpl in *; try discriminate; auto. Qed.

Inductive rstate :=
| Idle
| Want (e : nat)              (* inside wait_for(e), mutex held, predicate not tested yet *)
| Sleeping (e : nat)          (* inside Condvar::wait_while, mutex released *)
| Passed (e : nat)            (* wait_for returned Ok *)
| Errored (e : nat)           (* wait_for returned Err: the decoder failed before e *)
| Sliced (e len : nat).       (* holds &buffer[..len]; reads any cell below len, no lock *)

Section SV.
Context {A : Type}.
Variable data : list A.                       (* what the decoder produces *)
Notation total := (length data).

Record st := { cells : list A;                (* cells written so far, in order *)
               pub : nat;                     (* Progress::decoded, protected by the mutex *)
               failed : bool;                 (* Progress::failed *)
               rds : list rstate }.

Definition wake_pub (n : nat) (r : rstate) : rstate :=
  match r with Sleeping e => if e <=? n then Passed e else r | _ => r end.
Definition wake_fail (r : rstate) : rstate :=
  match r with Sleeping e => Errored e | _ => r end.
Definition may_call (r : rstate) : bool :=
  match r with Idle | Passed _ | Errored _ | Sliced _ _ => true | _ => false end.

(* writer (decoder thread) steps *)
Inductive wstep : st -> st -> Prop :=
| W_cell s b : failed s = false -> nth_error data (length (cells s)) = Some b ->
    wstep s {| cells := cells s ++ [b]; pub := pub s; failed := false; rds := rds s |}
| W_publish s : failed s = false -> pub s < length (cells s) ->     (* lock; decoded = n; notify_all; unlock *)
    wstep s {| cells := cells s; pub := length (cells s); failed := false;
               rds := map (wake_pub (length (cells s))) (rds s) |}
| W_fail s : failed s = false -> pub s < total ->                   (* lock; failed = true; notify_all; unlock *)
    wstep s {| cells := cells s; pub := pub s; failed := true; rds := map wake_fail (rds s) |}.

(* reader steps *)
Inductive rstep : st -> st -> Prop :=
| R_call s i r e : nth_error (rds s) i = Some r -> may_call r = true -> e <= total ->
    rstep s {| cells := cells s; pub := pub s; failed := failed s; rds := setnth i (Want e) (rds s) |}
| R_check s i e : nth_error (rds s) i = Some (Want e) ->            (* lock; test the predicate; sleep atomically *)
    rstep s {| cells := cells s; pub := pub s; failed := failed s;
               rds := setnth i (if e <=? pub s then Passed e else if failed s then Errored e else Sleeping e) (rds s) |}
| R_slice s i e : nth_error (rds s) i = Some (Passed e) ->          (* current_size(): lock; read decoded *)
    rstep s {| cells := cells s; pub := pub s; failed := failed s; rds := setnth i (Sliced e (pub s)) (rds s) |}
| R_reslice s i e len : nth_error (rds s) i = Some (Sliced e len) ->
    rstep s {| cells := cells s; pub := pub s; failed := failed s; rds := setnth i (Sliced e (pub s)) (rds s) |}.

Definition step (s s' : st) : Prop := wstep s s' \/ rstep s s'.

Definition rinv (s : st) (r : rstate) : Prop :=
  match r with
  | Idle => True
  | Want e => e <= total
  | Sleeping e => e <= total /\ pub s < e /\ failed s = false
  | Passed e => e <= pub s
  | Errored e => failed s = true
  | Sliced e len => e <= len /\ len <= pub s
  end.

Record Inv (s : st) : Prop := {
  i_cells : cells s = firstn (length (cells s)) data;
  i_pub   : pub s <= length (cells s);
  i_len   : length (cells s) <= total;
  i_rds   : Forall (rinv s) (rds s) }.

Lemma firstn_snoc_nth (l : list A) n b : nth_error l n = Some b -> firstn (S n) l = firstn n l ++ [b].
Proof.
  revert n; induction l as [|x l IH]; intros [|n] H; simpl in *; try discriminate.
  - congruence.
  - f_equal. auto.
Qed.
Lemma nth_error_firstn_lt (l : list A) : forall n k, k < n -> nth_error (firstn n l) k = nth_error l k.
Proof. induction l as [|x l IH]; intros [|n] [|k] H; simpl; try reflexivity; try lia. apply IH. lia. Qed.

Lemma wstep_inv s s' : Inv s -> wstep s s' -> Inv s'.
Proof.
  intros [Hc Hp Hl Hr] St. inversion St as [s0 b Hf Hn|s0 Hf Hlt|s0 Hf Hlt]; subst; clear St.
  - constructor; cbn [cells pub failed rds].
    + rewrite app_length. cbn [length]. rewrite Nat.add_1_r. rewrite (firstn_snoc_nth _ _ _ Hn). now rewrite <- Hc.
    + rewrite app_length. lia.
    + rewrite app_length. cbn [length]. assert (length (cells s) < total) by (apply nth_error_Some; congruence). lia.
    + eapply Forall_impl; [|exact Hr]. intros r. destruct r; cbn [rinv pub failed]; auto; intros; try congruence; tauto.
  - constructor; cbn [cells pub failed rds]; try assumption; [lia|].
    apply Forall_forall. intros r Hin. apply in_map_iff in Hin. destruct Hin as [r0 [<- Hin0]].
    rewrite Forall_forall in Hr. specialize (Hr r0 Hin0).
    destruct r0; cbn [wake_pub rinv pub failed] in *; try assumption; try lia.
    + destruct (Nat.leb_spec e (length (cells s))); cbn [rinv pub failed]; lia.
    + congruence.
  - constructor; cbn [cells pub failed rds]; try assumption.
    apply Forall_forall. intros r Hin. apply in_map_iff in Hin. destruct Hin as [r0 [<- Hin0]].
    rewrite Forall_forall in Hr. specialize (Hr r0 Hin0).
    destruct r0; cbn [wake_fail rinv pub failed] in *; try assumption; try reflexivity.
Qed.

Lemma rstep_inv s s' : Inv s -> rstep s s' -> Inv s'.
Proof.
  intros [Hc Hp Hl Hr] St.
  inversion St as [s0 i r e Hn Hm He|s0 i e Hn|s0 i e Hn|s0 i e len Hn]; subst; clear St;
    (constructor; cbn [cells pub failed rds]; try assumption; apply setnth_Forall;
     [eapply Forall_impl; [|exact Hr]; intros r0; destruct r0; cbn [rinv pub failed]; auto|]).
  - exact He.
  - pose proof (Forall_nth_error _ _ _ _ Hr Hn) as R. cbn [rinv] in R.
    destruct (Nat.leb_spec e (pub s)); cbn [rinv pub failed]; [lia|].
    destruct (failed s) eqn:F; cbn [rinv pub failed]; [reflexivity|]. repeat split; lia || reflexivity.
  - pose proof (Forall_nth_error _ _ _ _ Hr Hn) as R. cbn [rinv] in R. cbn [rinv pub]. lia.
  - pose proof (Forall_nth_error _ _ _ _ Hr Hn) as R. cbn [rinv] in R. cbn [rinv pub]. lia.
Qed.

Lemma step_inv s s' : Inv s -> step s s' -> Inv s'.
Proof. intros I [W|R]; [eapply wstep_inv|eapply rstep_inv]; eauto. Qed.

Definition init (n : nat) : st := {| cells := []; pub := 0; failed := false; rds := repeat Idle n |}.
Inductive reach : st -> Prop :=
| reach0 n : reach (init n)
| reachS s s' : reach s -> step s s' -> reach s'.

Lemma init_inv n : Inv (init n).
Proof.
  constructor; cbn [init cells pub failed rds length]; try reflexivity; try lia.
  apply Forall_forall. intros r Hin. apply repeat_spec in Hin. subst. exact I.
Qed.
Lemma reach_inv s : reach s -> Inv s.
Proof. induction 1 as [n|s s' _ IH St]; [apply init_inv|eauto using step_inv]. Qed.

(* ---- safety, for every number of readers, every chunking and every interleaving ---- *)

(* whatever a reader reads through its slice is a finished cell holding exactly the stored byte:
   no torn, unwritten, out-of-range or foreign data *)
Theorem slice_exact s i e len k : reach s -> nth_error (rds s) i = Some (Sliced e len) -> k < len ->
  k < length (cells s) /\ nth_error (cells s) k = nth_error data k /\ nth_error data k <> None.
Proof.
  intros R H Hk. pose proof (reach_inv _ R) as [Hc Hp Hl Hr].
  pose proof (Forall_nth_error _ _ _ _ Hr H) as D. cbn [rinv] in D.
  assert (k < length (cells s)) by lia. split; [assumption|]. split.
  - rewrite Hc at 1. apply nth_error_firstn_lt. assumption.
  - apply nth_error_Some. lia.
Qed.

(* the range the reader waited for lies inside its slice: `assert!(end <= slice.len())` cannot fire,
   `&slice[o..end]` cannot panic *)
Theorem slice_covers_request s i e len : reach s -> nth_error (rds s) i = Some (Sliced e len) -> e <= len <= total.
Proof.
  intros R H. pose proof (reach_inv _ R) as [Hc Hp Hl Hr].
  pose proof (Forall_nth_error _ _ _ _ Hr H) as D. cbn [rinv] in D. lia.
Qed.

(* the writer only ever writes at an index no reader's slice contains: the unsynchronised accesses
   of writer and readers never touch the same cell *)
Theorem writer_disjoint_from_readers s b i e len :
  reach s -> nth_error data (length (cells s)) = Some b ->
  nth_error (rds s) i = Some (Sliced e len) -> len <= length (cells s).
Proof.
  intros R _ H. pose proof (reach_inv _ R) as [Hc Hp Hl Hr].
  pose proof (Forall_nth_error _ _ _ _ Hr H) as D. cbn [rinv] in D. lia.
Qed.

(* a successful wait really has its bytes; a failed wait really follows a decoder failure *)
Theorem passed_has_bytes s i e : reach s -> nth_error (rds s) i = Some (Passed e) -> e <= pub s <= length (cells s).
Proof.
  intros R H. pose proof (reach_inv _ R) as [Hc Hp Hl Hr].
  pose proof (Forall_nth_error _ _ _ _ Hr H) as D. cbn [rinv] in D. lia.
Qed.
Theorem errored_only_after_failure s i e : reach s -> nth_error (rds s) i = Some (Errored e) -> failed s = true.
Proof.
  intros R H. pose proof (reach_inv _ R) as [Hc Hp Hl Hr].
  exact (Forall_nth_error _ _ _ _ Hr H).
Qed.

(* no lost wake-up: a sleeping reader's predicate is false *)
Theorem sleeper_predicate_false s i e : reach s -> nth_error (rds s) i = Some (Sleeping e) ->
  pub s < e <= total /\ failed s = false.
Proof.
  intros R H. pose proof (reach_inv _ R) as [Hc Hp Hl Hr].
  pose proof (Forall_nth_error _ _ _ _ Hr H) as D. cbn [rinv] in D. repeat split; tauto || lia.
Qed.
Corollary no_sleeper_at_end s i e : reach s -> (pub s = total \/ failed s = true) ->
  nth_error (rds s) i <> Some (Sleeping e).
Proof.
  intros R E H. destruct (sleeper_predicate_false s i e R H) as [P F]. destruct E as [E|E]; [lia|congruence].
Qed.

(* ---- progress ---- *)

(* while somebody sleeps, the decoder thread has an enabled step: nobody waits for a thread that cannot move *)
Theorem sleeper_implies_writer_enabled s i e : reach s -> nth_error (rds s) i = Some (Sleeping e) ->
  exists s', wstep s s'.
Proof.
  intros R H. destruct (sleeper_predicate_false s i e R H) as [P F].
  eexists. apply W_fail; [exact F|lia].
Qed.
(* ... and it is not only failing that is enabled: as long as the stream has bytes left the decoder can
   write or publish, and each sleeper is woken by the publish that reaches its end *)
Theorem publish_wakes s i e : nth_error (rds s) i = Some (Sleeping e) -> e <= length (cells s) ->
  failed s = false -> pub s < length (cells s) ->
  exists s', wstep s s' /\ nth_error (rds s') i = Some (Passed e).
Proof.
  intros H He F P. eexists. split; [apply W_publish; assumption|]. cbn [rds].
  rewrite nth_error_map, H. cbn [option_map wake_pub]. apply Nat.leb_le in He. now rewrite He.
Qed.
Theorem fail_wakes s i e : nth_error (rds s) i = Some (Sleeping e) -> failed s = false -> pub s < total ->
  exists s', wstep s s' /\ nth_error (rds s') i = Some (Errored e).
Proof.
  intros H F P. eexists. split; [apply W_fail; assumption|]. cbn [rds].
  now rewrite nth_error_map, H.
Qed.

(* the decoder thread takes at most 2*total+1 steps whatever the schedule *)
Definition wmeasure (s : st) : nat :=
  2 * (total - length (cells s)) + (length (cells s) - pub s) + (if failed s then 0 else 1).
Theorem writer_terminates s s' : Inv s -> wstep s s' -> wmeasure s' < wmeasure s.
Proof.
  intros [Hc Hp Hl Hr] St. inversion St as [s0 b Hf Hn|s0 Hf Hlt|s0 Hf Hlt]; subst; clear St; unfold wmeasure; cbn [cells pub failed].
  - rewrite app_length. cbn [length]. assert (length (cells s) < total) by (apply nth_error_Some; congruence). rewrite Hf. lia.
  - rewrite Hf. lia.
  - rewrite Hf. lia.
Qed.
Theorem readers_do_not_delay_writer s s' : rstep s s' -> wmeasure s' = wmeasure s.
Proof. intros St. inversion St; subst; reflexivity. Qed.

(* a reader between two calls takes a bounded number of own steps; it only ever waits in Sleeping *)
Definition rmeasure (r : rstate) : nat :=
  match r with Want _ => 2 | Sleeping _ => 2 | Passed _ => 1 | _ => 0 end.
Theorem reader_enabled_unless_sleeping s i r : nth_error (rds s) i = Some r ->
  match r with Sleeping _ => True | _ => exists s', rstep s s' end.
Proof.
  intros H. destruct r; try exact I.
  - eexists. eapply (R_call s i Idle 0); [exact H|reflexivity|lia].
  - eexists. eapply R_check. exact H.
  - eexists. eapply R_slice. exact H.
  - eexists. eapply (R_call s i (Errored e) 0); [exact H|reflexivity|lia].
  - eexists. eapply R_reslice. exact H.
Qed.
End SV.

(* =====================  recognizer for event traces of real runs  ===================== *)
(* Events as emitted by the hooks in /repo/src/bases/io/compression.rs for ONE shared buffer.
   PUBLISH, FAIL, WAIT_END and SLICE are emitted while the mutex is held, so their order in the log
   is their real order; CHUNK is emitted by the decoder thread after the write, before it locks. *)
Inductive label :=
| LChunk (n : N)                          (* decoder: n cells written so far *)
| LPublish (n : N)                        (* decoder, locked: decoded := n *)
| LFail (n : N)                           (* decoder, locked: failed := true (decoded = n) *)
| LWaitBegin (t : nat) (e : N)            (* reader t enters wait_for(e) *)
| LWaitEnd (t : nat) (e dec : N) (f : bool)   (* reader t, locked: wait_for(e) returns seeing (dec, f) *)
| LSlice (t : nat) (len : N).             (* reader t, locked: current_size() = len *)

Inductive arstate := AIdle | AWant (e : N) | APassed (e : N) | AErrored (e : N) | ASliced (e len : N).
Record ast := { aw : N; ap : N; af : bool; ar : list arstate }.

Definition a_may_call (r : arstate) : bool := match r with AWant _ => false | _ => true end.

Definition exec (total : N) (a : ast) (l : label) : option ast :=
  match l with
  | LChunk n =>
      if negb (af a) && (aw a <=? n)%N && (n <=? total)%N
      then Some {| aw := n; ap := ap a; af := af a; ar := ar a |} else None
  | LPublish n =>
      if negb (af a) && (n =? aw a)%N && (ap a <? n)%N
      then Some {| aw := aw a; ap := n; af := af a; ar := ar a |} else None
  | LFail n =>
      if negb (af a) && (n =? ap a)%N && (ap a <? total)%N
      then Some {| aw := aw a; ap := ap a; af := true; ar := ar a |} else None
  | LWaitBegin t e =>
      match nth_error (ar a) t with
      | Some r => if a_may_call r && (e <=? total)%N
                  then Some {| aw := aw a; ap := ap a; af := af a; ar := setnth t (AWant e) (ar a) |} else None
      | None => None
      end
  | LWaitEnd t e dec f =>
      match nth_error (ar a) t with
      | Some (AWant e') =>
          if (e' =? e)%N && (dec =? ap a)%N && Bool.eqb f (af a) then
            if (e <=? ap a)%N then Some {| aw := aw a; ap := ap a; af := af a; ar := setnth t (APassed e) (ar a) |}
            else if af a then Some {| aw := aw a; ap := ap a; af := af a; ar := setnth t (AErrored e) (ar a) |}
            else None                              (* woke up although the predicate is false and nothing failed *)
          else None
      | _ => None
      end
  | LSlice t len =>
      match nth_error (ar a) t with
      | Some (APassed e) | Some (ASliced e _) =>
          if (len =? ap a)%N then Some {| aw := aw a; ap := ap a; af := af a; ar := setnth t (ASliced e len) (ar a) |} else None
      | _ => None
      end
  end.

Fixpoint execs (total : N) (a : ast) (ls : list label) : option ast :=
  match ls with
  | [] => Some a
  | l :: ls => match exec total a l with Some a' => execs total a' ls | None => None end
  end.
(* position of the first rejected event, for the report *)
Fixpoint sv_first_reject (total : N) (a : ast) (ls : list label) (k : N) : option N :=
  match ls with
  | [] => None
  | l :: ls => match exec total a l with Some a' => sv_first_reject total a' ls (k + 1)%N | None => Some k end
  end.

Definition ainit (n : nat) : ast := {| aw := 0; ap := 0; af := false; ar := repeat AIdle n |}.
(* every wait has returned, and every successful wait of e bytes was followed by slices of >= e *)
Definition quiescent (a : ast) : bool := forallb a_may_call (ar a).
Definition sv_accepts (total : N) (nreaders : nat) (ls : list label) : bool :=
  match execs total (ainit nreaders) ls with Some a => quiescent a | None => false end.

(* ---- an accepted trace is a run of the transition system ---- *)
Section Sound.
Context {A : Type}.
Variable data : list A.
Notation total := (length data).

Definition rrel (r : rstate) (x : arstate) : Prop :=
  match r, x with
  | Idle, AIdle => True
  | Want e, AWant e' => N.of_nat e = e'
  | Passed e, APassed e' => N.of_nat e = e'
  | Errored e, AErrored e' => N.of_nat e = e'
  | Sliced e len, ASliced e' len' => N.of_nat e = e' /\ N.of_nat len = len'
  | _, _ => False
  end.
Record Rel (s : st (A:=A)) (a : ast) : Prop := {
  r_w : N.of_nat (length (cells s)) = aw a;
  r_p : N.of_nat (pub s) = ap a;
  r_f : failed s = af a;
  r_r : Forall2 rrel (rds s) (ar a) }.

Inductive steps : st (A:=A) -> st (A:=A) -> Prop :=
| steps0 s : steps s s
| stepsS s s' s'' : steps s s' -> step data s' s'' -> steps s s''.
Lemma steps_trans s s' s'' : steps s s' -> steps s' s'' -> steps s s''.
Proof. intros H1 H2. induction H2 as [|s1 s2 s3 H IH St]; [assumption|]. eapply stepsS; [apply IH; exact H1|exact St]. Qed.
Lemma steps_reach s s' : reach data s -> steps s s' -> reach data s'.
Proof. intros R H. induction H as [|s1 s2 s3 H IH St]; [assumption|]. eapply reachS; [apply IH; exact R|exact St]. Qed.
Lemma steps_inv s s' : Inv data s -> steps s s' -> Inv data s'.
Proof. intros I H. induction H as [|s1 s2 s3 H IH St]; [assumption|]. eapply step_inv; [apply IH; exact I|exact St]. Qed.

Lemma Forall2_nth_error {X Y} (P : X -> Y -> Prop) l l' i y :
  Forall2 P l l' -> nth_error l' i = Some y -> exists x, nth_error l i = Some x /\ P x y.
Proof.
  intros F. revert i. induction F as [|x0 y0 l l' H F IH]; intros [|i] E; cbn in E; try discriminate.
  - injection E as <-. exists x0. split; [reflexivity|assumption].
  - apply IH. exact E.
Qed.
Lemma Forall2_setnth {X Y} (P : X -> Y -> Prop) l l' i x y :
  Forall2 P l l' -> P x y -> Forall2 P (setnth i x l) (setnth i y l').
Proof.
  intros F H. revert i. induction F as [|x0 y0 l l' H0 F IH]; intros [|i]; cbn; constructor; auto.
Qed.

(* writing cells up to n *)
Lemma write_cells (s : st) n : Inv data s -> failed s = false -> length (cells s) <= n <= total ->
  exists s', steps s s' /\ length (cells s') = n /\ pub s' = pub s /\ failed s' = false /\ rds s' = rds s.
Proof.
  intros I F H. remember (n - length (cells s)) as d eqn:D. revert s I F H D.
  induction d as [|d IH]; intros s I F H D.
  - exists s. split; [constructor|]. repeat split; try assumption. lia.
  - destruct (nth_error data (length (cells s))) as [b|] eqn:E.
    2:{ apply nth_error_None in E. lia. }
    set (s1 := {| cells := cells s ++ [b]; pub := pub s; failed := false; rds := rds s |}).
    assert (W : wstep data s s1) by (apply W_cell; assumption).
    assert (I1 : Inv data s1) by (eapply wstep_inv; eauto).
    destruct (IH s1 I1 eq_refl) as (s' & St & L & P & F' & Rd).
    + subst s1. cbn [cells]. rewrite app_length. cbn [length]. lia.
    + subst s1. cbn [cells]. rewrite app_length. cbn [length]. lia.
    + exists s'. split; [|repeat split; assumption].
      eapply steps_trans; [|exact St]. econstructor; [constructor|]. left. exact W.
Qed.

Lemma map_id_on {X} (f : X -> X) l : Forall (fun x => f x = x) l -> map f l = l.
Proof. induction 1 as [|x l H F IH]; cbn; [reflexivity|]. now rewrite H, IH. Qed.

(* the abstract states never contain a sleeper, so publish / fail wake nobody up *)
Lemma rel_no_sleeper s a : Rel s a -> Forall (fun r => match r with Sleeping _ => False | _ => True end) (rds s).
Proof.
  intros [_ _ _ F]. induction F as [|r x l l' H F IH]; constructor; [|assumption].
  destruct r; try exact I. destruct x; exact H.
Qed.

Theorem exec_sound s a l a' :
  Inv data s -> Rel s a -> exec (N.of_nat total) a l = Some a' ->
  exists s', steps s s' /\ Rel s' a'.
Proof.
  intros I R E. pose proof R as [Rw Rp Rf Rr]. destruct l as [n|n|n|t e|t e dec f|t len]; cbn [exec] in E.
  - (* chunk *)
    destruct (negb (af a)) eqn:F; [|discriminate]. destruct (N.leb_spec (aw a) n) as [L1|]; [|discriminate].
    destruct (N.leb_spec n (N.of_nat total)) as [L2|]; [|discriminate]. cbn [andb] in E. injection E as <-.
    apply negb_true_iff in F.
    destruct (write_cells s (N.to_nat n) I) as (s' & St & L & P & F' & Rd); [congruence|lia|].
    exists s'. split; [exact St|]. constructor; cbn [aw ap af ar]; try congruence; try lia.
  - (* publish *)
    destruct (negb (af a)) eqn:F; [|discriminate]. destruct (N.eqb_spec n (aw a)) as [->|]; [|discriminate].
    destruct (N.ltb_spec (ap a) (aw a)) as [L|]; [|discriminate]. cbn [andb] in E. injection E as <-.
    apply negb_true_iff in F.
    eexists. split; [econstructor; [constructor|]; left; apply W_publish; [congruence|lia]|].
    constructor; cbn [cells pub failed rds aw ap af ar]; try congruence.
    rewrite map_id_on; [exact Rr|]. eapply Forall_impl; [|exact (rel_no_sleeper s a R)].
    intros r. destruct r; cbn [wake_pub]; tauto.
  - (* fail *)
    destruct (negb (af a)) eqn:F; [|discriminate]. destruct (N.eqb_spec n (ap a)) as [->|]; [|discriminate].
    destruct (N.ltb_spec (ap a) (N.of_nat total)) as [L|]; [|discriminate]. cbn [andb] in E. injection E as <-.
    apply negb_true_iff in F.
    eexists. split; [econstructor; [constructor|]; left; apply W_fail; [congruence|lia]|].
    constructor; cbn [cells pub failed rds aw ap af ar]; try congruence.
    rewrite map_id_on; [exact Rr|]. eapply Forall_impl; [|exact (rel_no_sleeper s a R)].
    intros r. destruct r; cbn [wake_fail]; tauto.
  - (* wait begin *)
    destruct (nth_error (ar a) t) as [x|] eqn:Hn; [|discriminate].
    destruct (a_may_call x) eqn:M; [|discriminate]. destruct (N.leb_spec e (N.of_nat total)) as [L|]; [|discriminate].
    cbn [andb] in E. injection E as <-.
    destruct (Forall2_nth_error _ _ _ _ _ Rr Hn) as (r & Hr & Hx).
    eexists. split; [econstructor; [constructor|]; right; apply (R_call data s t r (N.to_nat e)); [exact Hr| |lia]|].
    + destruct r, x; cbn in Hx, M |- *; try reflexivity; try contradiction; discriminate.
    + constructor; cbn [cells pub failed rds aw ap af ar]; try assumption.
      apply Forall2_setnth; [exact Rr|]. cbn [rrel]. lia.
  - (* wait end *)
    destruct (nth_error (ar a) t) as [[|e'| | |]|] eqn:Hn; try discriminate.
    destruct (N.eqb_spec e' e) as [->|]; [|discriminate]. destruct (N.eqb_spec dec (ap a)) as [->|]; [|discriminate].
    destruct (Bool.eqb f (af a)) eqn:Ef; [|discriminate]. cbn [andb] in E.
    destruct (Forall2_nth_error _ _ _ _ _ Rr Hn) as (r & Hr & Hx).
    destruct r; cbn [rrel] in Hx; try contradiction. subst e.
    destruct (N.leb_spec (N.of_nat e0) (ap a)) as [L|L].
    + injection E as <-. eexists. split; [econstructor; [constructor|]; right; apply R_check; exact Hr|].
      constructor; cbn [cells pub failed rds aw ap af ar]; try assumption.
      replace (e0 <=? pub s) with true by (symmetry; apply Nat.leb_le; lia).
      apply Forall2_setnth; [exact Rr|]. reflexivity.
    + destruct (af a) eqn:Fa; [|discriminate]. injection E as <-.
      eexists. split; [econstructor; [constructor|]; right; apply R_check; exact Hr|].
      constructor; cbn [cells pub failed rds aw ap af ar]; try assumption.
      replace (e0 <=? pub s) with false by (symmetry; apply Nat.leb_gt; lia). rewrite Rf.
      apply Forall2_setnth; [exact Rr|]. reflexivity.
  - (* slice *)
    destruct (nth_error (ar a) t) as [x|] eqn:Hn; [|discriminate].
    destruct (Forall2_nth_error _ _ _ _ _ Rr Hn) as (r & Hr & Hx).
    destruct x as [|e|e|e|e len0]; try discriminate; (destruct (N.eqb_spec len (ap a)) as [->|]; [|discriminate]); injection E as <-;
      destruct r; cbn [rrel] in Hx; try contradiction.
    + eexists. split; [econstructor; [constructor|]; right; apply R_slice; exact Hr|].
      constructor; cbn [cells pub failed rds aw ap af ar]; try assumption.
      apply Forall2_setnth; [exact Rr|]. cbn [rrel]. split; [exact Hx|exact Rp].
    + eexists. split; [econstructor; [constructor|]; right; eapply R_reslice; exact Hr|].
      constructor; cbn [cells pub failed rds aw ap af ar]; try assumption.
      apply Forall2_setnth; [exact Rr|]. cbn [rrel]. split; [tauto|exact Rp].
Qed.

Lemma init_rel n : Rel (init n) (ainit n).
Proof.
  constructor; cbn; try reflexivity. induction n; cbn; constructor; [exact I|assumption].
Qed.

Theorem execs_sound ls : forall s a a', Inv data s -> Rel s a -> execs (N.of_nat total) a ls = Some a' ->
  exists s', steps s s' /\ Rel s' a'.
Proof.
  induction ls as [|l ls IH]; intros s a a' I R E; cbn [execs] in E.
  - injection E as <-. exists s. split; [constructor|assumption].
  - destruct (exec (N.of_nat total) a l) as [a1|] eqn:E1; [|discriminate].
    destruct (exec_sound s a l a1 I R E1) as (s1 & St1 & R1).
    destruct (IH s1 a1 a' (steps_inv _ _ I St1) R1 E) as (s' & St & R').
    exists s'. split; [eapply steps_trans; eauto|assumption].
Qed.

(* an accepted trace is a run of the transition system from its initial state *)
Theorem accepted_trace_is_a_run n ls a :
  execs (N.of_nat total) (ainit n) ls = Some a -> exists s, reach data s /\ Rel s a.
Proof.
  intros E. destruct (execs_sound ls (init n) (ainit n) a (init_inv data n) (init_rel n) E) as (s & St & R).
  exists s. split; [|assumption]. eapply steps_reach; [constructor|exact St].
Qed.

(* hence, in an accepted trace, every slice a reader took covers what it waited for and lies below
   what was written at that moment *)
Corollary accepted_slices_safe n ls a t e len :
  execs (N.of_nat total) (ainit n) ls = Some a -> nth_error (ar a) t = Some (ASliced e len) ->
  (e <= len)%N /\ (len <= aw a)%N /\ (aw a <= N.of_nat total)%N.
Proof.
  intros E H. destruct (accepted_trace_is_a_run n ls a E) as (s & R & [Rw Rp Rf Rr]).
  destruct (Forall2_nth_error _ _ _ _ _ Rr H) as (r & Hr & Hx).
  destruct r; cbn [rrel] in Hx; try contradiction. destruct Hx as [<- <-].
  pose proof (slice_covers_request data s t e0 len0 R Hr).
  pose proof (reach_inv data s R) as [Hc Hp Hl Hrd].
  pose proof (Forall_nth_error _ _ _ _ Hrd Hr) as D. cbn [rinv] in D. lia.
Qed.
End Sound.

(* non-vacuity: a small interleaving with a reader that sleeps, one that fails, one that reads *)
Example trace_accepted :
  sv_accepts 8 2 [LWaitBegin 0 6; LChunk 4; LPublish 4; LWaitBegin 1 3; LWaitEnd 1 3 4 false; LSlice 1 4;
               LChunk 8; LPublish 8; LWaitEnd 0 6 8 false; LSlice 0 8; LSlice 0 8] = true.
Proof. reflexivity. Qed.
Example trace_rejected_slice_before_publish :
  sv_accepts 8 1 [LChunk 4; LWaitBegin 0 3; LWaitEnd 0 3 4 false; LSlice 0 4] = false.
Proof. reflexivity. Qed.
Example trace_accepted_failure :
  sv_accepts 8 1 [LWaitBegin 0 6; LChunk 4; LPublish 4; LChunk 4; LFail 4; LWaitEnd 0 6 4 true] = true.
Proof. reflexivity. Qed.
