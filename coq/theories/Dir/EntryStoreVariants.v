(* C02 at entry-store level, for schemas WITH variants: composition of Variants.v (delimiting of the
   descriptors) with EntryStore.v (fields of an entry).
     descriptors = common properties, then for every variant: VariantId descriptor :: its properties
     entry       = common fields ++ [variant id] ++ fields of that variant   (every variant padded to one size)
   The reader parses the descriptors to a layout whose variant-id byte lies right after the common
   part, and EVERY entry of the data block reads back with its variant id, its common values and the
   values of its own variant — nothing of another variant. *)
From Coq Require Import List Arith NArith ZArith Bool Lia ZifyN ZifyBool ZifyNat.
From Jbk Require Import Base.ListExtra Base.Bytes Base.Parser Base.Utf8 Format.Structs Content.Pack
  Dir.Layout Dir.Descr Dir.Values Dir.Variants Dir.EntryStore.
Import ListNotations.
Open Scope N_scope.

Definition raws (shape : list wprop) : list rawprop := map raw_of shape.

Record vrow := { vr_vid : nat; vr_common : list wfield; vr_var : list wfield }.
Definition ser_vrow (r : vrow) : list N :=
  concat (map ser_field (vr_common r)) ++ [N.of_nat (vr_vid r)] ++ concat (map ser_field (vr_var r)).

(* the layout the reader builds: variant-id byte at [csize], every variant placed from [csize + 1] *)
Definition variant_layout (count : N) (common : list wprop) (vshapes : list (list N * list wprop)) (vsize : nat) : layout :=
  let csize := psize (raws common) in
  {| l_count := count; l_checked := false; l_entry_size := csize + 1 + vsize;
     l_common := place 0 (raws common);
     l_variants := Some (csize, map (fun v => (fst v, place (csize + 1) (raws (snd v)))) vshapes) |}.

Definition vrow_has_shape (store : N -> res vstore) (common : list wprop) (vshapes : list (list N * list wprop)) (vsize : nat) (r : vrow) : Prop :=
  map wprop_of (vr_common r) = common /\ Forall (wf_field store) (vr_common r) /\
  (exists name, nth_error vshapes (vr_vid r) = Some (name, map wprop_of (vr_var r))) /\
  Forall (wf_field store) (vr_var r) /\ psize (raws (map wprop_of (vr_var r))) = vsize.

Lemma ser_vrow_length store common vshapes vsize r : vrow_has_shape store common vshapes vsize r ->
  length (ser_vrow r) = (psize (raws common) + 1 + vsize)%nat.
Proof.
  intros (Sc & Wc & _ & Wv & Sv). unfold ser_vrow. rewrite !app_length. cbn [length].
  rewrite <- (psize_fields store _ Wc), <- (psize_fields store _ Wv). unfold raws in *. rewrite Sc, Sv. lia.
Qed.

Section Entry.
Variable store : N -> res vstore.

(* one entry: its variant id, its common values, the values of ITS variant *)
Theorem variant_entry_roundtrip count common vshapes vsize r :
  vrow_has_shape store common vshapes vsize r ->
  read_entry store (variant_layout count common vshapes vsize) (ser_vrow r) =
    (Some (N.of_nat (vr_vid r)), shown (vr_common r) ++ shown (vr_var r)).
Proof.
  intros (Sc & Wc & (name & Hv) & Wv & Sv).
  unfold read_entry, variant_layout. cbn [l_variants l_common].
  set (C := concat (map ser_field (vr_common r))). set (V := concat (map ser_field (vr_var r))).
  assert (LC : psize (raws common) = length C).
  { unfold raws. rewrite <- Sc. apply (psize_fields store). exact Wc. }
  (* the variant-id byte *)
  assert (Evid : le_val (sub (psize (raws common)) 1 (ser_vrow r)) = N.of_nat (vr_vid r)).
  { unfold ser_vrow. fold C V. rewrite LC. change 1%nat with (length [N.of_nat (vr_vid r)]).
    rewrite sub_concat. cbn [le_val]. lia. }
  rewrite Evid. f_equal. f_equal.
  - (* common part *)
    pose proof (fields_roundtrip store (vr_common r) [] ([N.of_nat (vr_vid r)] ++ V) Wc) as R.
    cbn [app length] in R. fold C in R. unfold ser_vrow. fold C V.
    unfold raws. rewrite <- Sc, map_map. exact R.
  - (* the entry's own variant *)
    rewrite Nat2N.id, nth_error_map, Hv. cbn [option_map fst snd].
    pose proof (fields_roundtrip store (vr_var r) (C ++ [N.of_nat (vr_vid r)]) [] Wv) as R.
    fold V in R. rewrite app_nil_r in R. rewrite app_length in R. cbn [length] in R. rewrite <- LC in R.
    unfold ser_vrow. fold C V. rewrite <- app_assoc in R.
    unfold raws. rewrite map_map. exact R.
Qed.

(* EVERY entry of a store written with a schema with variants reads back *)
Theorem variant_entry_store_roundtrip common vshapes vsize (rows : list vrow) j r :
  Forall (vrow_has_shape store common vshapes vsize) rows -> nth_error rows j = Some r ->
  let ly := variant_layout (N.of_nat (length rows)) common vshapes vsize in
  let data := concat (map ser_vrow rows) in
  exists e, entry_bytes ly data (N.of_nat j) = Some e /\
            read_entry store ly e = (Some (N.of_nat (vr_vid r)), shown (vr_common r) ++ shown (vr_var r)).
Proof.
  intros Hs Hj ly data.
  assert (Hr : vrow_has_shape store common vshapes vsize r).
  { rewrite Forall_forall in Hs. apply Hs. eapply nth_error_In; exact Hj. }
  assert (Lj : (j < length rows)%nat) by (apply nth_error_Some; congruence).
  assert (Hw : forall x, In x rows -> length (ser_vrow x) = l_entry_size ly).
  { intros x Hx. rewrite Forall_forall in Hs. exact (ser_vrow_length store _ _ _ _ (Hs x Hx)). }
  destruct (sub_concat_fixed ser_vrow (l_entry_size ly) rows Hw j r Hj) as (pre & post & E & Lp).
  exists (ser_vrow r). split.
  - unfold entry_bytes. cbn [l_count ly variant_layout].
    replace (N.of_nat (length rows) <=? N.of_nat j) with false by (symmetry; apply N.leb_gt; lia).
    f_equal. rewrite Nat2N.id. fold ly. unfold data. rewrite E, <- Lp.
    rewrite <- (Hw r (nth_error_In _ _ Hj)). apply sub_concat.
  - apply variant_entry_roundtrip. exact Hr.
Qed.
End Entry.

(* ---- the descriptors ---- *)
Definition variant_descrs (vshapes : list (list N * list wprop)) : list wprop :=
  flat_map (fun v => WVariantId (fst v) :: snd v) vshapes.
Definition no_vid (shape : list wprop) : Prop :=
  Forall (fun w => match w with WVariantId _ => False | _ => True end) shape.

Definition ser_variant_tail (count : N) (esize : nat) (common : list wprop) (vshapes : list (list N * list wprop)) : list N :=
  let descrs := common ++ variant_descrs vshapes in
  [0] ++ le_enc 4 count ++ [0] ++ le_enc 2 (N.of_nat esize) ++ [N.of_nat (length vshapes)] ++ [N.of_nat (length descrs)] ++
  flat_map ser_wprop descrs.

Lemma raws_variant_descrs vshapes :
  raws (variant_descrs vshapes) = ser_variants (map (fun v => (fst v, raws (snd v))) vshapes).
Proof.
  induction vshapes as [|[n sh] vs IH]; [reflexivity|].
  unfold variant_descrs, ser_variants, raws in *. cbn [flat_map map fst snd]. rewrite map_app, IH. reflexivity.
Qed.

Lemma no_vid_raws shape : no_vid shape -> Forall (fun p => is_variant_id p = false) (raws shape).
Proof.
  induction 1 as [|w shape Hw Hs IH]; [constructor|]. cbn [raws map]. constructor; [|exact IH].
  destruct w; try contradiction; reflexivity.
Qed.

Lemma split_common_variants common vshapes : no_vid common -> vshapes <> [] ->
  split_common (raws (common ++ variant_descrs vshapes)) = (raws common, raws (variant_descrs vshapes)).
Proof.
  intros Hc Hv. induction Hc as [|w common Hw Hs IH].
  - cbn [app]. destruct vshapes as [|[n sh] vs]; [contradiction|]. reflexivity.
  - cbn [app raws map split_common]. fold (raws (common ++ variant_descrs vshapes)).
    destruct w; try contradiction; cbn [raw_of is_variant_id rp_kind]; rewrite IH; reflexivity.
Qed.

Theorem variant_layout_parsed count common vshapes vsize r :
  count < 2 ^ 32 -> vshapes <> [] -> (length vshapes <= 255)%nat ->
  (length (common ++ variant_descrs vshapes) <= 255)%nat ->
  N.of_nat (psize (raws common) + 1 + vsize) < 65536 ->
  Forall wf_wprop (common ++ variant_descrs vshapes) -> no_vid common ->
  Forall (fun v => no_vid (snd v) /\ psize (raws (snd v)) = vsize) vshapes ->
  p_layout (ser_variant_tail count (psize (raws common) + 1 + vsize) common vshapes ++ r) =
    Ok (variant_layout count common vshapes vsize, r).
Proof.
  intros Hc Hne Hvn Hn He Hw Hcv Hvs. unfold p_layout, p_layout_with, ser_variant_tail. rewrite <- !app_assoc. cbn [app].
  rewrite p_u_1 by lia. cbn [bind N.eqb negb].
  rewrite p_u_enc by exact Hc. cbn [bind app].
  rewrite p_u_1 by lia. cbn [bind].
  rewrite p_u_enc by (change (256 ^ N.of_nat 2) with 65536; exact He). cbn [bind app].
  rewrite p_u_1 by lia. cbn [bind].
  rewrite p_u_1 by lia. cbn [bind].
  rewrite Nat2N.id, (p_many_rawprops _ r Hw). cbn [bind].
  unfold build_layout. fold (raws (common ++ variant_descrs vshapes)).
  rewrite (split_common_variants common vshapes Hcv Hne).
  replace (N.of_nat (length vshapes) =? 0) with false.
  2:{ symmetry. apply N.eqb_neq. destruct vshapes; [contradiction|cbn [length]; lia]. }
  rewrite Nat2N.id.
  replace (psize (raws common) + 1 + vsize <? psize (raws common) + 1)%nat with false by (symmetry; apply Nat.ltb_ge; lia).
  replace (psize (raws common) + 1 + vsize - (psize (raws common) + 1))%nat with vsize by lia.
  rewrite raws_variant_descrs, split_variants_roundtrip.
  2:{ rewrite Forall_map. eapply Forall_impl; [|exact Hvs]. intros [n sh] [Hnv Hsz]. split; cbn [fst snd]; [apply no_vid_raws; exact Hnv|exact Hsz]. }
  cbn [bind]. rewrite map_length, N.eqb_refl. cbn [negb].
  unfold variant_layout. rewrite map_map. reflexivity.
Qed.
Close Scope N_scope.

(* non-vacuity: one common column, two variants of different shapes padded to 3 bytes *)
Open Scope N_scope.
Definition ex_common : list wprop := [WUInt 1 None [97]].
Definition ex_vshapes : list (list N * list wprop) :=
  [([120], [WUInt 2 None [98]; WPadding 1]); ([121], [WSInt 1 None [99]; WContent 1 1 None [100]])].
Definition ex_vrows : list vrow :=
  [{| vr_vid := 1; vr_common := [FUInt 1 [97] 9]; vr_var := [FSInt 1 [99] (-2)%Z; FContent 1 1 [100] 1 7] |};
   {| vr_vid := 0; vr_common := [FUInt 1 [97] 200]; vr_var := [FUInt 2 [98] 513; FPad 1] |}].
Example ex_vrows_have_the_shape store : Forall (vrow_has_shape store ex_common ex_vshapes 3) ex_vrows.
Proof.
  repeat constructor; cbn; try lia; try (unfold fits_signed; cbn; lia); try (eexists; reflexivity).
Qed.
Example ex_variant_layout_parses :
  p_layout (ser_variant_tail 2 5 ex_common ex_vshapes) = Ok (variant_layout 2 ex_common ex_vshapes 3, []).
Proof. vm_compute. reflexivity. Qed.
Example ex_variant_entries_read_back store :
  (exists e, entry_bytes (variant_layout 2 ex_common ex_vshapes 3) (concat (map ser_vrow ex_vrows)) 0 = Some e /\
             read_entry store (variant_layout 2 ex_common ex_vshapes 3) e =
               (Some 1, [([97], Ok (VUnsigned 9)); ([99], Ok (VSigned (-2))); ([100], Ok (VContent 1 7))])) /\
  (exists e, entry_bytes (variant_layout 2 ex_common ex_vshapes 3) (concat (map ser_vrow ex_vrows)) 1 = Some e /\
             read_entry store (variant_layout 2 ex_common ex_vshapes 3) e =
               (Some 0, [([97], Ok (VUnsigned 200)); ([98], Ok (VUnsigned 513))])).
Proof.
  split.
  - exact (variant_entry_store_roundtrip store ex_common ex_vshapes 3 ex_vrows 0 _ (ex_vrows_have_the_shape store) eq_refl).
  - exact (variant_entry_store_roundtrip store ex_common ex_vshapes 3 ex_vrows 1 _ (ex_vrows_have_the_shape store) eq_refl).
Qed.
Close Scope N_scope.
