(* C03 — orders: the creator's comparison of array values (creator/directory_pack/value.rs:
   inline prefix, then value-store id, then length) equals the lexicographic order on the full byte
   strings for both store kinds; the reader's Array::cmp (reader/…/raw_value.rs) is the
   lexicographic comparison of the resolved bytes with the probe.  Bytes are [nat] here (only their
   order matters). *)
From Coq Require Import List Arith Lia Sorted.
Import ListNotations.


Fixpoint lex (a b : list nat) : comparison :=
  match a, b with
  | [], [] => Eq
  | [], _ :: _ => Lt
  | _ :: _, [] => Gt
  | x :: a, y :: b => match Nat.compare x y with Eq => lex a b | c => c end
  end.

Lemma lex_eq a : forall b, lex a b = Eq <-> a = b.
Proof.
  induction a as [|x a IH]; intros [|y b]; simpl; try (split; congruence).
  destruct (Nat.compare_spec x y); try (split; [discriminate | intros E; injection E; lia]).
  subst. rewrite IH. split; congruence.
Qed.
Lemma lex_antisym a : forall b, lex b a = CompOpp (lex a b).
Proof.
  induction a as [|x a IH]; intros [|y b]; simpl; try reflexivity.
  rewrite (Nat.compare_antisym x y). destruct (Nat.compare x y); simpl; auto.
Qed.

(* comparing inline prefixes decides the full comparison when they differ *)
Lemma lex_firstn_lt F : forall a b, lex (firstn F a) (firstn F b) = Lt -> lex a b = Lt.
Proof.
  induction F as [|F IH]; intros a b H; [simpl in H; discriminate|].
  destruct a as [|x a], b as [|y b]; simpl in *; try congruence.
  destruct (Nat.compare x y); try congruence. auto.
Qed.
Lemma lex_firstn_gt F a b : lex (firstn F a) (firstn F b) = Gt -> lex a b = Gt.
Proof.
  intros H. rewrite lex_antisym in H. rewrite lex_antisym.
  destruct (lex (firstn F b) (firstn F a)) eqn:E; try discriminate.
  apply lex_firstn_lt in E. now rewrite E.
Qed.
(* equal prefixes: compare the rest *)
Lemma lex_firstn_eq F : forall a b, firstn F a = firstn F b -> lex a b = lex (skipn F a) (skipn F b).
Proof.
  induction F as [|F IH]; intros a b H; [reflexivity|].
  destruct a as [|x a], b as [|y b]; simpl in *; try congruence.
  injection H as -> H. rewrite Nat.compare_refl. auto.
Qed.

Section Writer.
Variable F : nat.                        (* inline prefix length of the property *)
Variable S : list nat -> Prop.           (* values present in the (finalized) store *)
Variable id : list nat -> nat.           (* id assigned by the store *)
Hypothesis id_mono   : forall u v, S u -> S v -> lex u v = Lt -> id u <= id v.
Hypothesis id_tie    : forall u v, S u -> S v -> lex u v = Lt -> id u = id v -> u = [].

(* creator/directory_pack/value.rs: (prefix bytes, value id, length) *)
Definition writer_cmp (fx fy : list nat) : comparison :=
  match lex (firstn F fx) (firstn F fy) with
  | Eq => match Nat.compare (id (skipn F fx)) (id (skipn F fy)) with
          | Eq => Nat.compare (length fx) (length fy)
          | c => c end
  | c => c end.

Lemma skipn_nil_length (l : list nat) : skipn F l = [] -> length l = length (firstn F l).
Proof. intros H. rewrite <- (firstn_skipn F l) at 1. rewrite H, app_nil_r. reflexivity. Qed.

Lemma tail_cmp fx fy : S (skipn F fx) -> S (skipn F fy) -> firstn F fx = firstn F fy ->
  lex (skipn F fx) (skipn F fy) = Lt ->
  match Nat.compare (id (skipn F fx)) (id (skipn F fy)) with
  | Eq => Nat.compare (length fx) (length fy) | c => c end = Lt.
Proof.
  intros Sx Sy Hp Hl.
  pose proof (id_mono _ _ Sx Sy Hl) as Hm.
  destruct (Nat.compare_spec (id (skipn F fx)) (id (skipn F fy))) as [E|E|E]; [|reflexivity|lia].
  pose proof (id_tie _ _ Sx Sy Hl E) as Hnil.
  apply Nat.compare_lt_iff.
  rewrite (skipn_nil_length fx Hnil), Hp.
  rewrite <- (firstn_skipn F fy) at 2. rewrite app_length.
  destruct (skipn F fy) eqn:Ey; [rewrite Hnil in Hl; simpl in Hl; discriminate|]. simpl. lia.
Qed.

Theorem writer_cmp_is_lex fx fy : S (skipn F fx) -> S (skipn F fy) -> writer_cmp fx fy = lex fx fy.
Proof.
  intros Sx Sy. unfold writer_cmp.
  destruct (lex (firstn F fx) (firstn F fy)) eqn:E.
  - apply lex_eq in E. rewrite (lex_firstn_eq F fx fy E).
    destruct (lex (skipn F fx) (skipn F fy)) eqn:El.
    + apply lex_eq in El. rewrite El, Nat.compare_refl.
      apply Nat.compare_eq_iff. rewrite <- (firstn_skipn F fx), <- (firstn_skipn F fy). now rewrite E, El.
    + now apply tail_cmp.
    + rewrite lex_antisym in El. destruct (lex (skipn F fy) (skipn F fx)) eqn:El'; try discriminate.
      pose proof (tail_cmp fy fx Sy Sx (eq_sym E) El') as T.
      rewrite Nat.compare_antisym, (Nat.compare_antisym (length fx)) in T.
      destruct (Nat.compare (id (skipn F fx)) (id (skipn F fy))); simpl in T; try congruence.
      destruct (Nat.compare (length fx) (length fy)); simpl in T; congruence.
  - symmetry. now apply (lex_firstn_lt F).
  - symmetry. now apply (lex_firstn_gt F).
Qed.
End Writer.


Definition ltb (a b : list nat) := lex a b = Lt.
Definition beq (a b : list nat) : bool := match lex a b with Eq => true | _ => false end.
Lemma beq_true a b : beq a b = true <-> a = b.
Proof. unfold beq. destruct (lex a b) eqn:E; rewrite <- lex_eq; rewrite E; split; congruence. Qed.

(* plain store (creator/directory_pack/value_store.rs:242): L = sorted, deduplicated values;
   id = byte offset = sum of the lengths of the values stored before *)
Fixpoint pid (L : list (list nat)) (v : list nat) : nat :=
  match L with [] => 0 | u :: L => if beq u v then 0 else length u + pid L v end.
(* indexed store (:331): id = rank *)
Fixpoint rank (L : list (list nat)) (v : list nat) : nat :=
  match L with [] => 0 | u :: L => if beq u v then 0 else S (rank L v) end.

Lemma lt_irrefl a : ~ ltb a a.
Proof. unfold ltb. intros H. assert (lex a a = Eq) by now apply lex_eq. congruence. Qed.
Lemma lt_asym a b : ltb a b -> ~ ltb b a.
Proof. unfold ltb. intros H H'. rewrite lex_antisym, H' in H. discriminate. Qed.

Lemma pid_gap L : StronglySorted ltb L -> forall u v, In u L -> In v L -> ltb u v ->
  pid L u + length u <= pid L v.
Proof.
  induction 1 as [|w L HS IH HF]; intros u v Hu Hv Hlt; [contradiction|].
  simpl. destruct (beq w u) eqn:Eu; destruct (beq w v) eqn:Ev.
  - apply beq_true in Eu, Ev. subst. exfalso. now apply (lt_irrefl v).
  - apply beq_true in Eu. subst. lia.
  - apply beq_true in Ev. subst w. exfalso.
    destruct Hu as [->|Hu]; [now apply (lt_irrefl u)|].
    rewrite Forall_forall in HF. apply (lt_asym _ _ Hlt). now apply HF.
  - destruct Hu as [->|Hu]; [assert (B : beq u u = true) by (now apply beq_true); congruence|].
    destruct Hv as [->|Hv]; [assert (B : beq v v = true) by (now apply beq_true); congruence|].
    specialize (IH u v Hu Hv Hlt). lia.
Qed.

Theorem plain_id_mono L : StronglySorted ltb L -> forall u v, In u L -> In v L -> lex u v = Lt -> pid L u <= pid L v.
Proof. intros S u v Hu Hv H. pose proof (pid_gap L S u v Hu Hv H). lia. Qed.
Theorem plain_id_tie L : StronglySorted ltb L -> forall u v, In u L -> In v L -> lex u v = Lt -> pid L u = pid L v -> u = [].
Proof. intros S u v Hu Hv H E. pose proof (pid_gap L S u v Hu Hv H). destruct u; [reflexivity|simpl in *; lia]. Qed.

Lemma rank_gap L : StronglySorted ltb L -> forall u v, In u L -> In v L -> ltb u v -> rank L u < rank L v.
Proof.
  induction 1 as [|w L HS IH HF]; intros u v Hu Hv Hlt; [contradiction|].
  simpl. destruct (beq w u) eqn:Eu; destruct (beq w v) eqn:Ev.
  - apply beq_true in Eu, Ev. subst. exfalso. now apply (lt_irrefl v).
  - lia.
  - apply beq_true in Ev. subst w. exfalso.
    destruct Hu as [->|Hu]; [now apply (lt_irrefl u)|].
    rewrite Forall_forall in HF. apply (lt_asym _ _ Hlt). now apply HF.
  - destruct Hu as [->|Hu]; [assert (B : beq u u = true) by (now apply beq_true); congruence|].
    destruct Hv as [->|Hv]; [assert (B : beq v v = true) by (now apply beq_true); congruence|].
    specialize (IH u v Hu Hv Hlt). lia.
Qed.

(* the two store kinds discharge the hypotheses of writer_cmp_is_lex *)
Corollary plain_writer_order F L fx fy : StronglySorted ltb L -> In (skipn F fx) L -> In (skipn F fy) L ->
  writer_cmp F (pid L) fx fy = lex fx fy.
Proof.
  intros S Hx Hy. apply (writer_cmp_is_lex F (fun v => In v L) (pid L)); try assumption.
  - intros u v Hu Hv. now apply plain_id_mono.
  - intros u v Hu Hv. now apply plain_id_tie.
Qed.
Corollary indexed_writer_order F L fx fy : StronglySorted ltb L -> In (skipn F fx) L -> In (skipn F fy) L ->
  writer_cmp F (rank L) fx fy = lex fx fy.
Proof.
  intros S Hx Hy. apply (writer_cmp_is_lex F (fun v => In v L) (rank L)); try assumption.
  - intros u v Hu Hv H. pose proof (rank_gap L S u v Hu Hv H). lia.
  - intros u v Hu Hv H E. pose proof (rank_gap L S u v Hu Hv H). lia.
Qed.

(* reader side: Array::cmp walks our bytes (inline prefix then store suffix) against the probe *)
Fixpoint array_cmp_loop (ours other : list nat) : comparison :=
  match ours with
  | [] => match other with [] => Eq | _ :: _ => Lt end
  | x :: ours' =>
      match other with
      | [] => Gt
      | y :: other' => match Nat.compare x y with Eq => array_cmp_loop ours' other' | c => c end
      end
  end.
Definition reader_array_cmp (base : list nat) (base_len : nat) (ext other : list nat) : comparison :=
  array_cmp_loop (firstn base_len base ++ ext) other.

Theorem array_cmp_loop_is_lex ours : forall other, array_cmp_loop ours other = lex ours other.
Proof. induction ours as [|x ours IH]; intros [|y other]; cbn [array_cmp_loop lex]; try reflexivity; try (now rewrite IH). Qed.

Theorem reader_cmp_is_lex base base_len ext other :
  reader_array_cmp base base_len ext other = lex (firstn base_len base ++ ext) other.
Proof. apply array_cmp_loop_is_lex. Qed.

(* transitivity etc. of lex: the order the store is sorted by is a strict total order on keys *)
Lemma lex_trans_lt a : forall b c, lex a b = Lt -> lex b c = Lt -> lex a c = Lt.
Proof.
  induction a as [|x a IH]; intros [|y b] [|z c]; cbn [lex]; try congruence; intros H1 H2.
  destruct (Nat.compare_spec x y) as [E1|E1|E1]; destruct (Nat.compare_spec y z) as [E2|E2|E2];
    try discriminate; subst;
    first [ rewrite Nat.compare_refl; now eauto
          | replace (Nat.compare y z) with Lt by (symmetry; apply Nat.compare_lt_iff; lia); reflexivity
          | replace (Nat.compare x z) with Lt by (symmetry; apply Nat.compare_lt_iff; lia); reflexivity ].
Qed.

(* a store sorted strictly by lex gives a monotone comparison table with at most one Eq: the
   hypotheses of the search theorems *)
Lemma sorted_nth_lt (keys : list (list nat)) : StronglySorted (fun a b => lex a b = Lt) keys ->
  forall i j a b, i < j -> nth_error keys i = Some a -> nth_error keys j = Some b -> lex a b = Lt.
Proof.
  induction 1 as [|k keys HS IH HF]; intros i j a b Hij Ha Hb; [destruct i; discriminate|].
  destruct j as [|j]; [lia|]. cbn [nth_error] in Hb.
  destruct i as [|i]; cbn [nth_error] in Ha.
  - injection Ha as <-. rewrite Forall_forall in HF. apply HF. eapply nth_error_In; eassumption.
  - apply (IH i j); [lia|assumption|assumption].
Qed.
