(* C15 — references between entries (bases/types/delayed.rs Vow/Bound/Word,
   creator/directory_pack/entry_store.rs finalize).  Entries are identified by their insertion
   number; every entry owns a cell holding its position; a reference-valued property reads the
   cell of its target when the value is needed.  finalize = set positions; reorder (the sort: any
   permutation); set positions; THEN column statistics and serialisation read the cells. *)
From Coq Require Import List Arith Bool Lia Permutation.
Import ListNotations.

Record st := { order : list nat;            (* entry numbers, in store order *)
               cell : nat -> nat }.         (* position cell of each entry *)

Fixpoint index_of (e : nat) (l : list nat) : option nat :=
  match l with
  | [] => None
  | x :: l => if x =? e then Some 0 else option_map S (index_of e l)
  end.

(* set_entry_idx: every entry of the store gets its current position *)
Definition set_idx (s : st) : st :=
  {| order := order s;
     cell := fun e => match index_of e (order s) with Some i => i | None => cell s e end |}.
(* the sort: any reordering of the store *)
Definition reorder (perm : list nat -> list nat) (s : st) : st :=
  {| order := perm (order s); cell := cell s |}.
Definition finalize (perm : list nat -> list nat) (s : st) : st := set_idx (reorder perm (set_idx s)).

(* what a reference to [target] evaluates to, and what the handle returned by add_entry reports *)
Definition ref_value (s : st) (target : nat) : nat := cell s target.
Definition bound_get (s : st) (e : nat) : nat := cell s e.

Lemma index_of_nth e l : forall i, NoDup l -> nth_error l i = Some e -> index_of e l = Some i.
Proof.
  induction l as [|x l IH]; intros i ND H; [destruct i; discriminate|].
  cbn [index_of]. destruct i as [|i]; cbn [nth_error] in H.
  - injection H as ->. now rewrite Nat.eqb_refl.
  - inversion ND as [|? ? Hx ND']; subst.
    destruct (Nat.eqb_spec x e) as [->|Hne].
    + exfalso. apply Hx. eapply nth_error_In; eassumption.
    + rewrite (IH i ND' H). reflexivity.
Qed.

(* after finalize, whatever the reordering, the cell of the entry stored at position p holds p *)
Theorem finalize_positions perm s p e :
  NoDup (order s) -> (forall l, Permutation (perm l) l) ->
  nth_error (order (finalize perm s)) p = Some e -> cell (finalize perm s) e = p.
Proof.
  intros ND HP H. unfold finalize in *. cbn [set_idx reorder order cell] in *.
  assert (ND' : NoDup (perm (order s))) by (eapply Permutation_NoDup; [symmetry; apply HP|exact ND]).
  now rewrite (index_of_nth e _ p ND' H).
Qed.

(* hence: the stored value of a reference is the final position of the referenced entry, for every
   reference graph (forward, backward, self, chains: a reference is one cell read) *)
Theorem refs_resolve perm s (target : nat -> nat) p e q :
  NoDup (order s) -> (forall l, Permutation (perm l) l) ->
  nth_error (order (finalize perm s)) p = Some e ->
  nth_error (order (finalize perm s)) q = Some (target e) ->
  ref_value (finalize perm s) (target e) = q.
Proof. intros ND HP _ Hq. unfold ref_value. now apply finalize_positions. Qed.

Theorem bound_reports_final perm s p e :
  NoDup (order s) -> (forall l, Permutation (perm l) l) ->
  nth_error (order (finalize perm s)) p = Some e -> bound_get (finalize perm s) e = p.
Proof. intros ND HP H. unfold bound_get. now apply finalize_positions. Qed.

(* every reference value is below the number of entries, so a width computed from the column
   maximum AFTER finalize fits every reference *)
Theorem ref_below_count perm s e :
  NoDup (order s) -> (forall l, Permutation (perm l) l) -> In e (order s) ->
  cell (finalize perm s) e < length (order s).
Proof.
  intros ND HP Hin.
  assert (Hin' : In e (order (finalize perm s))).
  { unfold finalize. cbn [set_idx reorder order]. eapply Permutation_in; [symmetry; apply HP|exact Hin]. }
  apply In_nth_error in Hin'. destruct Hin' as [p Hp].
  rewrite (finalize_positions perm s p e ND HP Hp).
  assert (p < length (order (finalize perm s))) by (apply nth_error_Some; congruence).
  unfold finalize in H. cbn [set_idx reorder order] in H. now rewrite (Permutation_length (HP _)) in H.
Qed.

(* if the statistics were taken before the sort (cells set once, then reordered), a reference read
   afterwards can differ from the value the width was computed for *)
Theorem stats_before_sort_refuted :
  exists (perm : list nat -> list nat) s e,
    NoDup (order s) /\ (forall l, Permutation (perm l) l) /\
    cell (set_idx s) e <> cell (finalize perm s) e.
Proof.
  exists (@rev nat), {| order := [0; 1; 2]; cell := fun _ => 0 |}, 0.
  split; [repeat constructor; cbn; intuition lia|]. split; [intros l; symmetry; apply Permutation_rev|].
  cbn. discriminate.
Qed.
