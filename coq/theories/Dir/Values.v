(* C02 — values: what the creator writes for one property of one entry
   (creator/…/layout/properties.rs serialize_entry) is read back exactly by the reader's builders
   (reader/…/builder/property.rs), for every value that fits the column width; the widths the
   creator computes from column statistics make every value of the column fit; value stores give
   back the bytes stored under each id. *)
From Coq Require Import List Arith NArith ZArith Bool Lia ZifyN ZifyBool ZifyNat.
From Jbk Require Import Base.ListExtra Base.Bytes Base.Parser Format.Structs Content.Pack Dir.Layout.
Import ListNotations.
Open Scope N_scope.
Ltac Zify.zify_post_hook ::= Z.div_mod_to_equations.

(* ---- what the writer puts in the entry for one property ---- *)
Definition ser_uint (size : nat) (default : option N) (v : N) : list N :=
  match default with Some _ => [] | None => le_enc size v end.
Definition ser_sint (size : nat) (default : option Z) (z : Z) : list N :=
  match default with Some _ => [] | None => le_enc size (strunc size z) end.
Definition ser_content (ps cs : nat) (default : option N) (pack content : N) : list N :=
  (match default with Some _ => [] | None => le_enc ps pack end) ++ le_enc cs content.
Definition ser_array (len_size : option nat) (fixed : nat) (dep : option (nat * N))
                     (size : N) (prefix : list N) (id : N) : list N :=
  (match len_size with Some n => le_enc n size | None => [] end) ++
  prefix ++ zerosN (fixed - length prefix) ++
  (match dep with Some (ks, _) => le_enc ks id | None => [] end).

Lemma sub_mid (pre x post : list N) n : n = length x -> sub (length pre) n (pre ++ x ++ post) = x.
Proof. intros ->. apply sub_concat. Qed.
Lemma sub_at (pre a x post : list N) n : n = length x ->
  sub (length pre + length a) n (pre ++ a ++ x ++ post) = x.
Proof. intros ->. rewrite app_assoc, <- app_length. apply sub_concat. Qed.

Section Fields.
Variable store : N -> res vstore.
Variables pre post : list N.
Let off := length pre.

Theorem uint_roundtrip size v name : v < 256 ^ N.of_nat size ->
  read_value store (pre ++ ser_uint size None v ++ post) {| pr_off := off; pr_name := name; pr_kind := KUInt size None |}
  = Ok (VUnsigned v).
Proof.
  intros H. cbn [read_value pr_kind pr_off]. unfold ser_uint. subst off.
  rewrite sub_mid by (now rewrite le_enc_length). now rewrite le_val_enc.
Qed.

Theorem sint_roundtrip size z name : (0 < size)%nat -> fits_signed size z ->
  read_value store (pre ++ ser_sint size None z ++ post) {| pr_off := off; pr_name := name; pr_kind := KSInt size None |}
  = Ok (VSigned z).
Proof.
  intros Hs H. cbn [read_value pr_kind pr_off]. unfold ser_sint. subst off.
  rewrite sub_mid by (now rewrite le_enc_length).
  rewrite le_val_enc by apply strunc_bound. now rewrite signed_roundtrip.
Qed.

(* a value outside the width is NOT read back: the width computation is what protects it *)
Theorem sint_too_wide_altered size z name : (0 < size)%nat -> ~ fits_signed size z ->
  read_value store (pre ++ ser_sint size None z ++ post) {| pr_off := off; pr_name := name; pr_kind := KSInt size None |}
  <> Ok (VSigned z).
Proof.
  intros Hs H. cbn [read_value pr_kind pr_off]. unfold ser_sint. subst off.
  rewrite sub_mid by (now rewrite le_enc_length).
  rewrite le_val_enc by apply strunc_bound. intros E. injection E as E. now apply (signed_altered size z Hs H).
Qed.

Theorem default_roundtrip_u size d name e :
  read_value store e {| pr_off := off; pr_name := name; pr_kind := KUInt size (Some d) |} = Ok (VUnsigned d).
Proof. reflexivity. Qed.
Theorem default_roundtrip_s size d name e :
  read_value store e {| pr_off := off; pr_name := name; pr_kind := KSInt size (Some d) |} = Ok (VSigned d).
Proof. reflexivity. Qed.

Theorem content_roundtrip ps cs pack content name :
  pack < 256 ^ N.of_nat ps -> pack < 65536 -> content < 256 ^ N.of_nat cs ->
  read_value store (pre ++ ser_content ps cs None pack content ++ post)
             {| pr_off := off; pr_name := name; pr_kind := KContent ps cs None |}
  = Ok (VContent pack content).
Proof.
  intros Hp Hp2 Hc. cbn [read_value pr_kind pr_off]. unfold ser_content. subst off.
  rewrite <- !app_assoc.
  rewrite sub_mid by (now rewrite le_enc_length).
  replace (length pre + ps)%nat with (length pre + length (le_enc ps pack))%nat by (now rewrite le_enc_length).
  rewrite sub_at by (now rewrite le_enc_length).
  rewrite !le_val_enc by assumption. now rewrite N.mod_small.
Qed.
Theorem content_default_roundtrip ps cs d content name :
  content < 256 ^ N.of_nat cs ->
  read_value store (pre ++ ser_content ps cs (Some d) d content ++ post)
             {| pr_off := off; pr_name := name; pr_kind := KContent ps cs (Some d) |}
  = Ok (VContent d content).
Proof.
  intros Hc. cbn [read_value pr_kind pr_off]. unfold ser_content. cbn [app]. subst off.
  rewrite sub_mid by (now rewrite le_enc_length). now rewrite le_val_enc.
Qed.

(* arrays: length + inline prefix (padded to [fixed]) + value-store id of the rest *)
Theorem array_roundtrip ls fixed ks si bytes id name s :
  lenN bytes < 256 ^ N.of_nat ls -> id < 256 ^ N.of_nat ks ->
  store si = Ok s ->
  vs_get s id (Some (lenN bytes - N.min (lenN bytes) (N.of_nat fixed))) = Ok (skipn fixed bytes) ->
  read_value store
    (pre ++ ser_array (Some ls) fixed (Some (ks, si)) (lenN bytes) (firstn fixed bytes) id ++ post)
    {| pr_off := off; pr_name := name; pr_kind := KArray (Some ls) fixed (Some (ks, si)) None |}
  = Ok (VArray bytes).
Proof.
  intros Hl Hid Hs Hg. cbn [read_value pr_kind pr_off]. unfold ser_array. subst off.
  set (pfx := firstn fixed bytes). set (pad := zerosN (fixed - length pfx)).
  assert (Lp : length (pfx ++ pad) = fixed).
  { subst pfx pad. rewrite app_length, zerosN_length, firstn_length. lia. }
  (* the three sub-fields *)
  rewrite <- !app_assoc.
  rewrite sub_mid by (now rewrite le_enc_length).
  replace (length pre + ls)%nat with (length pre + length (le_enc ls (lenN bytes)))%nat by (now rewrite le_enc_length).
  replace (pre ++ le_enc ls (lenN bytes) ++ pfx ++ pad ++ le_enc ks id ++ post)
    with (pre ++ le_enc ls (lenN bytes) ++ (pfx ++ pad) ++ le_enc ks id ++ post)
    by (now rewrite <- !app_assoc).
  rewrite sub_at by (symmetry; exact Lp).
  replace (length pre + length (le_enc ls (lenN bytes)) + fixed)%nat
    with (length pre + length (le_enc ls (lenN bytes) ++ pfx ++ pad))%nat
    by (rewrite app_length; lia).
  replace (pre ++ le_enc ls (lenN bytes) ++ (pfx ++ pad) ++ le_enc ks id ++ post)
    with (pre ++ (le_enc ls (lenN bytes) ++ pfx ++ pad) ++ le_enc ks id ++ post)
    by (now rewrite <- !app_assoc).
  rewrite sub_at by (now rewrite le_enc_length).
  rewrite !le_val_enc by assumption.
  rewrite Hs. cbn [bind]. rewrite Hg. cbn [bind].
  f_equal. f_equal.
  assert (E : firstn (N.to_nat (N.min (lenN bytes) (N.of_nat fixed))) (pfx ++ pad) = pfx).
  { subst pfx pad. unfold lenN.
    destruct (Nat.le_ge_cases (length bytes) fixed) as [L|L].
    - replace (N.to_nat (N.min (N.of_nat (length bytes)) (N.of_nat fixed))) with (length bytes) by lia.
      assert (F : firstn fixed bytes = bytes) by (apply firstn_all2; lia).
      rewrite F. now rewrite firstn_app_len.
    - replace (N.to_nat (N.min (N.of_nat (length bytes)) (N.of_nat fixed))) with fixed by lia.
      rewrite firstn_length. replace (fixed - Nat.min fixed (length bytes))%nat with 0%nat by lia.
      cbn [zerosN repeat]. rewrite app_nil_r. rewrite firstn_firstn. f_equal. lia. }
  rewrite E. subst pfx. apply firstn_skipn.
Qed.

(* indirect arrays (no length, no inline prefix): the whole value comes from an indexed store *)
Theorem indirect_array_roundtrip ks si bytes id name s :
  id < 256 ^ N.of_nat ks -> store si = Ok s -> vs_get s id None = Ok bytes ->
  read_value store (pre ++ ser_array None 0 (Some (ks, si)) 0 [] id ++ post)
    {| pr_off := off; pr_name := name; pr_kind := KArray None 0 (Some (ks, si)) None |}
  = Ok (VArray bytes).
Proof.
  intros Hid Hs Hg. cbn [read_value pr_kind pr_off]. unfold ser_array. cbn [app zerosN repeat Nat.sub length]. subst off.
  rewrite !Nat.add_0_r.
  rewrite sub_mid by (now rewrite le_enc_length). rewrite le_val_enc by assumption.
  rewrite Hs. cbn [bind]. rewrite Hg. reflexivity.
Qed.
End Fields.

(* ---- column widths (creator/…/schema/property.rs PropertySize / needed_bytes) ---- *)
Theorem unsigned_width_fits (col : list N) (m v : N) :
  (forall x, In x col -> x <= m) -> m < 2 ^ 64 -> In v col -> v < 256 ^ N.of_nat (needed_bytes m).
Proof.
  intros Hm Hb Hv. pose proof (needed_bytes_fits m Hb). specialize (Hm v Hv). lia.
Qed.

(* the repaired probe: a non-negative value needing as many bytes as the signed value does *)
Open Scope Z_scope.
Definition signed_probe (z : Z) : N :=
  Z.to_N (Z.min (2 * (if z <? 0 then - z - 1 else z)) (2 ^ 63 - 1)).

Lemma needed_bytes_cases v : (needed_bytes v = 1 \/ needed_bytes v = 2 \/ needed_bytes v = 3 \/ needed_bytes v = 4 \/
  needed_bytes v = 5 \/ needed_bytes v = 6 \/ needed_bytes v = 7 \/ needed_bytes v = 8)%nat.
Proof. pose proof (needed_bytes_range v). lia. Qed.

Theorem signed_width_fits (m : N) (z : Z) :
  - 2 ^ 63 <= z < 2 ^ 63 -> (signed_probe z <= m)%N -> (m < 2 ^ 64)%N ->
  fits_signed (needed_bytes m) z.
Proof.
  intros Hz Hp Hm. unfold fits_signed.
  pose proof (needed_bytes_fits m Hm) as F.
  pose proof (needed_bytes_range m) as R.
  pose proof (pow256_even (needed_bytes m) ltac:(lia)) as E.
  set (mag := if z <? 0 then - z - 1 else z) in *.
  assert (Hmag : 0 <= mag < 2 ^ 63) by (subst mag; destruct (Z.ltb_spec z 0); lia).
  unfold signed_probe in Hp. fold mag in Hp.
  assert (Fz : Z.of_N m < 256 ^ Z.of_nat (needed_bytes m)).
  { apply N2Z.inj_lt in F. rewrite N2Z.inj_pow, nat_N_Z in F. exact F. }
  destruct (Z_le_gt_dec (2 * mag) (2 ^ 63 - 1)) as [Small|Big].
  - rewrite Z.min_l in Hp by lia.
    assert (2 * mag <= Z.of_N m) by lia.
    subst mag. destruct (Z.ltb_spec z 0); lia.
  - rewrite Z.min_r in Hp by lia.
    assert (M63 : 2 ^ 63 - 1 <= Z.of_N m) by lia.
    destruct (needed_bytes_cases m) as [H|[H|[H|[H|[H|[H|[H|H]]]]]]]; rewrite H in *;
      cbn in Fz; try lia.
Qed.

(* the pinned width (needed_bytes of the plain maximum) loses the sign bit: defect D4 *)
Theorem signed_width_pinned_refuted :
  exists z, 0 <= z < 2 ^ 63 /\ ~ fits_signed (needed_bytes (Z.to_N z)) z.
Proof. exists 128. split; [lia|]. unfold fits_signed. cbn. lia. Qed.
Close Scope Z_scope.

(* ---- value stores: the id handed out for a value gives the value back ---- *)
(* plain store: id = byte offset in the concatenation of the stored values *)
Theorem plain_store_get (vals : list (list N)) k v :
  nth_error vals k = Some v ->
  vs_get (VSPlain (concat vals)) (lenN (concat (firstn k vals))) (Some (lenN v)) = Ok v.
Proof.
  intros H. unfold vs_get.
  assert (S : concat vals = concat (firstn k vals) ++ v ++ concat (skipn (S k) vals)).
  { rewrite <- (firstn_skipn k vals) at 1. rewrite concat_app. f_equal.
    assert (E : skipn k vals = v :: skipn (S k) vals).
    { revert k H. induction vals as [|x bl IH]; intros [|k] H; cbn in H; try discriminate.
      - now injection H as ->.
      - cbn [skipn]. now apply IH. }
    rewrite E. reflexivity. }
  pose proof (f_equal (@length N) S) as L. rewrite !app_length in L.
  replace (lenN (concat (firstn k vals)) + lenN v <=? lenN (concat vals)) with true
    by (symmetry; apply N.leb_le; unfold lenN; lia).
  f_equal. unfold subN, lenN. rewrite !Nat2N.id. rewrite S at 1. apply sub_concat.
Qed.

(* a suffix of a stored value can be addressed too (arrays store only what follows the inline prefix) *)
(* indexed store: id = rank, size implicit from consecutive offsets *)
Theorem indexed_store_get (vals : list (list N)) k v :
  nth_error vals k = Some v ->
  vs_get (VSIndexed (0 :: ends (map lenN vals)) (concat vals)) (N.of_nat k) None = Ok v.
Proof.
  intros H. unfold vs_get. cbn [length].
  assert (Hk : (k < length vals)%nat) by (apply nth_error_Some; congruence).
  unfold ends. rewrite ends_from_length, map_length.
  replace (N.of_nat (S (length vals)) <=? N.of_nat k + 1) with false by (symmetry; apply N.leb_gt; lia).
  rewrite Nat2N.id.
  destruct (ends_from_nth 0 vals k v H) as [H1 H2]. rewrite H1, H2.
  replace (0 + lenN (concat (firstn k vals)) + lenN v - (0 + lenN (concat (firstn k vals)))) with (lenN v) by lia.
  rewrite N.add_0_l.
  pose proof (plain_store_get vals k v H) as P. unfold vs_get in P. exact P.
Qed.
Close Scope N_scope.
