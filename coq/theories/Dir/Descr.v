(* C02 / C14 — property descriptors: what the creator serialises (creator/…/layout/property.rs
   Property::serialize) is what the reader parses (reader/…/raw_layout.rs RawProperty::parse),
   with the size the creator's own Property::size reports. *)
From Coq Require Import List Arith NArith ZArith Bool Lia ZifyN ZifyBool ZifyNat.
From Jbk Require Import Base.ListExtra Base.Bytes Base.Parser Base.Utf8 Format.Structs Content.Pack Dir.Layout.
Import ListNotations.
Open Scope N_scope.
Ltac Zify.zify_post_hook ::= Z.div_mod_to_equations.

Inductive wprop :=
| WVariantId (name : list N)
| WArray (len_size : option nat) (fixed : nat) (dep : option (nat * N)) (name : list N)
| WContent (cs ps : nat) (default : option N) (name : list N)
| WUInt (size : nat) (default : option N) (name : list N)
| WSInt (size : nat) (default : option Z) (name : list N)
| WPadding (size : nat).

Definition ser_pstring (s : list N) : list N := N.of_nat (length s) :: s.
Definition opt_nat (o : option nat) : nat := match o with Some n => n | None => 0%nat end.

Definition ser_wprop (p : wprop) : list N :=
  match p with
  | WVariantId name => 128 :: ser_pstring name
  | WArray ls fixed dep name =>
      [80 + N.of_nat (opt_nat ls); 32 * N.of_nat (match dep with Some (ks, _) => ks | None => 0%nat end) + N.of_nat fixed] ++
      (match dep with Some (_, si) => [si] | None => [] end) ++ ser_pstring name
  | WContent cs ps default name =>
      let key := 16 + (N.of_nat cs - 1) + (if (ps =? 2)%nat then 4 else 0) in
      (match default with None => [key] | Some d => (key + 8) :: le_enc ps d end) ++ ser_pstring name
  | WUInt size default name =>
      let key := 32 + (N.of_nat size - 1) in
      (match default with None => [key] | Some d => (key + 8) :: le_enc size d end) ++ ser_pstring name
  | WSInt size default name =>
      let key := 48 + (N.of_nat size - 1) in
      (match default with None => [key] | Some d => (key + 8) :: le_enc size (strunc size d) end) ++ ser_pstring name
  | WPadding size => [N.of_nat size - 1]
  end.

(* creator/…/layout/property.rs Property::size *)
Definition wp_size (p : wprop) : nat :=
  match p with
  | WVariantId _ => 1
  | WArray ls fixed dep _ => opt_nat ls + fixed + match dep with Some (ks, _) => ks | None => 0 end
  | WContent cs ps default _ => (match default with Some _ => 0 | None => ps end) + cs
  | WUInt size default _ | WSInt size default _ => match default with Some _ => 0 | None => size end
  | WPadding size => size
  end.

Definition raw_of (p : wprop) : rawprop :=
  match p with
  | WVariantId name => {| rp_size := 1; rp_name := name; rp_kind := KVariantId |}
  | WArray ls fixed dep name => {| rp_size := wp_size p; rp_name := name; rp_kind := KArray ls fixed dep None |}
  | WContent cs ps default name => {| rp_size := wp_size p; rp_name := name; rp_kind := KContent ps cs default |}
  | WUInt size default name => {| rp_size := wp_size p; rp_name := name; rp_kind := KUInt size default |}
  | WSInt size default name => {| rp_size := wp_size p; rp_name := name; rp_kind := KSInt size default |}
  | WPadding size => {| rp_size := size; rp_name := []; rp_kind := KPadding |}
  end.

Definition wf_name (s : list N) := (length s <= 255)%nat /\ utf8_valid s = true.
Definition wf_wprop (p : wprop) : Prop :=
  match p with
  | WVariantId name => wf_name name
  | WArray ls fixed dep name =>
      wf_name name /\ (fixed < 32)%nat /\
      match ls with Some n => (1 <= n <= 3)%nat | None => True end /\
      match dep with Some (ks, si) => (1 <= ks <= 7)%nat /\ si < 256 | None => True end
  | WContent cs ps default name =>
      wf_name name /\ (1 <= cs <= 4)%nat /\ (1 <= ps <= 2)%nat /\
      match default with Some d => d < 256 ^ N.of_nat ps /\ d < 65536 | None => True end
  | WUInt size default name =>
      wf_name name /\ (1 <= size <= 8)%nat /\ match default with Some d => d < 256 ^ N.of_nat size | None => True end
  | WSInt size default name =>
      wf_name name /\ (1 <= size <= 8)%nat /\ match default with Some d => fits_signed size d | None => True end
  | WPadding size => (1 <= size <= 16)%nat
  end.

Lemma p_pstring_ser s r : wf_name s -> p_pstring (ser_pstring s ++ r) = Ok (s, r).
Proof.
  intros [H U]. unfold p_pstring, ser_pstring in *. cbn [app].
  rewrite p_u_1 by lia. cbn [bind]. rewrite Nat2N.id. rewrite p_bytes_app by reflexivity. cbn [bind]. now rewrite U.
Qed.

Ltac nibbles info ty data :=
  let E1 := fresh "E1" in let E2 := fresh "E2" in
  assert (E1 : info / 16 = ty) by lia; assert (E2 : info mod 16 = data) by lia;
  rewrite E1, E2.

Theorem p_rawprop_ser (p : wprop) r : wf_wprop p -> p_rawprop (ser_wprop p ++ r) = Ok (raw_of p, r).
Proof.
  destruct p as [name|ls fixed dep name|cs ps default name|size default name|size default name|size];
    cbn [wf_wprop]; intros W; unfold p_rawprop; cbn [ser_wprop app].
  - (* VariantId *)
    rewrite p_u_1 by lia. cbn [bind].
    change (128 / 16) with 8. change (128 mod 16) with 0. cbn [N.eqb Pos.eqb orb].
    rewrite p_pstring_ser by assumption. reflexivity.
  - (* Array *)
    destruct W as (Wn & Wf & Wl & Wd).
    set (lsn := opt_nat ls). assert (Hls : (lsn <= 3)%nat) by (subst lsn; destruct ls; cbn; lia).
    rewrite p_u_1 by lia. cbn [bind].
    nibbles (80 + N.of_nat lsn) 5 (N.of_nat lsn).
    cbn [N.eqb Pos.eqb orb].
    replace (N.of_nat lsn mod 4) with (N.of_nat lsn) by lia. rewrite Nat2N.id.
    replace (8 <=? N.of_nat lsn) with false by (symmetry; apply N.leb_gt; lia).
    set (ksn := match dep with Some (ks, _) => ks | None => 0%nat end).
    assert (Hks : (ksn <= 7)%nat) by (subst ksn; destruct dep as [[ks si]|]; cbn; lia).
    rewrite p_u_1 by lia. cbn [bind].
    replace ((32 * N.of_nat ksn + N.of_nat fixed) mod 32) with (N.of_nat fixed) by lia.
    replace ((32 * N.of_nat ksn + N.of_nat fixed) / 32) with (N.of_nat ksn) by lia.
    rewrite !Nat2N.id.
    destruct dep as [[ks si]|]; subst ksn.
    + destruct Wd as [Wk Ws]. replace (ks =? 0)%nat with false by (symmetry; apply Nat.eqb_neq; lia).
      cbn [app]. rewrite p_u_1 by assumption. cbn [bind].
      rewrite p_pstring_ser by assumption. cbn [bind raw_of wp_size].
      subst lsn. destruct ls as [n|]; cbn [opt_nat].
      * replace (n =? 0)%nat with false by (symmetry; apply Nat.eqb_neq; lia). reflexivity.
      * reflexivity.
    + cbn [Nat.eqb app bind]. rewrite p_pstring_ser by assumption. cbn [bind raw_of wp_size].
      subst lsn. destruct ls as [n|]; cbn [opt_nat].
      * replace (n =? 0)%nat with false by (symmetry; apply Nat.eqb_neq; lia). reflexivity.
      * reflexivity.
  - (* Content *)
    destruct W as (Wn & Wc & Wp & Wd).
    set (pbit := if (ps =? 2)%nat then 4 else 0).
    assert (Hpb : pbit = 4 * (N.of_nat ps - 1)) by (subst pbit; destruct (Nat.eqb_spec ps 2); lia).
    destruct default as [d|]; cbn [app]; rewrite <- ?app_assoc.
    + destruct Wd as [Wd1 Wd2].
      rewrite p_u_1 by lia. cbn [bind].
      nibbles (16 + (N.of_nat cs - 1) + pbit + 8) 1 ((N.of_nat cs - 1) + pbit + 8).
      cbn [N.eqb Pos.eqb].
      replace (8 <=? N.of_nat cs - 1 + pbit + 8) with true by (symmetry; apply N.leb_le; lia).
      replace (N.to_nat (((N.of_nat cs - 1 + pbit + 8) / 4) mod 2)) with (ps - 1)%nat by lia.
      replace (N.to_nat ((N.of_nat cs - 1 + pbit + 8) mod 4)) with (cs - 1)%nat by lia.
      replace (S (ps - 1)) with ps by lia. replace (S (cs - 1)) with cs by lia.
      rewrite p_u_enc by assumption. cbn [bind].
      rewrite p_pstring_ser by assumption. cbn [bind raw_of wp_size].
      rewrite N.mod_small by assumption. reflexivity.
    + rewrite p_u_1 by lia. cbn [bind].
      nibbles (16 + (N.of_nat cs - 1) + pbit) 1 ((N.of_nat cs - 1) + pbit).
      cbn [N.eqb Pos.eqb].
      replace (8 <=? N.of_nat cs - 1 + pbit) with false by (symmetry; apply N.leb_gt; lia).
      replace (N.to_nat (((N.of_nat cs - 1 + pbit) / 4) mod 2)) with (ps - 1)%nat by lia.
      replace (N.to_nat ((N.of_nat cs - 1 + pbit) mod 4)) with (cs - 1)%nat by lia.
      replace (S (ps - 1)) with ps by lia. replace (S (cs - 1)) with cs by lia.
      rewrite p_pstring_ser by assumption. cbn [bind raw_of wp_size].
      do 3 f_equal. lia.
  - (* UInt *)
    destruct W as (Wn & Ws & Wd).
    destruct default as [d|]; cbn [app]; rewrite <- ?app_assoc.
    + rewrite p_u_1 by lia. cbn [bind].
      nibbles (32 + (N.of_nat size - 1) + 8) 2 ((N.of_nat size - 1) + 8).
      cbn [N.eqb Pos.eqb orb].
      replace (8 <=? N.of_nat size - 1 + 8) with true by (symmetry; apply N.leb_le; lia).
      replace (N.to_nat ((N.of_nat size - 1 + 8) mod 8)) with (size - 1)%nat by lia.
      replace (S (size - 1)) with size by lia.
      rewrite p_u_enc by assumption. cbn [bind].
      rewrite p_pstring_ser by assumption. reflexivity.
    + rewrite p_u_1 by lia. cbn [bind].
      nibbles (32 + (N.of_nat size - 1)) 2 (N.of_nat size - 1).
      cbn [N.eqb Pos.eqb orb].
      replace (8 <=? N.of_nat size - 1) with false by (symmetry; apply N.leb_gt; lia).
      replace (N.to_nat ((N.of_nat size - 1) mod 8)) with (size - 1)%nat by lia.
      replace (S (size - 1)) with size by lia.
      rewrite p_pstring_ser by assumption. reflexivity.
  - (* SInt *)
    destruct W as (Wn & Ws & Wd).
    destruct default as [d|]; cbn [app]; rewrite <- ?app_assoc.
    + rewrite p_u_1 by lia. cbn [bind].
      nibbles (48 + (N.of_nat size - 1) + 8) 3 ((N.of_nat size - 1) + 8).
      cbn [N.eqb Pos.eqb orb].
      replace (8 <=? N.of_nat size - 1 + 8) with true by (symmetry; apply N.leb_le; lia).
      replace (N.to_nat ((N.of_nat size - 1 + 8) mod 8)) with (size - 1)%nat by lia.
      replace (S (size - 1)) with size by lia.
      unfold p_signed. rewrite p_u_enc by apply strunc_bound. cbn [bind].
      rewrite signed_roundtrip by (try assumption; lia).
      rewrite p_pstring_ser by assumption. reflexivity.
    + rewrite p_u_1 by lia. cbn [bind].
      nibbles (48 + (N.of_nat size - 1)) 3 (N.of_nat size - 1).
      cbn [N.eqb Pos.eqb orb].
      replace (8 <=? N.of_nat size - 1) with false by (symmetry; apply N.leb_gt; lia).
      replace (N.to_nat ((N.of_nat size - 1) mod 8)) with (size - 1)%nat by lia.
      replace (S (size - 1)) with size by lia.
      rewrite p_pstring_ser by assumption. reflexivity.
  - (* Padding *)
    rewrite p_u_1 by lia. cbn [bind].
    nibbles (N.of_nat size - 1) 0 (N.of_nat size - 1).
    cbn [N.eqb]. cbn [raw_of]. do 3 f_equal. lia.
Qed.

(* an inline prefix of 32 or more does not fit the 5-bit field: the descriptor is corrupted (D12) *)
Lemma array_prefix_32_refuted :
  exists p r, match p_rawprop (ser_wprop p ++ r) with Ok (rp, _) => rp <> raw_of p | Err _ => True end.
Proof. exists (WArray (Some 1%nat) 32 (Some (1%nat, 0)) [97]), []. vm_compute. discriminate. Qed.
Close Scope N_scope.
