(* C02 at file level.  As for the content pack (Content/FilePack.v), a directory pack is described by
   WHERE its structures are in a file: [dir_pack_at f base h dh vptrs eptrs iptrs] says that at [base]
   the file holds the pack header block, the directory header block and the three pointer tables as
   CRC'd blocks.  Then the reader opens the pack, and for every entry store whose tail block and data
   block lie where its pointer says — anywhere in the file, in any order — it returns the layout the
   tail describes and exactly the data bytes; composed with EntryStore.v: every entry the writer put
   in the store reads back with its values, through the file. *)
From Coq Require Import List Arith NArith ZArith Bool Lia.
From Jbk Require Import Base.ListExtra Base.Bytes Base.Crc Base.Parser Base.Prog Base.Utf8 Format.Structs Format.Roundtrips
  Manifest.SetLocation Content.Pack Content.FilePack Dir.Layout Dir.Descr Dir.Values Dir.Variants Dir.EntryStore Dir.EntryStoreVariants.
Import ListNotations.
Open Scope N_scope.

Definition wf_dir_header (dh : dir_header) : Prop :=
  dh_index_pos dh < 2 ^ 64 /\ dh_entry_pos dh < 2 ^ 64 /\ dh_value_pos dh < 2 ^ 64 /\
  dh_index_count dh < 2 ^ 32 /\ dh_entry_count dh < 2 ^ 32 /\ dh_value_count dh < 256 /\ length (dh_free dh) = 24%nat.

Definition ptr_table (ptrs : list sized_offset) : list N := flat_map ser_sized_offset ptrs.

Record dir_pack_at (f : list N) (base : N) (h : pack_header) (dh : dir_header)
       (vptrs eptrs iptrs : list sized_offset) : Prop := {
  dpa_wfh   : wf_pack_header h;
  dpa_kind  : ph_kind h = KDirectory;
  dpa_head  : placed f base (ser_pack_header h);
  dpa_wfdh  : wf_dir_header dh;
  dpa_dhead : placed f (base + 64) (ser_dir_header dh);
  dpa_nv    : dh_value_count dh = N.of_nat (length vptrs);
  dpa_ne    : dh_entry_count dh = N.of_nat (length eptrs);
  dpa_ni    : dh_index_count dh = N.of_nat (length iptrs);
  dpa_vp    : placed f (base + dh_value_pos dh) (ptr_table vptrs);
  dpa_ep    : placed f (base + dh_entry_pos dh) (ptr_table eptrs);
  dpa_ip    : placed f (base + dh_index_pos dh) (ptr_table iptrs) }.

Lemma ptr_table_length ptrs : lenN (ptr_table ptrs) = 8 * N.of_nat (length ptrs).
Proof. unfold lenN, ptr_table. rewrite (flat_map_fixed_length _ 8) by (intros x; apply ser_sized_offset_length). lia. Qed.

Lemma ptr_table_nth ptrs k so : nth_error ptrs k = Some so ->
  subN (8 * N.of_nat k) 8 (ptr_table ptrs) = ser_sized_offset so.
Proof.
  intros H. unfold subN, ptr_table. replace (N.to_nat (8 * N.of_nat k)) with (8 * k)%nat by lia. change (N.to_nat 8) with 8%nat.
  exact (sub_flat_map_fixed ser_sized_offset 8 ptrs ser_sized_offset_length k so H).
Qed.

Section Read.
Variables (f : list N) (base : N) (h : pack_header) (dh : dir_header) (vptrs eptrs iptrs : list sized_offset).
Hypothesis P : dir_pack_at f base h dh vptrs eptrs iptrs.

Let dp : dpack :=
  {| dp_base := base; dp_header := h; dp_dh := dh;
     dp_vptrs := ptr_table vptrs; dp_eptrs := ptr_table eptrs; dp_iptrs := ptr_table iptrs |}.

(* DirectoryPack::new succeeds and holds exactly the three tables *)
Theorem dir_open_ok : run f (dp_open_p base) = Ok dp.
Proof.
  destruct P as [Wh Kd Hd Wdh Dhd Nv Ne Ni Vp Ep Ip].
  destruct Wdh as (W1 & W2 & W3 & W4 & W5 & W6 & W7).
  unfold dp_open_p, read_header_p. cbn [pbind run].
  pose proof Hd as Hd'. unfold placed in Hd'. unfold lenN in Hd'. rewrite ser_pack_header_length in Hd' by exact Wh.
  change (N.of_nat 60) with 60 in Hd'. rewrite Hd'.
  rewrite (parse_all_ser p_pack_header ser_pack_header h (p_pack_header_ser h [] Wh)). cbn [lift pbind run].
  rewrite Kd. change (negb (kind_eqb KDirectory KDirectory)) with false. cbn iota.
  assert (Lc : lenN (ser_dir_header dh) = 60).
  { unfold lenN, ser_dir_header. rewrite !app_length, !le_enc_length, zerosN_length, W7. reflexivity. }
  pose proof Dhd as Dhd'. unfold placed in Dhd'. rewrite Lc in Dhd'. cbn [pbind run]. rewrite Dhd'.
  rewrite (parse_all_ser p_dir_header ser_dir_header dh (p_dir_header_ser dh [] W1 W2 W3 W4 W5 W6 W7)). cbn [lift pbind run].
  pose proof Vp as Vp'. unfold placed in Vp'. rewrite ptr_table_length, <- Nv in Vp'. rewrite Vp'. cbn [pbind run].
  pose proof Ep as Ep'. unfold placed in Ep'. rewrite ptr_table_length, <- Ne in Ep'. rewrite Ep'. cbn [pbind run].
  pose proof Ip as Ip'. unfold placed in Ip'. rewrite ptr_table_length, <- Ni in Ip'. rewrite Ip'. cbn [pbind run].
  reflexivity.
Qed.

(* an entry store whose tail and data lie where its pointer says: the reader returns the layout and the data *)
Theorem entry_store_at k so tail ly data :
  nth_error eptrs k = Some so -> wf_sized_offset so ->
  so_size so = lenN tail -> placed f (base + so_off so) tail ->
  parse_all p_layout tail = Ok ly -> l_checked ly = false ->
  lenN data = l_count ly * N.of_nat (l_entry_size ly) ->
  lenN data + 4 <= so_off so ->                               (* the data lie inside the pack, before the tail *)
  placed f (base + so_off so - lenN data - 4) data ->
  run f (dp_entry_store_p dp (N.of_nat k)) = Ok (ly, data).
Proof.
  intros Hk Wso Ssz Tl Pl Ck Ld Fit Dat.
  destruct P as [Wh Kd Hd Wdh Dhd Nv Ne Ni Vp Ep Ip].
  assert (Ik : (k < length eptrs)%nat) by (apply nth_error_Some; congruence).
  unfold dp_entry_store_p. cbn [dp dp_dh dp_eptrs dp_base].
  replace (dh_entry_count dh <=? N.of_nat k) with false by (symmetry; apply N.leb_gt; lia).
  unfold ptr_at. rewrite (ptr_table_nth eptrs k so Hk).
  rewrite <- (app_nil_r (ser_sized_offset so)), (p_sized_offset_ser so [] Wso). cbn [lift pbind run].
  unfold placed in Tl. rewrite <- Ssz in Tl. rewrite Tl. rewrite Pl. cbn [lift pbind run].
  rewrite Ck. cbv zeta. rewrite <- Ld.
  replace (so_off so <? lenN data + 4) with false by (symmetry; apply N.ltb_ge; exact Fit).
  unfold placed in Dat. cbn [pbind run]. rewrite Dat. cbn [pbind run]. reflexivity.
Qed.

(* a value store whose tail and data lie where its pointer says *)
Theorem value_store_at k so tail t data :
  nth_error vptrs k = Some so -> wf_sized_offset so ->
  so_size so = lenN tail -> placed f (base + so_off so) tail ->
  parse_all p_vs_tail tail = Ok t ->
  lenN data = match t with VTPlain sz | VTIndexed _ sz => sz end ->
  lenN data + 4 <= so_off so -> placed f (base + so_off so - lenN data - 4) data ->
  run f (dp_value_store_p dp (N.of_nat k)) =
    Ok (match t with VTPlain _ => VSPlain data | VTIndexed offs _ => VSIndexed offs data end).
Proof.
  intros Hk Wso Ssz Tl Pl Ld Fit Dat.
  destruct P as [Wh Kd Hd Wdh Dhd Nv Ne Ni Vp Ep Ip].
  assert (Ik : (k < length vptrs)%nat) by (apply nth_error_Some; congruence).
  unfold dp_value_store_p. cbn [dp dp_dh dp_vptrs dp_base].
  replace (dh_value_count dh <=? N.of_nat k) with false by (symmetry; apply N.leb_gt; lia).
  unfold ptr_at. rewrite (ptr_table_nth vptrs k so Hk).
  rewrite <- (app_nil_r (ser_sized_offset so)), (p_sized_offset_ser so [] Wso). cbn [lift pbind run].
  unfold vstore_at_p. cbn [pbind run].
  unfold placed in Tl. rewrite <- Ssz in Tl. rewrite Tl. rewrite Pl. cbn [lift pbind run].
  unfold placed in Dat.
  destruct t as [sz|offs sz]; rewrite <- Ld;
    (replace (so_off so <? lenN data + 4) with false by (symmetry; apply N.ltb_ge; exact Fit));
    cbn [pbind run]; rewrite Dat; cbn [pbind run]; reflexivity.
Qed.

(* an index header lying where its pointer says *)
Theorem index_at k so ih :
  nth_error iptrs k = Some so -> wf_sized_offset so ->
  ix_store ih < 2 ^ 32 -> ix_count ih < 2 ^ 32 -> ix_offset ih < 2 ^ 32 -> length (ix_free ih) = 4%nat ->
  ix_prop ih < 256 -> wf_name (ix_name ih) ->
  so_size so = lenN (ser_index_header ih) -> placed f (base + so_off so) (ser_index_header ih) ->
  run f (dp_index_p dp (N.of_nat k)) = Ok ih.
Proof.
  intros Hk Wso H1 H2 H3 H4 H5 H6 Ssz Pl.
  unfold dp_index_p. cbn [dp dp_iptrs dp_base].
  unfold ptr_at. rewrite (ptr_table_nth iptrs k so Hk).
  rewrite <- (app_nil_r (ser_sized_offset so)), (p_sized_offset_ser so [] Wso). cbn [lift pbind run].
  unfold placed in Pl. rewrite <- Ssz in Pl. rewrite Pl.
  rewrite (parse_all_ser p_index_header ser_index_header ih (p_index_header_ser ih [] H1 H2 H3 H4 H5 H6)). reflexivity.
Qed.
End Read.

(* ---- value store tails as the writer emits them ---- *)
Definition ser_vs_tail_plain (sz : N) : list N := [0] ++ le_enc 8 sz.
Definition ser_vs_tail_indexed (w : nat) (lens : list N) : list N :=
  [1] ++ le_enc 8 (N.of_nat (length lens)) ++ [N.of_nat w] ++ le_enc w (sumN lens) ++ flat_map (le_enc w) (removelast (ends lens)).

Theorem p_vs_tail_plain sz r : sz < 2 ^ 64 -> p_vs_tail (ser_vs_tail_plain sz ++ r) = Ok (VTPlain sz, r).
Proof.
  intros H. unfold p_vs_tail, ser_vs_tail_plain. cbn [app]. rewrite p_u_1 by lia. cbn [bind N.eqb].
  rewrite p_u_enc by exact H. reflexivity.
Qed.

Theorem p_vs_tail_indexed w lens r :
  (1 <= w <= 8)%nat -> lens <> [] -> N.of_nat (length lens) <= 65535 -> sumN lens < 256 ^ N.of_nat w ->
  p_vs_tail (ser_vs_tail_indexed w lens ++ r) = Ok (VTIndexed (0 :: ends lens) (sumN lens), r).
Proof.
  intros Hw Hne Hlen Hds. unfold p_vs_tail, ser_vs_tail_indexed. cbn [app].
  rewrite p_u_1 by lia. cbn [bind N.eqb Pos.eqb].
  rewrite <- !app_assoc.
  rewrite p_u_enc by (change (256 ^ N.of_nat 8) with (2 ^ 64); lia). cbn [bind app].
  rewrite p_u_1 by lia. cbn [bind].
  replace ((N.of_nat w =? 0) || (8 <? N.of_nat w)) with false
    by (symmetry; apply orb_false_iff; split; [apply N.eqb_neq|apply N.ltb_ge]; lia).
  rewrite !Nat2N.id. rewrite <- ?app_assoc.
  rewrite p_u_enc by assumption. cbn [bind].
  replace (65535 <? N.of_nat (length lens)) with false by (symmetry; apply N.ltb_ge; lia).
  replace (length lens - 1)%nat with (length (removelast (ends lens)))
    by (rewrite removelast_length; unfold ends; now rewrite ends_from_length).
  rewrite p_many_u_enc.
  2:{ apply Forall_forall. intros e He. apply In_removelast in He. unfold ends in He.
      apply ends_from_bound in He. lia. }
  cbn [bind].
  replace (forallb (fun o => o <=? sumN lens) (removelast (ends lens))) with true.
  2:{ symmetry. apply forallb_forall. intros e He. apply In_removelast in He. unfold ends in He.
      apply ends_from_bound in He. apply N.leb_le. lia. }
  cbn [negb].
  replace (N.of_nat (length lens) =? 0) with false by (symmetry; apply N.eqb_neq; destruct lens; [congruence|cbn; lia]).
  assert (E : removelast (ends lens) ++ [sumN lens] = ends lens).
  { unfold ends. replace (sumN lens) with (last (ends_from 0 lens) 0)
      by (rewrite (ends_from_last 0 lens Hne); lia).
    symmetry. apply app_removelast_last. destruct lens; [congruence|discriminate]. }
  rewrite E. reflexivity.
Qed.

(* ---- end to end: what the writer put in a store without variants, read through the file ---- *)
Theorem stored_entries_read_back_through_the_file
  f base h dh vptrs eptrs iptrs store shape (rows : list (list wfield)) k so j row :
  dir_pack_at f base h dh vptrs eptrs iptrs ->
  (* the store's schema and rows, as the writer serialises them *)
  Forall (row_has_shape store shape) rows -> nth_error rows j = Some row ->
  N.of_nat (length rows) < 2 ^ 32 -> (length shape <= 255)%nat -> N.of_nat (psize (map raw_of shape)) < 65536 ->
  Forall wf_wprop shape -> Forall (fun w => match w with WVariantId _ => False | _ => True end) shape ->
  let tail := ser_flat_tail (N.of_nat (length rows)) (psize (map raw_of shape)) shape in
  let data := concat (map (fun r => concat (map ser_field r)) rows) in
  (* where they are in the file *)
  nth_error eptrs k = Some so -> wf_sized_offset so -> so_size so = lenN tail ->
  placed f (base + so_off so) tail -> lenN data + 4 <= so_off so -> placed f (base + so_off so - lenN data - 4) data ->
  exists d ly dat e,
    run f (dp_open_p base) = Ok d /\
    run f (dp_entry_store_p d (N.of_nat k)) = Ok (ly, dat) /\
    entry_bytes ly dat (N.of_nat j) = Some e /\
    read_entry store ly e = (None, shown row).
Proof.
  intros P Hs Hj Hc Hn He Hw Hv tail data Hk Wso Ssz Tl Fit Dat.
  set (ly := flat_layout (N.of_nat (length rows)) shape).
  assert (Pl : parse_all p_layout tail = Ok ly).
  { unfold parse_all. pose proof (flat_layout_parsed (N.of_nat (length rows)) shape [] Hc Hn He Hw Hv) as R.
    rewrite app_nil_r in R. fold tail in R. rewrite R. reflexivity. }
  assert (Ld : lenN data = l_count ly * N.of_nat (l_entry_size ly)).
  { unfold ly, flat_layout. cbn [l_count l_entry_size]. unfold data, lenN.
    assert (Hl : forall r, In r rows -> length (concat (map ser_field r)) = psize (map raw_of shape)).
    { intros r Hr. rewrite Forall_forall in Hs. destruct (Hs r Hr) as [Sr Wr]. rewrite <- Sr. symmetry. apply (psize_fields store). exact Wr. }
    assert (Ln : length (concat (map (fun r => concat (map ser_field r)) rows)) = (length rows * psize (map raw_of shape))%nat).
    { clear - Hl. induction rows as [|r rs IH]; [reflexivity|].
      cbn [map concat length]. rewrite app_length, (Hl r (or_introl eq_refl)), IH by (intros x Hx; apply Hl; right; exact Hx). lia. }
    rewrite Ln. lia. }
  destruct (entry_store_roundtrip store shape rows j row Hs Hj) as (e & He1 & He2).
  eexists _, ly, data, e. split; [exact (dir_open_ok f base h dh vptrs eptrs iptrs P)|].
  split; [|split; [exact He1|exact He2]].
  exact (entry_store_at f base h dh vptrs eptrs iptrs P k so tail ly data Hk Wso Ssz Tl Pl eq_refl Ld Fit Dat).
Qed.
(* ---- the same for a store whose schema has variants ---- *)
Theorem stored_variant_entries_read_back_through_the_file
  f base h dh vptrs eptrs iptrs store common vshapes vsize (rows : list vrow) k so j r :
  dir_pack_at f base h dh vptrs eptrs iptrs ->
  Forall (vrow_has_shape store common vshapes vsize) rows -> nth_error rows j = Some r ->
  N.of_nat (length rows) < 2 ^ 32 -> vshapes <> [] -> (length vshapes <= 255)%nat ->
  (length (common ++ variant_descrs vshapes) <= 255)%nat ->
  N.of_nat (psize (raws common) + 1 + vsize) < 65536 ->
  Forall wf_wprop (common ++ variant_descrs vshapes) -> no_vid common ->
  Forall (fun v => no_vid (snd v) /\ psize (raws (snd v)) = vsize) vshapes ->
  let tail := ser_variant_tail (N.of_nat (length rows)) (psize (raws common) + 1 + vsize) common vshapes in
  let data := concat (map ser_vrow rows) in
  nth_error eptrs k = Some so -> wf_sized_offset so -> so_size so = lenN tail ->
  placed f (base + so_off so) tail -> lenN data + 4 <= so_off so -> placed f (base + so_off so - lenN data - 4) data ->
  exists d ly dat e,
    run f (dp_open_p base) = Ok d /\
    run f (dp_entry_store_p d (N.of_nat k)) = Ok (ly, dat) /\
    entry_bytes ly dat (N.of_nat j) = Some e /\
    read_entry store ly e = (Some (N.of_nat (vr_vid r)), shown (vr_common r) ++ shown (vr_var r)).
Proof.
  intros P Hs Hj Hc Hne Hvn Hn He Hw Hcv Hvs tail data Hk Wso Ssz Tl Fit Dat.
  set (ly := variant_layout (N.of_nat (length rows)) common vshapes vsize).
  assert (Pl : parse_all p_layout tail = Ok ly).
  { unfold parse_all. pose proof (variant_layout_parsed (N.of_nat (length rows)) common vshapes vsize [] Hc Hne Hvn Hn He Hw Hcv Hvs) as R.
    rewrite app_nil_r in R. fold tail in R. rewrite R. reflexivity. }
  assert (Ld : lenN data = l_count ly * N.of_nat (l_entry_size ly)).
  { unfold ly, variant_layout. cbn [l_count l_entry_size]. unfold data, lenN.
    assert (Hl : forall x, In x rows -> length (ser_vrow x) = (psize (raws common) + 1 + vsize)%nat).
    { intros x Hx. rewrite Forall_forall in Hs. exact (ser_vrow_length store _ _ _ _ (Hs x Hx)). }
    assert (Ln : length (concat (map ser_vrow rows)) = (length rows * (psize (raws common) + 1 + vsize))%nat).
    { clear - Hl. induction rows as [|x rs IH]; [reflexivity|].
      cbn [map concat length]. rewrite app_length, (Hl x (or_introl eq_refl)), IH by (intros y Hy; apply Hl; right; exact Hy). lia. }
    rewrite Ln. lia. }
  destruct (variant_entry_store_roundtrip store common vshapes vsize rows j r Hs Hj) as (e & He1 & He2).
  eexists _, ly, data, e. split; [exact (dir_open_ok f base h dh vptrs eptrs iptrs P)|].
  split; [|split; [exact He1|exact He2]].
  exact (entry_store_at f base h dh vptrs eptrs iptrs P k so tail ly data Hk Wso Ssz Tl Pl eq_refl Ld Fit Dat).
Qed.

(* ---- through an index: entry j of an index is entry (offset + j) of the store it names ---- *)
Theorem indexed_entries_read_back_through_the_file
  f base h dh vptrs eptrs iptrs store shape (rows : list (list wfield)) ki iso ih so j row :
  dir_pack_at f base h dh vptrs eptrs iptrs ->
  (* the index *)
  nth_error iptrs ki = Some iso -> wf_sized_offset iso ->
  ix_store ih < 2 ^ 32 -> ix_count ih < 2 ^ 32 -> ix_offset ih < 2 ^ 32 -> length (ix_free ih) = 4%nat ->
  ix_prop ih < 256 -> wf_name (ix_name ih) ->
  so_size iso = lenN (ser_index_header ih) -> placed f (base + so_off iso) (ser_index_header ih) ->
  (* the store it names, as the writer serialises it *)
  Forall (row_has_shape store shape) rows ->
  N.of_nat j < ix_count ih -> nth_error rows (N.to_nat (ix_offset ih) + j) = Some row ->
  N.of_nat (length rows) < 2 ^ 32 -> (length shape <= 255)%nat -> N.of_nat (psize (map raw_of shape)) < 65536 ->
  Forall wf_wprop shape -> Forall (fun w => match w with WVariantId _ => False | _ => True end) shape ->
  let tail := ser_flat_tail (N.of_nat (length rows)) (psize (map raw_of shape)) shape in
  let data := concat (map (fun r => concat (map ser_field r)) rows) in
  nth_error eptrs (N.to_nat (ix_store ih)) = Some so -> wf_sized_offset so -> so_size so = lenN tail ->
  placed f (base + so_off so) tail -> lenN data + 4 <= so_off so -> placed f (base + so_off so - lenN data - 4) data ->
  exists d ly dat e,
    run f (dp_open_p base) = Ok d /\
    run f (dp_index_p d (N.of_nat ki)) = Ok ih /\
    run f (dp_entry_store_p d (ix_store ih)) = Ok (ly, dat) /\
    index_get ih ly dat (N.of_nat j) = Some e /\
    read_entry store ly e = (None, shown row).
Proof.
  intros P Hki Wiso I1 I2 I3 I4 I5 I6 Isz Ipl Hs Hj Hrow Hc Hn He Hw Hv tail data Hk Wso Ssz Tl Fit Dat.
  destruct (stored_entries_read_back_through_the_file f base h dh vptrs eptrs iptrs store shape rows
              (N.to_nat (ix_store ih)) so (N.to_nat (ix_offset ih) + j) row P Hs Hrow Hc Hn He Hw Hv Hk Wso Ssz Tl Fit Dat)
    as (d & ly & dat & e & Ho & Hst & He1 & He2).
  exists d, ly, dat, e.
  assert (Ed : d = {| dp_base := base; dp_header := h; dp_dh := dh;
                      dp_vptrs := ptr_table vptrs; dp_eptrs := ptr_table eptrs; dp_iptrs := ptr_table iptrs |}).
  { pose proof (dir_open_ok f base h dh vptrs eptrs iptrs P) as Ho'. rewrite Ho in Ho'. now injection Ho'. }
  split; [exact Ho|]. split.
  { rewrite Ed. exact (index_at f base h dh vptrs eptrs iptrs ki iso ih Hki Wiso I1 I2 I3 I4 I5 I6 Isz Ipl). }
  split; [rewrite N2Nat.id in Hst; exact Hst|]. split; [|exact He2].
  rewrite index_get_inside by exact Hj.
  replace (ix_offset ih + N.of_nat j) with (N.of_nat (N.to_nat (ix_offset ih) + j)) by lia. exact He1.
Qed.

(* ---- value stores through the file: what the writer put under a key is what the reader gets ---- *)
Theorem plain_value_reads_back_through_the_file f base h dh vptrs eptrs iptrs (vals : list (list N)) k so i v :
  dir_pack_at f base h dh vptrs eptrs iptrs ->
  nth_error vals i = Some v -> lenN (concat vals) < 2 ^ 64 ->
  let tail := ser_vs_tail_plain (lenN (concat vals)) in
  nth_error vptrs k = Some so -> wf_sized_offset so -> so_size so = lenN tail ->
  placed f (base + so_off so) tail -> lenN (concat vals) + 4 <= so_off so ->
  placed f (base + so_off so - lenN (concat vals) - 4) (concat vals) ->
  exists d s, run f (dp_open_p base) = Ok d /\ run f (dp_value_store_p d (N.of_nat k)) = Ok s /\
              vs_get s (lenN (concat (firstn i vals))) (Some (lenN v)) = Ok v.
Proof.
  intros P Hv Hsz tail Hk Wso Ssz Tl Fit Dat.
  assert (Pl : parse_all p_vs_tail tail = Ok (VTPlain (lenN (concat vals)))).
  { unfold parse_all. pose proof (p_vs_tail_plain (lenN (concat vals)) [] Hsz) as R. rewrite app_nil_r in R. fold tail in R. rewrite R. reflexivity. }
  eexists _, (VSPlain (concat vals)). split; [exact (dir_open_ok f base h dh vptrs eptrs iptrs P)|]. split.
  - exact (value_store_at f base h dh vptrs eptrs iptrs P k so tail _ (concat vals) Hk Wso Ssz Tl Pl eq_refl Fit Dat).
  - apply plain_store_get. exact Hv.
Qed.

Theorem indexed_value_reads_back_through_the_file f base h dh vptrs eptrs iptrs (vals : list (list N)) w k so i v :
  dir_pack_at f base h dh vptrs eptrs iptrs ->
  nth_error vals i = Some v ->
  (1 <= w <= 8)%nat -> N.of_nat (length vals) <= 65535 -> lenN (concat vals) < 256 ^ N.of_nat w ->
  let tail := ser_vs_tail_indexed w (map lenN vals) in
  nth_error vptrs k = Some so -> wf_sized_offset so -> so_size so = lenN tail ->
  placed f (base + so_off so) tail -> lenN (concat vals) + 4 <= so_off so ->
  placed f (base + so_off so - lenN (concat vals) - 4) (concat vals) ->
  exists d s, run f (dp_open_p base) = Ok d /\ run f (dp_value_store_p d (N.of_nat k)) = Ok s /\
              vs_get s (N.of_nat i) None = Ok v.
Proof.
  intros P Hv Hw Hn Hsz tail Hk Wso Ssz Tl Fit Dat.
  assert (Hne : map lenN vals <> []) by (destruct vals; [destruct i; discriminate|discriminate]).
  assert (Pl : parse_all p_vs_tail tail = Ok (VTIndexed (0 :: ends (map lenN vals)) (sumN (map lenN vals)))).
  { unfold parse_all.
    pose proof (p_vs_tail_indexed w (map lenN vals) [] Hw Hne ltac:(rewrite map_length; exact Hn) ltac:(rewrite sumN_lens; exact Hsz)) as R.
    rewrite app_nil_r in R. fold tail in R. rewrite R. reflexivity. }
  eexists _, (VSIndexed (0 :: ends (map lenN vals)) (concat vals)). split; [exact (dir_open_ok f base h dh vptrs eptrs iptrs P)|]. split.
  - exact (value_store_at f base h dh vptrs eptrs iptrs P k so tail _ (concat vals) Hk Wso Ssz Tl Pl (eq_sym (sumN_lens vals)) Fit Dat).
  - apply indexed_store_get. exact Hv.
Qed.

Close Scope N_scope.

(* non-vacuity: a complete directory pack file laid out by hand (header, directory header, the entry data of
   EntryStore.v's example, its tail, one entry pointer, two empty tables) satisfies the hypotheses, and its
   second entry reads back through the file *)
Open Scope N_scope.
Definition exd_tail : list N := ser_flat_tail 2 9 ex_shape.
Definition exd_data : list N := concat (map (fun r => concat (map ser_field r)) ex_rows).
Definition exd_pos_tail : N := 128 + lenN exd_data + 4.
Definition exd_so : sized_offset := {| so_size := lenN exd_tail; so_off := exd_pos_tail |}.
Definition exd_pos_eptr : N := exd_pos_tail + lenN exd_tail + 4.
Definition exd_dh : dir_header :=
  {| dh_index_pos := exd_pos_eptr + 16; dh_entry_pos := exd_pos_eptr; dh_value_pos := exd_pos_eptr + 12;
     dh_index_count := 0; dh_entry_count := 1; dh_value_count := 0; dh_free := repeat 0 24 |}.
Definition exd_h : pack_header :=
  {| ph_kind := KDirectory; ph_vendor := [1; 2; 3; 4]; ph_major := 0; ph_minor := 2;
     ph_uuid := [1; 2; 3; 4; 5; 6; 7; 8; 9; 10; 11; 12; 13; 14; 15; 16]; ph_flags := 0;
     ph_size := exd_pos_eptr + 20; ph_check_pos := exd_pos_eptr + 20 |}.
Definition exd_file : list N :=
  mk_block (ser_pack_header exd_h) ++ mk_block (ser_dir_header exd_dh) ++ mk_block exd_data ++ mk_block exd_tail ++
  mk_block (ser_sized_offset exd_so) ++ mk_block [] ++ mk_block [].
Example exd_is_a_directory_pack : dir_pack_at exd_file 0 exd_h exd_dh [] [exd_so] [].
Proof.
  constructor.
  - unfold wf_pack_header. cbn. repeat split; vm_compute; reflexivity.
  - reflexivity.
  - vm_compute. reflexivity.
  - unfold wf_dir_header. repeat split; vm_compute; reflexivity.
  - vm_compute. reflexivity.
  - reflexivity.
  - reflexivity.
  - reflexivity.
  - vm_compute. reflexivity.
  - vm_compute. reflexivity.
  - vm_compute. reflexivity.
Qed.
Example exd_second_entry_reads_back_through_the_file :
  exists d ly dat e,
    run exd_file (dp_open_p 0) = Ok d /\ run exd_file (dp_entry_store_p d 0) = Ok (ly, dat) /\
    entry_bytes ly dat 1 = Some e /\
    read_entry ex_store ly e =
      (None, [([97], Ok (VUnsigned 65535)); ([98], Ok (VSigned 127)); ([107], Ok (VUnsigned 7)); ([99], Ok (VContent 1 0));
              ([115], Ok (VArray [120]))]).
Proof.
  refine (stored_entries_read_back_through_the_file exd_file 0 exd_h exd_dh [] [exd_so] [] ex_store ex_shape ex_rows
            0%nat exd_so 1%nat _ exd_is_a_directory_pack ex_rows_have_the_shape eq_refl _ _ _ _ _ eq_refl _ eq_refl _ _ _).
  - vm_compute. reflexivity.
  - cbn. lia.
  - vm_compute. reflexivity.
  - repeat constructor; cbn; lia.
  - repeat constructor.
  - unfold wf_sized_offset. split; vm_compute; reflexivity.
  - vm_compute. reflexivity.
  - vm_compute. discriminate.
  - vm_compute. reflexivity.
Qed.
Close Scope N_scope.

