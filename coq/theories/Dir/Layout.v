(* Directory pack, reader side: property descriptors (reader/directory_pack/raw_layout.rs
   RawProperty::parse), entry layout with variants (layout/mod.rs Layout::parse, after the repair of
   D5), value stores (value_store.rs), index headers (index.rs), value extraction
   (builder/property.rs), written as parsers / reader programs over bytes. *)
From Coq Require Import List Arith NArith ZArith Bool Lia.
From Jbk Require Import Base.ListExtra Base.Bytes Base.Crc Base.Parser Base.Utf8 Base.Prog Format.Structs
  Manifest.SetLocation Content.Pack.
Import ListNotations.
Open Scope N_scope.

(* ---- property descriptors ---- *)
Inductive pkind :=
| KPadding
| KContent (pack_size content_size : nat) (default_pack : option N)
| KUInt (size : nat) (default : option N)
| KSInt (size : nat) (default : option Z)
| KArray (len_size : option nat) (fixed : nat) (deported : option (nat * N))   (* key size, store idx *)
         (default : option (N * list N * option N))
| KVariantId.

Record rawprop := { rp_size : nat; rp_name : list N; rp_kind : pkind }.

(* PString::parse: a length byte, the bytes, which must be well-formed UTF-8 (SmallString::from_byte_vec) *)
Definition p_pstring : parser (list N) :=
  fun l => '(n, l) <- p_u 1 l ;; '(s, l) <- p_bytes (N.to_nat n) l ;;
           if utf8_valid s then Ok (s, l) else Err EFormat.

Definition p_signed (n : nat) : parser Z :=
  fun l => '(v, l) <- p_u n l ;; Ok (sext n v, l).

(* RawProperty::parse *)
Definition p_rawprop : parser rawprop :=
  fun l =>
    '(info, l) <- p_u 1 l ;;
    let ty := info / 16 in
    let data := info mod 16 in
    if ty =? 0 then Ok ({| rp_size := S (N.to_nat data); rp_name := []; rp_kind := KPadding |}, l)
    else if ty =? 1 then
      let ps := S (N.to_nat ((data / 4) mod 2)) in
      let cs := S (N.to_nat (data mod 4)) in
      if 8 <=? data then
        '(d, l) <- p_u ps l ;; '(name, l) <- p_pstring l ;;
        Ok ({| rp_size := cs; rp_name := name; rp_kind := KContent ps cs (Some (d mod 65536)) |}, l)
      else
        '(name, l) <- p_pstring l ;;
        Ok ({| rp_size := (cs + ps)%nat; rp_name := name; rp_kind := KContent ps cs None |}, l)
    else if (ty =? 2) || (ty =? 3) then
      let sz := S (N.to_nat (data mod 8)) in
      if 8 <=? data then
        if ty =? 2 then
          '(d, l) <- p_u sz l ;; '(name, l) <- p_pstring l ;;
          Ok ({| rp_size := 0; rp_name := name; rp_kind := KUInt sz (Some d) |}, l)
        else
          '(d, l) <- p_signed sz l ;; '(name, l) <- p_pstring l ;;
          Ok ({| rp_size := 0; rp_name := name; rp_kind := KSInt sz (Some d) |}, l)
      else
        '(name, l) <- p_pstring l ;;
        Ok ({| rp_size := sz; rp_name := name; rp_kind := if ty =? 2 then KUInt sz None else KSInt sz None |}, l)
    else if ty =? 5 then
      let ls := N.to_nat (data mod 4) in
      let len_size := if (ls =? 0)%nat then None else Some ls in
      '(c, l) <- p_u 1 l ;;
      let fixed := N.to_nat (c mod 32) in
      let ks := N.to_nat (c / 32) in
      '(dep, l) <- (if (ks =? 0)%nat then Ok (None, l)
                    else '(si, l) <- p_u 1 l ;; Ok (Some (ks, si), l)) ;;
      if 8 <=? data then
        match len_size with
        | None => Err EFormat                     (* the Rust unwraps None here *)
        | Some lsz =>
            '(sz, l) <- p_u lsz l ;;
            '(base, l) <- p_bytes fixed l ;;
            '(kid, l) <- (if (ks =? 0)%nat then Ok (None, l) else '(k, l) <- p_u ks l ;; Ok (Some k, l)) ;;
            '(name, l) <- p_pstring l ;;
            Ok ({| rp_size := 0; rp_name := name; rp_kind := KArray len_size fixed dep (Some (sz, base, kid)) |}, l)
        end
      else
        '(name, l) <- p_pstring l ;;
        Ok ({| rp_size := (ls + fixed + ks)%nat; rp_name := name; rp_kind := KArray len_size fixed dep None |}, l)
    else if ty =? 8 then
      '(name, l) <- p_pstring l ;;
      Ok ({| rp_size := 1; rp_name := name; rp_kind := KVariantId |}, l)
    else Err EFormat.     (* deported integers (0xA0/0xB0) are never written by the creator: not modelled *)

Definition is_variant_id (p : rawprop) : bool :=
  match rp_kind p with KVariantId => true | _ => false end.

(* ---- layout: offsets assigned, variants delimited ---- *)
Record prop := { pr_off : nat; pr_name : list N; pr_kind : pkind }.

(* layout/properties.rs Properties::new: offsets accumulate; paddings are dropped *)
Fixpoint place (off : nat) (ps : list rawprop) : list prop :=
  match ps with
  | [] => []
  | p :: ps =>
      let rest := place (off + rp_size p)%nat ps in
      match rp_kind p with
      | KPadding | KVariantId => rest
      | k => {| pr_off := off; pr_name := rp_name p; pr_kind := k |} :: rest
      end
  end.
Definition psize (ps : list rawprop) : nat := fold_right (fun p n => rp_size p + n)%nat 0%nat ps.

Record layout := { l_count : N; l_checked : bool; l_entry_size : nat; l_common : list prop;
                   l_variants : option (nat * list (list N * list prop)) }.   (* variant-id offset, variants *)

Fixpoint split_common (ps : list rawprop) : list rawprop * list rawprop :=
  match ps with
  | [] => ([], [])
  | p :: rest => if is_variant_id p then ([], ps)
                 else let (c, v) := split_common rest in (p :: c, v)
  end.

(* the repaired delimiting: a variant runs from its VariantId to the next one (or the end) and its
   size must be the size of the variant part *)
Fixpoint split_variants (vsize : nat) (cur : option (list N * list rawprop)) (ps : list rawprop)
  : res (list (list N * list rawprop)) :=
  match ps with
  | [] => match cur with
          | None => Ok []
          | Some (name, def) => if (psize (rev def) =? vsize)%nat then Ok [(name, rev def)] else Err EFormat
          end
  | p :: ps =>
      if is_variant_id p then
        match cur with
        | None => split_variants vsize (Some (rp_name p, [])) ps
        | Some (name, def) =>
            if (psize (rev def) =? vsize)%nat then
              rest <- split_variants vsize (Some (rp_name p, [])) ps ;; Ok ((name, rev def) :: rest)
            else Err EFormat
        end
      else
        match cur with
        | None => Err EFormat
        | Some (name, def) =>
            if (vsize <? psize (rev (p :: def)))%nat then Err EFormat
            else split_variants vsize (Some (name, p :: def)) ps
        end
  end.

(* the pinned reader closed a variant as soon as its size was reached (defect D5) *)
Fixpoint split_variants_pinned (vsize : nat) (cur : option (list N * list rawprop)) (ps : list rawprop)
  : res (list (list N * list rawprop)) :=
  match ps with
  | [] => match cur with Some (_, _ :: _) => Err EFormat | _ => Ok [] end
  | p :: ps =>
      if is_variant_id p then
        match cur with
        | None => split_variants_pinned vsize (Some (rp_name p, [])) ps
        | Some _ => Err EFormat
        end
      else
        match cur with
        | None => Err EFormat
        | Some (name, def) =>
            let sz := psize (rev (p :: def)) in
            if (vsize <? sz)%nat then Err EFormat
            else if (sz =? vsize)%nat then
              rest <- split_variants_pinned vsize None ps ;; Ok ((name, rev (p :: def)) :: rest)
            else split_variants_pinned vsize (Some (name, p :: def)) ps
        end
  end.

Definition build_layout (split : nat -> option (list N * list rawprop) -> list rawprop -> res (list (list N * list rawprop)))
  (count : N) (flag : N) (entry_size : nat) (variant_count : N) (raw : list rawprop) : res layout :=
  let (common, rest) := split_common raw in
  let csize := psize common in
  if variant_count =? 0 then
    Ok {| l_count := count; l_checked := N.odd flag; l_entry_size := entry_size;
          l_common := place 0 common; l_variants := None |}
  else
    let csize1 := (csize + 1)%nat in
    if (entry_size <? csize1)%nat then Err EFormat else
    vs <- split (entry_size - csize1)%nat None rest ;;
    if negb (N.of_nat (length vs) =? variant_count) then Err EFormat else
    Ok {| l_count := count; l_checked := N.odd flag; l_entry_size := entry_size;
          l_common := place 0 common;
          l_variants := Some (csize, map (fun v => (fst v, place csize1 (snd v))) vs) |}.

(* entry store tail: kind byte 0, Layout::parse *)
Definition p_layout_with split : parser layout :=
  fun l =>
    '(kind, l) <- p_u 1 l ;;
    if negb (kind =? 0) then Err EFormat else
    '(count, l) <- p_u 4 l ;;
    '(flag, l) <- p_u 1 l ;;
    '(esize, l) <- p_u 2 l ;;
    '(vcount, l) <- p_u 1 l ;;
    '(pcount, l) <- p_u 1 l ;;
    '(raw, l) <- p_many (N.to_nat pcount) p_rawprop l ;;
    ly <- build_layout split count flag (N.to_nat esize) vcount raw ;;
    Ok (ly, l).
Definition p_layout := p_layout_with split_variants.

(* ---- value stores ---- *)
Inductive vstore := VSPlain (data : list N) | VSIndexed (offs : list N) (data : list N).

Definition vs_get (s : vstore) (id : N) (size : option N) : res (list N) :=
  match s with
  | VSPlain data =>
      match size with
      | None => Err EFormat                          (* the Rust panics: unsized access to a plain store *)
      | Some sz => if id + sz <=? lenN data then Ok (subN id sz data) else Err EOob
      end
  | VSIndexed offs data =>
      if N.of_nat (length offs) <=? id + 1 then Err EFormat else
      let start := nth (N.to_nat id) offs 0 in
      let sz := match size with Some sz => sz | None => nth (S (N.to_nat id)) offs 0 - start end in
      if start + sz <=? lenN data then Ok (subN start sz data) else Err EOob
  end.

Inductive vs_tail := VTPlain (size : N) | VTIndexed (offs : list N) (size : N).
Definition p_vs_tail : parser vs_tail :=
  fun l =>
    '(kind, l) <- p_u 1 l ;;
    if kind =? 0 then '(sz, l) <- p_u 8 l ;; Ok (VTPlain sz, l)
    else if kind =? 1 then
      '(cnt, l) <- p_u 8 l ;;
      '(w, l) <- p_u 1 l ;;
      if (w =? 0) || (8 <? w) then Err EFormat else
      '(dsz, l) <- p_u (N.to_nat w) l ;;
      if 65535 <? cnt then Err EFormat else         (* the offsets are in the tail, at most 65535 bytes long *)
      '(offs, l) <- p_many (N.to_nat cnt - 1)%nat (p_u (N.to_nat w)) l ;;
      if negb (forallb (fun o => o <=? dsz) offs) then Err EFormat else   (* every offset lies inside the store data *)
      Ok (VTIndexed (if cnt =? 0 then [dsz] else 0 :: offs ++ [dsz]) dsz, l)
    else Err EFormat.

(* ---- index header ---- *)
Record index_header := { ix_store : N; ix_count : N; ix_offset : N; ix_free : list N; ix_prop : N; ix_name : list N }.
Definition p_index_header : parser index_header :=
  fun l =>
    '(s, l) <- p_u 4 l ;; '(c, l) <- p_u 4 l ;; '(o, l) <- p_u 4 l ;; '(fd, l) <- p_bytes 4 l ;;
    '(ip, l) <- p_u 1 l ;; '(name, l) <- p_pstring l ;;
    Ok ({| ix_store := s; ix_count := c; ix_offset := o; ix_free := fd; ix_prop := ip; ix_name := name |}, l).

(* ---- DirectoryPackHeader (60 + CRC) ---- *)
Record dir_header := { dh_index_pos : N; dh_entry_pos : N; dh_value_pos : N;
                       dh_index_count : N; dh_entry_count : N; dh_value_count : N; dh_free : list N }.
Definition p_dir_header : parser dir_header :=
  fun l =>
    '(a, l) <- p_u 8 l ;; '(b, l) <- p_u 8 l ;; '(c, l) <- p_u 8 l ;;
    '(d, l) <- p_u 4 l ;; '(e, l) <- p_u 4 l ;; '(f, l) <- p_u 1 l ;;
    '(_, l) <- p_skip 3 l ;; '(fd, l) <- p_bytes 24 l ;;
    Ok ({| dh_index_pos := a; dh_entry_pos := b; dh_value_pos := c; dh_index_count := d;
           dh_entry_count := e; dh_value_count := f; dh_free := fd |}, l).

(* ---- values ---- *)
Inductive value :=
| VUnsigned (v : N) | VSigned (v : Z) | VContent (pack content : N) | VArray (bytes : list N).

(* builder/property.rs: value of property [p] in the entry bytes [e]; [store k] gives value store k *)
Definition read_value (store : N -> res vstore) (e : list N) (p : prop) : res value :=
  let off := pr_off p in
  match pr_kind p with
  | KUInt sz None => Ok (VUnsigned (le_val (sub off sz e)))
  | KUInt _ (Some d) => Ok (VUnsigned d)
  | KSInt sz None => Ok (VSigned (sext sz (le_val (sub off sz e))))
  | KSInt _ (Some d) => Ok (VSigned d)
  | KContent ps cs None =>
      Ok (VContent (le_val (sub off ps e) mod 65536) (le_val (sub (off + ps)%nat cs e)))
  | KContent ps cs (Some d) => Ok (VContent d (le_val (sub off cs e)))
  | KArray len_size fixed dep dflt =>
      let '(size, base, kid) :=
        match dflt with
        | Some (sz, base, kid) => (Some sz, base, kid)
        | None =>
            let ls := match len_size with Some n => n | None => 0%nat end in
            (match len_size with Some n => Some (le_val (sub off n e)) | None => None end,
             sub (off + ls)%nat fixed e,
             match dep with Some (ks, _) => Some (le_val (sub (off + ls + fixed)%nat ks e)) | None => None end)
        end in
      (* Array::new: base_len = min(size, fixed) *)
      let base_len := match size with Some s => N.min s (N.of_nat fixed) | None => N.of_nat fixed end in
      let head := firstn (N.to_nat base_len) base in
      match dep, kid with
      | Some (_, si), Some id =>
          s <- store si ;;
          ext <- vs_get s id (match size with Some sz => Some (sz - base_len) | None => None end) ;;
          Ok (VArray (head ++ ext))
      | _, _ => Ok (VArray head)
      end
  | KPadding | KVariantId => Err EFormat
  end.

(* ---- the directory pack reader ---- *)
Open Scope prog_scope.
Record dpack := { dp_base : N; dp_header : pack_header; dp_dh : dir_header;
                  dp_vptrs : list N; dp_eptrs : list N; dp_iptrs : list N }.

Definition dp_open_p (base : N) : prog dpack :=
  h <~ read_header_p base ;;
  if negb (kind_eqb (ph_kind h) KDirectory) then Fail EFormat else
  dh <~ RdBlock (base + 64) 60 (fun b => lift (parse_all p_dir_header b)) ;;
  vp <~ RdBlock (base + dh_value_pos dh) (8 * dh_value_count dh) (fun b => Ret b) ;;
  ep <~ RdBlock (base + dh_entry_pos dh) (8 * dh_entry_count dh) (fun b => Ret b) ;;
  ip <~ RdBlock (base + dh_index_pos dh) (8 * dh_index_count dh) (fun b => Ret b) ;;
  Ret {| dp_base := base; dp_header := h; dp_dh := dh; dp_vptrs := vp; dp_eptrs := ep; dp_iptrs := ip |}.

Definition ptr_at (tab : list N) (k : N) : prog sized_offset :=
  '(so, _) <~ lift (p_sized_offset (subN (8 * k) 8 tab)) ;; Ret so.

Definition dp_index_p (d : dpack) (k : N) : prog index_header :=
  so <~ ptr_at (dp_iptrs d) k ;;
  RdBlock (dp_base d + so_off so) (so_size so) (fun b => lift (parse_all p_index_header b)).

(* EntryStore: tail, then the entry data block (count * entry_size bytes + CRC) just before it *)
Definition dp_entry_store_p (d : dpack) (k : N) : prog (layout * list N) :=
  if dh_entry_count (dp_dh d) <=? k then Fail EFormat else
  so <~ ptr_at (dp_eptrs d) k ;;
  ly <~ RdBlock (dp_base d + so_off so) (so_size so) (fun b => lift (parse_all p_layout b)) ;;
  if l_checked ly then Fail EFormat else              (* per-entry CRC: never written *)
  let dsize := l_count ly * N.of_nat (l_entry_size ly) in
  if so_off so <? dsize + 4 then Fail EFormat else     (* the entry data fit before the tail, inside the pack *)
  data <~ RdBlock (dp_base d + so_off so - dsize - 4) dsize (fun b => Ret b) ;;
  Ret (ly, data).

(* Reader::parse_data_block::<ValueStore>: the tail block, then the data block just before it *)
Definition vstore_at_p (base : N) (so : sized_offset) : prog vstore :=
  t <~ RdBlock (base + so_off so) (so_size so) (fun b => lift (parse_all p_vs_tail b)) ;;
  match t with
  | VTPlain sz =>
      if so_off so <? sz + 4 then Fail EFormat else     (* the store data fit before the tail, inside the pack *)
      data <~ RdBlock (base + so_off so - sz - 4) sz (fun b => Ret b) ;; Ret (VSPlain data)
  | VTIndexed offs sz =>
      if so_off so <? sz + 4 then Fail EFormat else
      data <~ RdBlock (base + so_off so - sz - 4) sz (fun b => Ret b) ;; Ret (VSIndexed offs data)
  end.

Definition dp_value_store_p (d : dpack) (k : N) : prog vstore :=
  if dh_value_count (dp_dh d) <=? k then Fail EFormat else
  so <~ ptr_at (dp_vptrs d) k ;;
  vstore_at_p (dp_base d) so.
Close Scope prog_scope.

(* entry j of a store: (variant id, [(name, value)]) *)
Definition entry_bytes (ly : layout) (data : list N) (j : N) : option (list N) :=
  if l_count ly <=? j then None
  else Some (sub (N.to_nat j * l_entry_size ly)%nat (l_entry_size ly) data).

Definition read_props (store : N -> res vstore) (e : list N) (ps : list prop) : list (list N * res value) :=
  map (fun p => (pr_name p, read_value store e p)) ps.

Definition read_entry (store : N -> res vstore) (ly : layout) (e : list N)
  : option N * list (list N * res value) :=
  match l_variants ly with
  | None => (None, read_props store e (l_common ly))
  | Some (vo, variants) =>
      let vid := le_val (sub vo 1 e) in
      (Some vid, read_props store e (l_common ly) ++
                 match nth_error variants (N.to_nat vid) with
                 | Some (_, ps) => read_props store e ps
                 | None => []
                 end)
  end.
Close Scope N_scope.

(* RangeTrait::get_entry (reader/…/range.rs:17): an index exposes the window [offset, offset+count) of its store *)
Definition index_get (ih : index_header) (ly : layout) (data : list N) (j : N) : option (list N) :=
  if (ix_count ih <=? j)%N then None else entry_bytes ly data (ix_offset ih + j)%N.

Lemma index_get_outside ih ly data j : (ix_count ih <= j)%N -> index_get ih ly data j = None.
Proof. intros H. unfold index_get. now replace (ix_count ih <=? j)%N with true by (symmetry; now apply N.leb_le). Qed.
Lemma index_get_inside ih ly data j : (j < ix_count ih)%N ->
  index_get ih ly data j = entry_bytes ly data (ix_offset ih + j)%N.
Proof. intros H. unfold index_get. now replace (ix_count ih <=? j)%N with false by (symmetry; now apply N.leb_gt). Qed.
Lemma entry_bytes_outside ly data j : (l_count ly <= j)%N -> entry_bytes ly data j = None.
Proof. intros H. unfold entry_bytes. now replace (l_count ly <=? j)%N with true by (symmetry; now apply N.leb_le). Qed.
