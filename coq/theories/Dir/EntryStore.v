(* C02 at entry-store level, for schemas without variants: the writer's layout descriptors and entry
   bytes, parsed and read by the reader model, give back every value of every entry.
     descriptors  --p_layout-->  layout  (offsets assigned by [place])
     entry j      = bytes [j * entry_size, +entry_size) of the data block
     value        = read_value at the property's offset
   Fields: unsigned / signed integers, content addresses, each either stored in the entry or constant
   (stored once in the descriptor, zero bytes in the entry), arrays (length + inline prefix + id of the
   rest in a value store; or the whole value in an indexed store) and padding.  Schemas with variants
   are composed in EntryStoreVariants.v. *)
From Coq Require Import List Arith NArith ZArith Bool Lia ZifyN ZifyBool ZifyNat.
From Jbk Require Import Base.ListExtra Base.Bytes Base.Parser Base.Utf8 Format.Structs Content.Pack Dir.Layout Dir.Descr Dir.Values.
Import ListNotations.
Ltac Zify.zify_post_hook ::= Z.div_mod_to_equations.
Open Scope N_scope.

(* one written field: its descriptor and the value written in this entry *)
Inductive wfield :=
| FUInt (size : nat) (name : list N) (v : N)
| FUConst (size : nat) (name : list N) (d : N)
| FSInt (size : nat) (name : list N) (z : Z)
| FSConst (size : nat) (name : list N) (d : Z)
| FContent (cs ps : nat) (name : list N) (pack content : N)
| FArray (ls fixed ks : nat) (si : N) (name : list N) (bytes : list N) (id : N)   (* length, inline prefix, id of the rest *)
| FIndirect (ks : nat) (si : N) (name : list N) (bytes : list N) (id : N)          (* whole value in store si *)
| FPad (size : nat).

Definition wprop_of (f : wfield) : wprop :=
  match f with
  | FUInt size name _ => WUInt size None name
  | FUConst size name d => WUInt size (Some d) name
  | FSInt size name _ => WSInt size None name
  | FSConst size name d => WSInt size (Some d) name
  | FContent cs ps name _ _ => WContent cs ps None name
  | FArray ls fixed ks si name _ _ => WArray (Some ls) fixed (Some (ks, si)) name
  | FIndirect ks si name _ _ => WArray None 0 (Some (ks, si)) name
  | FPad size => WPadding size
  end.
Definition ser_field (f : wfield) : list N :=
  match f with
  | FUInt size _ v => ser_uint size None v
  | FUConst _ _ _ => []
  | FSInt size _ z => ser_sint size None z
  | FSConst _ _ _ => []
  | FContent cs ps _ pack content => ser_content ps cs None pack content
  | FArray ls fixed ks si _ bytes id => ser_array (Some ls) fixed (Some (ks, si)) (lenN bytes) (firstn fixed bytes) id
  | FIndirect ks si _ _ id => ser_array None 0 (Some (ks, si)) 0 [] id
  | FPad size => zerosN size
  end.
Definition value_of (f : wfield) : option (list N * value) :=
  match f with
  | FUInt _ name v | FUConst _ name v => Some (name, VUnsigned v)
  | FSInt _ name z | FSConst _ name z => Some (name, VSigned z)
  | FContent _ _ name pack content => Some (name, VContent pack content)
  | FArray _ _ _ _ name bytes _ | FIndirect _ _ name bytes _ => Some (name, VArray bytes)
  | FPad _ => None
  end.
(* the value fits the width of its column (what the creator's column statistics guarantee: Values.v *_width_fits);
   for an array, the value store named by the column holds the rest of the value under the recorded id *)
Definition wf_field (store : N -> res vstore) (f : wfield) : Prop :=
  match f with
  | FUInt size _ v => v < 256 ^ N.of_nat size
  | FSInt size _ z => (0 < size)%nat /\ fits_signed size z
  | FContent cs ps _ pack content => pack < 256 ^ N.of_nat ps /\ pack < 65536 /\ content < 256 ^ N.of_nat cs
  | FArray ls fixed ks si _ bytes id =>
      lenN bytes < 256 ^ N.of_nat ls /\ id < 256 ^ N.of_nat ks /\
      exists s, store si = Ok s /\ vs_get s id (Some (lenN bytes - N.min (lenN bytes) (N.of_nat fixed))) = Ok (skipn fixed bytes)
  | FIndirect ks si _ bytes id =>
      id < 256 ^ N.of_nat ks /\ exists s, store si = Ok s /\ vs_get s id None = Ok bytes
  | _ => True
  end.

Lemma ser_field_length store f : wf_field store f -> length (ser_field f) = rp_size (raw_of (wprop_of f)).
Proof.
  destruct f; cbn [ser_field wprop_of raw_of rp_size wp_size opt_nat]; intros W;
    unfold ser_uint, ser_sint, ser_content, ser_array;
    rewrite ?app_length, ?le_enc_length, ?zerosN_length, ?firstn_length; cbn [length]; reflexivity || lia.
Qed.

Definition shown (fs : list wfield) : list (list N * res value) :=
  flat_map (fun f => match value_of f with Some (n, v) => [(n, Ok v)] | None => [] end) fs.

Section Entry.
Variable store : N -> res vstore.

Lemma read_props_cons e p ps : read_props store e (p :: ps) = (pr_name p, read_value store e p) :: read_props store e ps.
Proof. reflexivity. Qed.

(* every field of an entry reads back, whatever precedes and follows the entry in the data block *)
Theorem fields_roundtrip fs : forall pre post, Forall (wf_field store) fs ->
  read_props store (pre ++ concat (map ser_field fs) ++ post) (place (length pre) (map (fun f => raw_of (wprop_of f)) fs))
  = shown fs.
Proof.
  induction fs as [|f fs IH]; intros pre post W; [reflexivity|].
  inversion W as [|? ? Wf Wfs]; subst. cbn [map concat place shown flat_map].
  rewrite <- (ser_field_length store f Wf).
  assert (Rest : read_props store (pre ++ (ser_field f ++ concat (map ser_field fs)) ++ post)
                   (place (length pre + length (ser_field f)) (map (fun f0 => raw_of (wprop_of f0)) fs)) = shown fs).
  { rewrite <- app_assoc. rewrite (app_assoc pre (ser_field f)). rewrite <- app_length. apply IH. exact Wfs. }
  fold (shown fs).
  destruct f as [size name v|size name d|size name z|size name d|cs ps name pack content|ls fixed ks si name bytes id|ks si name bytes id|size];
    cbn [wprop_of raw_of rp_kind rp_name value_of app]; rewrite ?read_props_cons, Rest; cbn [pr_name]; try reflexivity.
  - (* unsigned *) f_equal. f_equal. rewrite <- !app_assoc.
    exact (uint_roundtrip store pre (concat (map ser_field fs) ++ post) size v name Wf).
  - (* signed *) f_equal. f_equal. rewrite <- !app_assoc. destruct Wf as [Ws Wz].
    exact (sint_roundtrip store pre (concat (map ser_field fs) ++ post) size z name Ws Wz).
  - (* content address *) f_equal. f_equal. rewrite <- !app_assoc. destruct Wf as (W1 & W2 & W3).
    exact (content_roundtrip store pre (concat (map ser_field fs) ++ post) ps cs pack content name W1 W2 W3).
  - (* array: length, inline prefix, rest from the value store *) f_equal. f_equal. rewrite <- !app_assoc.
    destruct Wf as (W1 & W2 & s & W3 & W4).
    exact (array_roundtrip store pre (concat (map ser_field fs) ++ post) ls fixed ks si bytes id name s W1 W2 W3 W4).
  - (* indirect array *) f_equal. f_equal. rewrite <- !app_assoc.
    destruct Wf as (W1 & s & W2 & W3).
    exact (indirect_array_roundtrip store pre (concat (map ser_field fs) ++ post) ks si bytes id name s W1 W2 W3).
Qed.
End Entry.

(* ---- the data block: entry j is the j-th slice ---- *)
Lemma sub_concat_fixed {B} (ser : B -> list N) w (rows : list B) : (forall r, In r rows -> length (ser r) = w) ->
  forall j r, nth_error rows j = Some r ->
    exists pre post, concat (map ser rows) = pre ++ ser r ++ post /\ length pre = (j * w)%nat.
Proof.
  induction rows as [|x rows IH]; intros Hw [|j] r H; cbn [nth_error] in H; try discriminate.
  - injection H as ->. exists [], (concat (map ser rows)). split; reflexivity.
  - destruct (IH (fun r0 Hr => Hw r0 (or_intror Hr)) j r H) as (pre & post & E & L).
    exists (ser x ++ pre), post. cbn [map concat]. rewrite E, <- app_assoc. split; [reflexivity|].
    rewrite app_length, L, (Hw x (or_introl eq_refl)). lia.
Qed.

(* a flat layout as the reader builds it from the descriptors *)
Definition flat_layout (count : N) (shape : list wprop) : layout :=
  {| l_count := count; l_checked := false; l_entry_size := psize (map raw_of shape);
     l_common := place 0 (map raw_of shape); l_variants := None |}.

Definition row_has_shape (store : N -> res vstore) (shape : list wprop) (row : list wfield) : Prop :=
  map wprop_of row = shape /\ Forall (wf_field store) row.

Lemma psize_fields store row : Forall (wf_field store) row ->
  psize (map raw_of (map wprop_of row)) = length (concat (map ser_field row)).
Proof.
  induction 1 as [|f row Wf W IH]; [reflexivity|]. cbn [map psize fold_right concat].
  fold (psize (map raw_of (map wprop_of row))). rewrite app_length, IH, (ser_field_length store f Wf). reflexivity.
Qed.

(* EVERY entry of a store written with a flat schema reads back with exactly the values it was given *)
Theorem entry_store_roundtrip store shape (rows : list (list wfield)) j row :
  Forall (row_has_shape store shape) rows -> nth_error rows j = Some row ->
  let ly := flat_layout (N.of_nat (length rows)) shape in
  let data := concat (map (fun r => concat (map ser_field r)) rows) in
  exists e, entry_bytes ly data (N.of_nat j) = Some e /\ read_entry store ly e = (None, shown row).
Proof.
  intros Hs Hj ly data.
  assert (Hrow : row_has_shape store shape row).
  { rewrite Forall_forall in Hs. apply Hs. eapply nth_error_In; exact Hj. }
  destruct Hrow as [Sh Wr].
  assert (Lj : (j < length rows)%nat) by (apply nth_error_Some; congruence).
  assert (Hw : forall r, In r rows -> length (concat (map ser_field r)) = l_entry_size ly).
  { intros r Hr. rewrite Forall_forall in Hs. destruct (Hs r Hr) as [Sr Wr'].
    unfold ly, flat_layout. cbn [l_entry_size]. rewrite <- Sr. symmetry. apply (psize_fields store). exact Wr'. }
  destruct (sub_concat_fixed (fun r => concat (map ser_field r)) (l_entry_size ly) rows Hw j row Hj) as (pre & post & E & Lp).
  exists (concat (map ser_field row)). split.
  - unfold entry_bytes. cbn [l_count ly flat_layout].
    replace (N.of_nat (length rows) <=? N.of_nat j) with false by (symmetry; apply N.leb_gt; lia).
    f_equal. rewrite Nat2N.id. fold ly. unfold data. rewrite E, <- Lp.
    rewrite <- (Hw row (nth_error_In _ _ Hj)). apply sub_concat.
  - unfold read_entry. cbn [l_variants ly flat_layout l_common]. f_equal.
    rewrite <- Sh.
    pose proof (fields_roundtrip store row [] [] Wr) as R. cbn [app length] in R. rewrite app_nil_r in R.
    rewrite map_map. exact R.
Qed.

(* ---- the descriptors: what the reader's layout parser makes of the writer's tail ---- *)
Definition ser_flat_tail (count : N) (esize : nat) (shape : list wprop) : list N :=
  [0] ++ le_enc 4 count ++ [0] ++ le_enc 2 (N.of_nat esize) ++ [0] ++ [N.of_nat (length shape)] ++ flat_map ser_wprop shape.

Lemma p_many_rawprops shape r : Forall wf_wprop shape ->
  p_many (length shape) p_rawprop (flat_map ser_wprop shape ++ r) = Ok (map raw_of shape, r).
Proof.
  induction 1 as [|w shape Hw Hs IH]; [reflexivity|].
  cbn [length p_many flat_map map]. rewrite <- app_assoc, (p_rawprop_ser w _ Hw). cbn [bind]. rewrite IH. reflexivity.
Qed.

Lemma split_common_flat shape : Forall (fun w => match w with WVariantId _ => False | _ => True end) shape ->
  split_common (map raw_of shape) = (map raw_of shape, []).
Proof.
  induction 1 as [|w shape Hw Hs IH]; [reflexivity|]. cbn [map split_common].
  destruct w; try contradiction; cbn [raw_of is_variant_id rp_kind]; rewrite IH; reflexivity.
Qed.

Theorem flat_layout_parsed count shape r :
  count < 2 ^ 32 -> (length shape <= 255)%nat -> N.of_nat (psize (map raw_of shape)) < 65536 ->
  Forall wf_wprop shape -> Forall (fun w => match w with WVariantId _ => False | _ => True end) shape ->
  p_layout (ser_flat_tail count (psize (map raw_of shape)) shape ++ r) = Ok (flat_layout count shape, r).
Proof.
  intros Hc Hn He Hw Hv. unfold p_layout, p_layout_with, ser_flat_tail. rewrite <- !app_assoc. cbn [app].
  rewrite p_u_1 by lia. cbn [bind N.eqb negb].
  rewrite p_u_enc by exact Hc. cbn [bind app].
  rewrite p_u_1 by lia. cbn [bind].
  rewrite p_u_enc by (change (256 ^ N.of_nat 2) with 65536; exact He). cbn [bind app].
  rewrite p_u_1 by lia. cbn [bind].
  rewrite p_u_1 by lia. cbn [bind].
  rewrite Nat2N.id, (p_many_rawprops shape r Hw). cbn [bind].
  unfold build_layout. rewrite (split_common_flat shape Hv). cbn [N.eqb bind].
  rewrite Nat2N.id. reflexivity.
Qed.
Close Scope N_scope.

(* non-vacuity: two entries, five columns (one constant, one array split between the entry and a value store),
   through descriptors, data block and reader *)
Open Scope N_scope.
Definition ex_shape : list wprop :=
  [WUInt 2 None [97]; WSInt 1 None [98]; WUInt 1 (Some 7) [107]; WContent 1 1 None [99]; WArray (Some 1%nat) 2 (Some (1%nat, 0)) [115]].
Definition ex_store : N -> res vstore := fun k => if k =? 0 then Ok (VSPlain [108; 108; 111]) else Err EFormat.
Definition ex_rows : list (list wfield) :=
  [[FUInt 2 [97] 1000; FSInt 1 [98] (-3)%Z; FUConst 1 [107] 7; FContent 1 1 [99] 1 5; FArray 1 2 1 0 [115] [104; 101; 108; 108; 111] 0];
   [FUInt 2 [97] 65535; FSInt 1 [98] 127%Z; FUConst 1 [107] 7; FContent 1 1 [99] 1 0; FArray 1 2 1 0 [115] [120] 3]].
Example ex_rows_have_the_shape : Forall (row_has_shape ex_store ex_shape) ex_rows.
Proof.
  repeat constructor; cbn; try lia; try (unfold fits_signed; cbn; lia); try (eexists; split; reflexivity).
Qed.
Example ex_layout_parses :
  p_layout (ser_flat_tail 2 9 ex_shape) = Ok (flat_layout 2 ex_shape, []).
Proof. vm_compute. reflexivity. Qed.
Example ex_entries_read_back :
  (exists e, entry_bytes (flat_layout 2 ex_shape) (concat (map (fun r => concat (map ser_field r)) ex_rows)) 0 = Some e /\
             read_entry ex_store (flat_layout 2 ex_shape) e =
               (None, [([97], Ok (VUnsigned 1000)); ([98], Ok (VSigned (-3))); ([107], Ok (VUnsigned 7)); ([99], Ok (VContent 1 5));
                       ([115], Ok (VArray [104; 101; 108; 108; 111]))])) /\
  (exists e, entry_bytes (flat_layout 2 ex_shape) (concat (map (fun r => concat (map ser_field r)) ex_rows)) 1 = Some e /\
             read_entry ex_store (flat_layout 2 ex_shape) e =
               (None, [([97], Ok (VUnsigned 65535)); ([98], Ok (VSigned 127)); ([107], Ok (VUnsigned 7)); ([99], Ok (VContent 1 0));
                       ([115], Ok (VArray [120]))])).
Proof.
  split.
  - exact (entry_store_roundtrip ex_store ex_shape ex_rows 0 _ ex_rows_have_the_shape eq_refl).
  - exact (entry_store_roundtrip ex_store ex_shape ex_rows 1 _ ex_rows_have_the_shape eq_refl).
Qed.
Close Scope N_scope.
