(* C02 — variant delimiting: the repaired reader parses back every variant list the writer
   produces (creator/…/schema/mod.rs finalize: VariantId descriptor :: properties, every variant
   padded to the same size); the pinned reader rejected two shapes the writer produces (D5). *)
From Coq Require Import List Arith NArith Bool Lia.
From Jbk Require Import Base.Parser Dir.Layout.
Import ListNotations.

Definition vid_raw (name : list N) : rawprop := {| rp_size := 1; rp_name := name; rp_kind := KVariantId |}.
Definition ser_variants (vs : list (list N * list rawprop)) : list rawprop :=
  flat_map (fun v => vid_raw (fst v) :: snd v) vs.
Definition wf_variant (vsize : nat) (v : list N * list rawprop) : Prop :=
  Forall (fun p => is_variant_id p = false) (snd v) /\ psize (snd v) = vsize.

Lemma psize_app a b : psize (a ++ b) = psize a + psize b.
Proof. unfold psize. induction a as [|x a IH]; cbn [fold_right app]; lia. Qed.
Lemma psize_rev a : psize (rev a) = psize a.
Proof. induction a as [|x a IH]; [reflexivity|]. cbn [rev]. rewrite psize_app, IH. unfold psize. cbn. lia. Qed.
Lemma psize_cons x a : psize (x :: a) = rp_size x + psize a.
Proof. reflexivity. Qed.

(* inside one variant: its properties are accumulated *)
Lemma split_body vsize ps : Forall (fun p => is_variant_id p = false) ps ->
  forall rest n def, psize def + psize ps <= vsize ->
  split_variants vsize (Some (n, def)) (ps ++ rest) = split_variants vsize (Some (n, rev ps ++ def)) rest.
Proof.
  induction 1 as [|p ps Hp HF IH]; intros rest n def Hs; [reflexivity|].
  cbn [app split_variants]. rewrite Hp.
  rewrite psize_cons in Hs.
  replace (vsize <? psize (rev (p :: def))) with false.
  2:{ symmetry. apply Nat.ltb_ge. rewrite psize_rev, psize_cons. lia. }
  rewrite IH by (rewrite psize_cons; lia).
  cbn [rev]. now rewrite <- app_assoc.
Qed.

Lemma split_from vsize : forall vs n0 def0, Forall (wf_variant vsize) vs -> psize def0 = vsize ->
  split_variants vsize (Some (n0, def0)) (ser_variants vs) = Ok ((n0, rev def0) :: vs).
Proof.
  induction vs as [|[n ps] vs IH]; intros n0 def0 W Hd; cbn [ser_variants flat_map].
  - cbn [split_variants]. rewrite psize_rev, Hd, Nat.eqb_refl. reflexivity.
  - inversion W as [|? ? [Wv Sv] W']; subst. cbn [fst snd app] in *.
    cbn [split_variants is_variant_id vid_raw rp_kind rp_name].
    rewrite psize_rev, Nat.eqb_refl.
    rewrite split_body by (try assumption; cbn; lia). rewrite app_nil_r.
    fold (ser_variants vs). rewrite IH by (try assumption; now rewrite psize_rev).
    cbn [bind]. now rewrite rev_involutive.
Qed.

Theorem split_variants_roundtrip vsize vs : Forall (wf_variant vsize) vs ->
  split_variants vsize None (ser_variants vs) = Ok vs.
Proof.
  intros W. destruct W as [|[n ps] vs [Wv Sv] W]; [reflexivity|].
  cbn [ser_variants flat_map fst snd app] in *.
  cbn [split_variants is_variant_id vid_raw rp_kind rp_name].
  rewrite split_body by (try assumption; cbn; lia). rewrite app_nil_r.
  fold (ser_variants vs).
  rewrite split_from by (try assumption; now rewrite psize_rev). now rewrite rev_involutive.
Qed.

(* D5: the pinned reader rejects variants ending with a zero-sized (constant) property ... *)
Lemma pinned_trailing_default_refuted :
  exists vsize vs, Forall (wf_variant vsize) vs /\ split_variants_pinned vsize None (ser_variants vs) = Err EFormat.
Proof.
  exists 1, [([1%N], [ {| rp_size := 1; rp_name := [7%N]; rp_kind := KUInt 1 None |};
                      {| rp_size := 0; rp_name := [8%N]; rp_kind := KUInt 1 (Some 5%N) |} ]);
             ([2%N], [ {| rp_size := 1; rp_name := [9%N]; rp_kind := KUInt 1 None |} ])].
  split; [|reflexivity]. repeat constructor.
Qed.
(* ... and variants without any property *)
Lemma pinned_empty_variants_refuted :
  exists vsize vs, Forall (wf_variant vsize) vs /\ vs <> [] /\ split_variants_pinned vsize None (ser_variants vs) <> Ok vs.
Proof.
  exists 0, [([1%N], []); ([2%N], [])]. split; [repeat constructor|]. split; [discriminate|]. cbn. discriminate.
Qed.
