(* C03 — the lookup of reader/directory_pack/range.rs RangeTrait::find: binary search (the exact
   loop, explicit fuel) and linear scan, over an abstract comparison of entry i with the probe. *)
From Coq Require Import List Arith NArith ZArith Lia.
Import ListNotations.


(* exact shape of RangeTrait::find (reader/directory_pack/range.rs:26), size = right - left *)
Fixpoint bs (fuel : nat) (cmp : nat -> comparison) (left right : nat) : option nat :=
  match fuel with
  | O => None
  | S f =>
    if left <? right then
      let mid := left + (right - left) / 2 in
      match cmp mid with
      | Lt => bs f cmp (mid + 1) right
      | Gt => bs f cmp left mid
      | Eq => Some mid
      end
    else None
  end.
Definition find_binary (cmp : nat -> comparison) (count : nat) := bs (S count) cmp 0 count.

Fixpoint lin (cmp : nat -> comparison) (i n : nat) : option nat :=
  match n with
  | O => None
  | S n => match cmp i with Eq => Some i | _ => lin cmp (S i) n end
  end.
Definition find_linear (cmp : nat -> comparison) (count : nat) := lin cmp 0 count.

(* cmp i is the comparison of entry i with the probe; on a sorted store it is monotone *)
Definition mono (cmp : nat -> comparison) :=
  forall i j, i <= j -> (cmp j = Lt -> cmp i = Lt) /\ (cmp i = Gt -> cmp j = Gt).

Lemma mid_bounds l r : l < r -> l <= l + (r - l) / 2 < r.
Proof.
  intros H. split; [lia|].
  assert ((r - l) / 2 < r - l) by (apply Nat.div_lt; lia). lia.
Qed.

Lemma bs_sound f cmp : forall l r m, bs f cmp l r = Some m -> l <= m < r /\ cmp m = Eq.
Proof.
  induction f as [|f IH]; intros l r m H; [discriminate|].
  cbn [bs] in H. destruct (Nat.ltb_spec l r) as [Hlt|]; [|discriminate].
  pose proof (mid_bounds l r Hlt) as Hm. set (mid := l + (r - l) / 2) in *.
  destruct (cmp mid) eqn:E.
  - injection H as <-. split; [lia|assumption].
  - apply IH in H. destruct H; split; [lia|assumption].
  - apply IH in H. destruct H; split; [lia|assumption].
Qed.

Lemma bs_complete f cmp : mono cmp -> forall l r, r - l < f ->
  (exists m, l <= m < r /\ cmp m = Eq) -> exists m', bs f cmp l r = Some m'.
Proof.
  intros Hmono. induction f as [|f IH]; intros l r Hf [m [Hm Em]]; [lia|].
  cbn [bs]. destruct (Nat.ltb_spec l r) as [Hlt|]; [|lia].
  pose proof (mid_bounds l r Hlt) as Hb. set (mid := l + (r - l) / 2) in *.
  destruct (cmp mid) eqn:E.
  - eauto.
  - (* entry mid < probe: the match is to the right of mid *)
    apply IH; [lia|]. exists m. split; [|assumption].
    destruct (Nat.le_gt_cases m mid) as [Hle|]; [|lia].
    destruct (Hmono m mid Hle) as [H1 _]. rewrite (H1 E) in Em. discriminate.
  - apply IH; [lia|]. exists m. split; [|assumption].
    destruct (Nat.le_gt_cases mid m) as [Hle|]; [|lia].
    destruct (Hmono mid m Hle) as [_ H2]. rewrite (H2 E) in Em. discriminate.
Qed.

Lemma lin_sound cmp : forall n i m, lin cmp i n = Some m -> i <= m < i + n /\ cmp m = Eq.
Proof.
  induction n as [|n IH]; intros i m H; [discriminate|]. cbn [lin] in H.
  destruct (cmp i) eqn:E; [injection H as <-; split; [lia|assumption] | apply IH in H; destruct H; split; [lia|assumption] | apply IH in H; destruct H; split; [lia|assumption]].
Qed.
Lemma lin_complete cmp : forall n i, (exists m, i <= m < i + n /\ cmp m = Eq) -> exists m', lin cmp i n = Some m'.
Proof.
  induction n as [|n IH]; intros i [m [Hm Em]]; [lia|]. cbn [lin].
  destruct (cmp i) eqn:E; [eauto| |]; apply IH; exists m; (split; [|assumption]);
    (destruct (Nat.eq_dec m i) as [->|]; [congruence|lia]).
Qed.

(* keys strictly increasing => at most one Eq, so both modes return the same index *)
Definition at_most_one_eq (cmp : nat -> comparison) := forall i j, cmp i = Eq -> cmp j = Eq -> i = j.

Theorem find_modes_agree cmp count : mono cmp -> at_most_one_eq cmp ->
  find_binary cmp count = find_linear cmp count.
Proof.
  intros Hm Hu. unfold find_binary, find_linear.
  destruct (bs (S count) cmp 0 count) as [m|] eqn:B; destruct (lin cmp 0 count) as [m'|] eqn:L.
  - apply bs_sound in B. apply lin_sound in L. f_equal. apply Hu; tauto.
  - apply bs_sound in B. destruct (lin_complete cmp count 0) as [x Hx]; [exists m; simpl; tauto|]. congruence.
  - apply lin_sound in L. destruct (bs_complete (S count) cmp Hm 0 count) as [x Hx]; [lia|exists m'; simpl in *; tauto|]. congruence.
  - reflexivity.
Qed.

Theorem find_binary_spec cmp count : mono cmp ->
  (forall m, find_binary cmp count = Some m -> m < count /\ cmp m = Eq) /\
  ((exists m, m < count /\ cmp m = Eq) -> exists m', find_binary cmp count = Some m').
Proof.
  intros Hm. split.
  - intros m H. apply bs_sound in H. split; [lia|tauto].
  - intros [m [H1 H2]]. apply (bs_complete (S count) cmp Hm 0 count); [lia|]. exists m. split; [lia|assumption].
Qed.

(* executable form over a table of comparison results (entry i of the window vs the probe) *)
Definition cmp_of_table (t : list comparison) (i : nat) : comparison := nth i t Gt.
Definition find_table (ordered : bool) (t : list comparison) : option nat :=
  if ordered then find_binary (cmp_of_table t) (length t) else find_linear (cmp_of_table t) (length t).

