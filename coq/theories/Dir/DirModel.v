(* Executable entry point: the independent decoder's logical dump of a directory pack. *)
From Coq Require Import List Arith NArith ZArith Bool.
From Jbk Require Import Base.ListExtra Base.Bytes Base.Parser Base.Prog Format.Structs
  Manifest.SetLocation Content.Pack Dir.Layout.
Import ListNotations.
Open Scope N_scope.

Fixpoint nseq (start : N) (n : nat) : list N :=
  match n with O => [] | S n => start :: nseq (start + 1) n end.

Record index_dump := {
  id_header : index_header;
  id_store : res (layout * list (option (option N * list (list N * res value)))) }.  (* None = no such entry *)

Definition dp_dump_at (f : list N) (base : N) : res (list (res index_dump)) :=
  let n := lenN f in
  match run_n n f (dp_open_p base) with
  | Err e => Err e
  | Ok d =>
      if 300 <? dh_value_count (dp_dh d) then Err EFormat else
      if 100000 <? dh_index_count (dp_dh d) then Err EFormat else
      let stores := map (fun k => run_n n f (dp_value_store_p d k)) (nseq 0 (N.to_nat (dh_value_count (dp_dh d)))) in
      let store k := nth (N.to_nat k) stores (Err EFormat) in
      Ok (map (fun k =>
        match run_n n f (dp_index_p d k) with
        | Err e => Err e
        | Ok ih =>
            Ok {| id_header := ih;
                  id_store :=
                    match run_n n f (dp_entry_store_p d (ix_store ih)) with
                    | Err e => Err e
                    | Ok (ly, data) =>
                        (* the dump shows the first 20000 entries of an index (a damaged count may be huge) *)
                        Ok (ly, map (fun j =>
                              match index_get ih ly data j with
                              | None => None
                              | Some e => Some (read_entry store ly e)
                              end) (nseq 0 (N.to_nat (N.min (ix_count ih) 20000))))
                    end |}
        end) (nseq 0 (N.to_nat (dh_index_count (dp_dh d)))))
  end.
Definition dp_dump (f : list N) := dp_dump_at f 0.
Close Scope N_scope.
