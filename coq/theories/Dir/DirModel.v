(* Executable entry point: the independent decoder's logical dump of a directory pack. *)
From Coq Require Import List Arith NArith ZArith Bool.
From Jbk Require Import Base.ListExtra Base.Bytes Base.Parser Base.Prog Format.Structs
  Manifest.SetLocation Content.Pack Dir.Layout.
Import ListNotations.
Open Scope N_scope.

Fixpoint nseq (start : N) (n : nat) : list N :=
  match n with O => [] | S n => start :: nseq (start + 1) n end.

(* the entries of an index window, cut out of the data block in one pass: entry j of the window is
   the slice [(offset + j) * size, + size) when offset + j is below the store's count, else "no such
   entry" (same as [index_get], see [window_entries_spec]) *)
Fixpoint window_entries (n esize : nat) (valid : N) (d : list N) : list (option (list N)) :=
  match n with
  | O => []
  | S n => (if valid =? 0 then None else Some (firstn esize d)) :: window_entries n esize (N.pred valid) (skipn esize d)
  end.
(* the byte position of the window is clamped to the length of the data in N before it becomes a nat:
   a damaged offset may be astronomically large, and skipping past the end gives [] either way *)
Definition index_entries (ih : index_header) (ly : layout) (data : list N) (n : nat) : list (option (list N)) :=
  window_entries n (l_entry_size ly) (l_count ly - ix_offset ih)
                 (skipn (N.to_nat (N.min (ix_offset ih * N.of_nat (l_entry_size ly)) (lenN data))) data).

Record index_dump := {
  id_header : index_header;
  id_store : res (layout * list (option (option N * list (list N * res value)))) }.  (* None = no such entry *)

Definition dp_dump_at (f : list N) (base : N) : res (list (res index_dump)) :=
  let n := lenN f in
  match run_n n f (dp_open_p base) with
  | Err e => Err e
  | Ok d =>
      if 300 <? dh_value_count (dp_dh d) then Err EFormat else
      if 100000 <? dh_index_count (dp_dh d) then Err EFormat else
      let stores := map (fun k => run_n n f (dp_value_store_p d k)) (nseq 0 (N.to_nat (dh_value_count (dp_dh d)))) in
      let store k := nth (N.to_nat k) stores (Err EFormat) in
      Ok (map (fun k =>
        match run_n n f (dp_index_p d k) with
        | Err e => Err e
        | Ok ih =>
            Ok {| id_header := ih;
                  id_store :=
                    match run_n n f (dp_entry_store_p d (ix_store ih)) with
                    | Err e => Err e
                    | Ok (ly, data) =>
                        (* the dump shows the first 200000 entries of an index (a damaged count may be huge) *)
                        Ok (ly, map (fun oe =>
                              match oe with
                              | None => None
                              | Some e => Some (read_entry store ly e)
                              end) (index_entries ih ly data (N.to_nat (N.min (ix_count ih) 200000))))
                    end |}
        end) (nseq 0 (N.to_nat (dh_index_count (dp_dh d)))))
  end.
Definition dp_dump (f : list N) := dp_dump_at f 0.
Close Scope N_scope.

(* the one-pass window is the per-entry definition *)
From Coq Require Import Lia.
Lemma window_entries_nth esize : forall n valid d j, (j < n)%nat ->
  nth_error (window_entries n esize valid d) j =
  Some (if (valid <=? N.of_nat j)%N then None else Some (sub (j * esize) esize d)).
Proof.
  induction n as [|n IH]; intros valid d j H; [lia|].
  destruct j as [|j]; cbn [window_entries nth_error].
  - destruct (N.eqb_spec valid 0) as [->|Hv]; cbn [N.of_nat].
    + reflexivity.
    + replace (valid <=? 0)%N with false by (symmetry; apply N.leb_gt; lia). unfold sub. reflexivity.
  - rewrite IH by lia. f_equal.
    destruct (N.leb_spec (N.pred valid) (N.of_nat j)); destruct (N.leb_spec valid (N.of_nat (S j))); try lia; try reflexivity.
    f_equal. unfold sub. rewrite skipn_skipn. f_equal; f_equal; lia.
Qed.
Lemma skipn_clamped {A} (l : list A) (a : N) :
  skipn (N.to_nat (N.min a (N.of_nat (length l)))) l = skipn (N.to_nat a) l.
Proof.
  destruct (N.le_gt_cases a (N.of_nat (length l))) as [H|H].
  - now rewrite N.min_l by exact H.
  - rewrite N.min_r by lia. rewrite Nat2N.id, skipn_all. symmetry. apply skipn_all2. lia.
Qed.
Theorem window_entries_spec ih ly data n j : (j < n)%nat -> (N.of_nat n <= ix_count ih)%N ->
  nth_error (index_entries ih ly data n) j = Some (index_get ih ly data (N.of_nat j)).
Proof.
  intros Hj Hn. unfold index_entries. unfold lenN. rewrite skipn_clamped.
  replace (N.to_nat (ix_offset ih * N.of_nat (l_entry_size ly))) with (N.to_nat (ix_offset ih) * l_entry_size ly)%nat by lia.
  rewrite window_entries_nth by exact Hj. f_equal.
  unfold index_get. replace (ix_count ih <=? N.of_nat j)%N with false by (symmetry; apply N.leb_gt; lia).
  unfold entry_bytes.
  destruct (N.leb_spec (l_count ly - ix_offset ih) (N.of_nat j)); destruct (N.leb_spec (l_count ly) (ix_offset ih + N.of_nat j)); try lia; try reflexivity.
  f_equal. unfold sub. rewrite skipn_skipn. f_equal; f_equal; lia.
Qed.
