(* common/check.rs:105 ManifestCheckStream as a function of the position: inside the pack-info
   table, bytes 38..255 of every 256-byte block (location + CRC) read as 0. *)
From Coq Require Import List Arith Bool NArith Lia.
From Jbk Require Import Base.ListExtra.
Import ListNotations.

Definition masked (packs_off n p : nat) : bool :=
  (packs_off <=? p) && (p <? packs_off + n * 256) && (38 <=? (p - packs_off) mod 256).

Fixpoint mapi_from {B C} (f : nat -> B -> C) (i : nat) (l : list B) : list C :=
  match l with [] => [] | x :: l => f i x :: mapi_from f (S i) l end.
(* what the manifest check hashes: the first [check_pos] bytes with the exempt bytes zeroed *)
Definition view (packs_off n check_pos : nat) (m : list N) : list N :=
  mapi_from (fun p b => if masked packs_off n p then 0%N else b) 0 (firstn check_pos m).

Lemma mapi_from_length {B C} (f : nat -> B -> C) l : forall i, length (mapi_from f i l) = length l.
Proof. induction l; intros; cbn; auto. Qed.
Lemma mapi_from_nth {B C} (f : nat -> B -> C) l : forall i k,
  nth_error (mapi_from f i l) k = option_map (f (i + k)) (nth_error l k).
Proof.
  induction l as [|x l IH]; intros i [|k]; cbn; try reflexivity.
  - now rewrite Nat.add_0_r.
  - rewrite IH. now rewrite Nat.add_succ_r.
Qed.

Lemma list_ext {B} (a b : list B) : (forall k, nth_error a k = nth_error b k) -> a = b.
Proof.
  revert b; induction a as [|x a IH]; intros [|y b] H.
  - reflexivity.
  - specialize (H 0). discriminate.
  - specialize (H 0). discriminate.
  - f_equal; [specialize (H 0); cbn in H; congruence|]. apply IH. intros k. exact (H (S k)).
Qed.

Lemma nth_error_skipn {B} (l : list B) : forall n k, nth_error (skipn n l) k = nth_error l (n + k).
Proof. induction l as [|x l IH]; intros [|n] k; cbn; try reflexivity; [destruct k; reflexivity|apply IH]. Qed.
Lemma nth_error_firstn {B} (l : list B) : forall n k,
  nth_error (firstn n l) k = if k <? n then nth_error l k else None.
Proof.
  induction l as [|x l IH]; intros n k.
  - rewrite firstn_nil. destruct k; cbn [nth_error]; destruct (Nat.ltb _ n); reflexivity.
  - destruct n as [|n]; [destruct k; reflexivity|].
    destruct k as [|k]; [reflexivity|]. cbn [firstn nth_error]. rewrite IH.
    change (S k <? S n) with (k <? n). reflexivity.
Qed.
Lemma nth_error_firstn_lt {B} (l : list B) n k : k < n -> nth_error (firstn n l) k = nth_error l k.
Proof. intros H. rewrite nth_error_firstn. destruct (Nat.ltb_spec k n); [reflexivity|lia]. Qed.
Lemma nth_error_firstn_ge {B} (l : list B) n k : n <= k -> nth_error (firstn n l) k = None.
Proof. intros H. rewrite nth_error_firstn. destruct (Nat.ltb_spec k n); [lia|reflexivity]. Qed.

Lemma splice_nth {B} off (nb m : list B) k : off + length nb <= length m ->
  nth_error (splice off nb m) k =
    if (off <=? k) && (k <? off + length nb) then nth_error nb (k - off) else nth_error m k.
Proof.
  intros H. unfold splice.
  destruct (Nat.leb_spec off k) as [Hle|Hlt]; cbn [andb].
  - rewrite nth_error_app2 by (rewrite firstn_length; lia). rewrite firstn_length, Nat.min_l by lia.
    destruct (Nat.ltb_spec k (off + length nb)) as [Hin|Hout].
    + rewrite nth_error_app1 by lia. reflexivity.
    + rewrite nth_error_app2 by lia. rewrite nth_error_skipn. f_equal. lia.
  - rewrite nth_error_app1 by (rewrite firstn_length; lia). rewrite nth_error_firstn.
    destruct (Nat.ltb_spec k off); [reflexivity|lia].
Qed.

(* Rewriting pack info i (a 256-byte block whose first 38 bytes are unchanged) does not change
   what the global check hashes. *)
Theorem set_loc_view_invariant packs_off n check_pos m i nb :
  i < n -> packs_off + n * 256 <= check_pos -> check_pos <= length m -> length nb = 256 ->
  firstn 38 nb = firstn 38 (firstn 256 (skipn (packs_off + i * 256) m)) ->
  view packs_off n check_pos (splice (packs_off + i * 256) nb m) = view packs_off n check_pos m.
Proof.
  intros Hi Hcp Hlen Hnb Hsame.
  set (off := packs_off + i * 256) in *.
  assert (Hoff : off + length nb <= length m) by (unfold off; nia).
  apply list_ext. intros k. unfold view. rewrite !mapi_from_nth. cbn [plus].
  destruct (Nat.lt_ge_cases k check_pos) as [Hk|Hk].
  2:{ rewrite !nth_error_firstn_ge by assumption. reflexivity. }
  rewrite !nth_error_firstn_lt by assumption.
  rewrite splice_nth by assumption. rewrite Hnb.
  destruct (Nat.leb_spec off k) as [H1|H1]; cbn [andb]; [|reflexivity].
  destruct (Nat.ltb_spec k (off + 256)) as [H2|H2]; [|reflexivity].
  assert (Hmod : (k - packs_off) mod 256 = k - off).
  { replace (k - packs_off) with ((k - off) + i * 256) by (unfold off; lia).
    rewrite Nat.mod_add by lia. apply Nat.mod_small. lia. }
  destruct (Nat.lt_ge_cases (k - off) 38) as [Hlow|Hhigh].
  - assert (E : nth_error nb (k - off) = nth_error m k).
    { rewrite <- (nth_error_firstn_lt nb 38) by assumption. rewrite Hsame.
      rewrite nth_error_firstn_lt by assumption. rewrite nth_error_firstn_lt by lia.
      rewrite nth_error_skipn. f_equal. lia. }
    now rewrite E.
  - assert (M : masked packs_off n k = true).
    { unfold masked. rewrite Hmod.
      destruct (Nat.leb_spec packs_off k); [|unfold off in *; lia].
      destruct (Nat.ltb_spec k (packs_off + n * 256)); [|unfold off in *; nia].
      destruct (Nat.leb_spec 38 (k - off)); [reflexivity|lia]. }
    rewrite M.
    assert (Hk1 : k - off < length nb) by lia.
    assert (Hk2 : k < length m) by lia.
    destruct (nth_error nb (k - off)) as [b1|] eqn:E1; [|apply nth_error_None in E1; lia].
    destruct (nth_error m k) as [b2|] eqn:E2; [|apply nth_error_None in E2; lia].
    reflexivity.
Qed.

(* exactness of the mask: a position is exempt iff it is byte 38..255 of some pack info *)
Theorem mask_exact packs_off n p :
  masked packs_off n p = true <-> exists k, k < n /\ packs_off + k * 256 + 38 <= p < packs_off + (k + 1) * 256.
Proof.
  unfold masked. split.
  - intros H. apply andb_prop in H. destruct H as [H H3]. apply andb_prop in H. destruct H as [H1 H2].
    apply Nat.leb_le in H1, H3. apply Nat.ltb_lt in H2.
    exists ((p - packs_off) / 256).
    pose proof (Nat.div_mod (p - packs_off) 256 ltac:(lia)) as D.
    pose proof (Nat.mod_upper_bound (p - packs_off) 256 ltac:(lia)) as U.
    split; [apply Nat.div_lt_upper_bound; lia|]. lia.
  - intros [k [Hk [Hlo Hhi]]].
    assert (Hmod : (p - packs_off) mod 256 = p - packs_off - k * 256).
    { replace (p - packs_off) with ((p - packs_off - k * 256) + k * 256) at 1 by lia.
      rewrite Nat.mod_add by lia. apply Nat.mod_small. lia. }
    rewrite Hmod.
    destruct (Nat.leb_spec packs_off p); [|lia].
    destruct (Nat.ltb_spec p (packs_off + n * 256)); [|nia].
    destruct (Nat.leb_spec 38 (p - packs_off - k * 256)); [reflexivity|lia].
Qed.
