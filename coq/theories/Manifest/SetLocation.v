(* tools::set_location (src/tools.rs:41) on the bytes of a file: open the file as a pack or a
   container pack, find the manifest, find the pack info by uuid, re-serialise its 256-byte block
   with the new location.  Written as reader programs (Base/Prog.v); theorems in SetLocationProofs.v. *)
From Coq Require Import List Arith NArith Bool Lia.
From Jbk Require Import Base.ListExtra Base.Bytes Base.Crc Base.Parser Base.Prog Format.Structs Manifest.Mask.
Import ListNotations.
Open Scope N_scope.
Open Scope prog_scope.

Definition parse_all {A} (p : parser A) (b : list N) : res A := '(a, _) <- p b ;; Ok a.

Definition read_header_p (pos : N) : prog pack_header :=
  RdBlock pos 60 (fun b => lift (parse_all p_pack_header b)).

Fixpoint read_locators_p (tab : N) (n : nat) (i : N) : prog (list pack_locator) :=
  match n with
  | O => Ret []
  | S n => l <~ RdBlock (tab + 36 * i) 32 (fun b => lift (parse_all p_pack_locator b)) ;;
           rest <~ read_locators_p tab n (i + 1) ;;
           Ret (l :: rest)
  end.

(* reader::ContainerPack::new on the region starting at [base]: (uuid, (absolute position, size)) *)
Definition container_new_p (base : N) : prog (list (list N * (N * N))) :=
  h <~ read_header_p base ;;
  if negb (kind_eqb (ph_kind h) KContainer) then Fail EFormat else
  ch <~ RdBlock (base + 64) 60 (fun b => lift (parse_all p_container_header b)) ;;
  ls <~ read_locators_p (base + ch_locators_pos ch) (N.to_nat (ch_count ch)) 0 ;;
  Ret (map (fun l => (pl_uuid l, (base + pl_pos l, pl_size l))) ls).

(* tools::open_pack *)
Definition open_pack_p : prog (list (list N * (N * N))) :=
  h <~ read_header_p 0 ;;
  if kind_eqb (ph_kind h) KContainer then container_new_p 0
  else Len (fun n => Ret [(ph_uuid h, (0, n))]).

(* ContainerPack::get_manifest_pack_reader (the Rust iterates a HashMap; the model uses locator order) *)
Fixpoint find_manifest_p (packs : list (list N * (N * N))) : prog (option (N * N)) :=
  match packs with
  | [] => Ret None
  | (_, (pos, size)) :: rest =>
      h <~ read_header_p pos ;;
      if kind_eqb (ph_kind h) KManifest then Ret (Some (pos, size)) else find_manifest_p rest
  end.

Record manifest_loc := { ml_pos : N; ml_header : pack_header; ml_mheader : manifest_header }.
Definition ml_count (m : manifest_loc) : N := mh_count (ml_mheader m).
Definition ml_infos_off (m : manifest_loc) : N :=
  ph_check_pos (ml_header m) - ml_count m * 256.                   (* PackOffsetsIter::new *)
Definition ml_lo (m : manifest_loc) : N := ml_pos m + ml_infos_off m.    (* pack-info table, absolute *)
Definition ml_hi (m : manifest_loc) : N := ml_lo m + 256 * ml_count m.

Definition locate_manifest_p : prog manifest_loc :=
  packs <~ open_pack_p ;;
  m <~ find_manifest_p packs ;;
  match m with
  | None => Fail EFormat
  | Some (mpos, _) =>
      h <~ read_header_p mpos ;;
      mh <~ RdBlock (mpos + 64) 60 (fun b => lift (parse_all p_manifest_header b)) ;;
      Ret {| ml_pos := mpos; ml_header := h; ml_mheader := mh |}
  end.

Definition read_info_p (g : N) : prog pack_info :=
  RdBlock g 252 (fun b => lift (parse_all p_pack_info b)).

Fixpoint find_info_p (g : N) (n : nat) (uuid : list N) : prog (option (N * pack_info)) :=
  match n with
  | O => Ret None
  | S n => pi <~ read_info_p g ;;
           if list_eqb (pi_uuid pi) uuid then Ret (Some (g, pi)) else find_info_p (g + 256) n uuid
  end.

Definition find_target_p (uuid : list N) : prog (option (N * pack_info)) :=
  m <~ locate_manifest_p ;;
  find_info_p (ml_lo m) (N.to_nat (ml_count m)) uuid.

Definition new_block (pi : pack_info) (loc : list N) : list N :=
  mk_block (ser_pack_info (set_loc pi loc)).

(* result: None = no pack with this uuid; Some (new file, kind, old location) *)
Definition set_location (f : list N) (uuid loc : list N) : res (option (list N * pack_kind * list N)) :=
  match run f (find_target_p uuid) with
  | Err e => Err e
  | Ok None => Ok None
  | Ok (Some (g, pi)) => Ok (Some (splice (N.to_nat g) (new_block pi loc) f, pi_kind pi, pi_loc pi))
  end.

(* all pack infos of the manifest, with their absolute positions, in file order *)
Fixpoint read_infos_p (g : N) (n : nat) : prog (list (N * pack_info)) :=
  match n with
  | O => Ret []
  | S n => pi <~ read_info_p g ;; rest <~ read_infos_p (g + 256) n ;; Ret ((g, pi) :: rest)
  end.
Definition manifest_infos_p : prog (list (N * pack_info)) :=
  m <~ locate_manifest_p ;; read_infos_p (ml_lo m) (N.to_nat (ml_count m)).
Definition manifest_infos (f : list N) := run f manifest_infos_p.

(* the bytes the manifest's global check hashes (masked view of [0, check_pos) of the manifest) *)
Definition view_of (m : manifest_loc) (f : list N) : list N :=
  view (N.to_nat (ml_infos_off m)) (N.to_nat (ml_count m)) (N.to_nat (ph_check_pos (ml_header m)))
       (skipn (N.to_nat (ml_pos m)) f).
Definition manifest_view (f : list N) : res (list N) :=
  match run f locate_manifest_p with
  | Err e => Err e
  | Ok m => if (ml_pos m + ph_check_pos (ml_header m) <=? lenN f) then Ok (view_of m f) else Err EOob
  end.

(* executable well-formedness of the manifest's placement: the blocks read to find the manifest do
   not overlap the pack-info table, the table lies inside the checked range, which lies inside the file *)
Definition layout_okb (f : list N) : bool :=
  match run f locate_manifest_p with
  | Err _ => false
  | Ok m =>
      disjoint_run f (ml_lo m) (ml_hi m) locate_manifest_p &&
      (ml_count m * 256 <=? ph_check_pos (ml_header m)) &&
      (ml_pos m + ph_check_pos (ml_header m) <=? lenN f)
  end.

(* Pack::check for a manifest (reader/manifest_pack.rs:208): CheckInfo block at check_info_pos, kind
   byte 0 = no check, 1 = blake3 over the masked view.  The hash function is a parameter. *)
Definition manifest_check (H : list N -> list N) (f : list N) : res bool :=
  match run f locate_manifest_p with
  | Err e => Err e
  | Ok m =>
      match read_block f (ml_pos m + ph_check_pos (ml_header m)) (ph_check_size (ml_header m)) with
      | Err e => Err e
      | Ok cb =>
          match cb with
          | [] => Err EFormat
          | kb :: hash =>
              if kb =? 0 then Ok true
              else if kb =? 1 then
                if (length hash <? 32)%nat then Err EFormat else
                match manifest_view f with
                | Err e => Err e
                | Ok v => Ok (list_eqb (H v) (firstn 32 hash))
                end
              else Err EFormat
          end
      end
  end.

(* a sequence of rewrites; unknown uuids leave the file as it is *)
Fixpoint set_locations (f : list N) (ops : list (list N * list N)) : res (list N) :=
  match ops with
  | [] => Ok f
  | (u, loc) :: ops =>
      match set_location f u loc with
      | Err e => Err e
      | Ok None => set_locations f ops
      | Ok (Some (f', _, _)) => set_locations f' ops
      end
  end.
Close Scope N_scope.
