(* Theorems about tools::set_location (model in SetLocation.v). *)
From Coq Require Import List Arith NArith ZArith Bool Lia ZifyN ZifyBool ZifyNat.
From Jbk Require Import Base.ListExtra Base.Bytes Base.Crc Base.Parser Base.Utf8 Base.Prog Format.Structs
  Manifest.Mask Manifest.SetLocation.
Import ListNotations.
Open Scope N_scope.
Ltac Zify.zify_post_hook ::= Z.div_mod_to_equations.

(* ---- inversion of the sequential parsers ---- *)
Lemma p_bytes_inv n l a r : p_bytes n l = Ok (a, r) -> l = a ++ r /\ length a = n.
Proof.
  unfold p_bytes. destruct (Nat.leb_spec n (length l)) as [H|H]; [|discriminate].
  intros E. injection E as <- <-. split; [symmetry; apply firstn_skipn|]. rewrite firstn_length. lia.
Qed.
Lemma p_u_inv n l v r : p_u n l = Ok (v, r) -> exists a, l = a ++ r /\ length a = n /\ v = le_val a.
Proof.
  unfold p_u. destruct (p_bytes n l) as [[a r']|e] eqn:E; cbn [bind]; [|discriminate].
  intros H. injection H as <- <-. apply p_bytes_inv in E. destruct E as [E1 E2]. now exists a.
Qed.
Lemma p_skip_inv n l r : p_skip n l = Ok (tt, r) -> exists a, l = a ++ r /\ length a = n.
Proof.
  unfold p_skip. destruct (p_bytes n l) as [[a r']|e] eqn:E; cbn [bind]; [|discriminate].
  intros H. injection H as <-. apply p_bytes_inv in E. destruct E as [E1 E2]. now exists a.
Qed.

Lemma wf_bytes_app_l a b : wf_bytes (a ++ b) -> wf_bytes a.
Proof. intros H. apply wf_bytes_app in H. tauto. Qed.
Lemma wf_bytes_app_r a b : wf_bytes (a ++ b) -> wf_bytes b.
Proof. intros H. apply wf_bytes_app in H. tauto. Qed.
Lemma wf_bytes_firstn n l : wf_bytes l -> wf_bytes (firstn n l).
Proof. intros H. rewrite <- (firstn_skipn n l) in H. now apply wf_bytes_app_l in H. Qed.
Lemma wf_bytes_skipn n l : wf_bytes l -> wf_bytes (skipn n l).
Proof. intros H. rewrite <- (firstn_skipn n l) in H. now apply wf_bytes_app_r in H. Qed.
Lemma wf_bytes_sub o n l : wf_bytes l -> wf_bytes (sub o n l).
Proof. intros H. unfold sub. now apply wf_bytes_firstn, wf_bytes_skipn. Qed.
Lemma wf_bytes_repeat0 n : wf_bytes (zerosN n).
Proof. unfold wf_bytes, zerosN. apply Forall_forall. intros x Hx. apply repeat_spec in Hx. subst. lia. Qed.

Lemma kind_byte_of_byte b k : kind_of_byte b = Ok k -> kind_byte k = b.
Proof.
  unfold kind_of_byte.
  destruct (N.eqb_spec b 109); [intros E; injection E as <-; now subst|].
  destruct (N.eqb_spec b 100); [intros E; injection E as <-; now subst|].
  destruct (N.eqb_spec b 99); [intros E; injection E as <-; now subst|].
  destruct (N.eqb_spec b 67); [intros E; injection E as <-; now subst|discriminate].
Qed.

Lemma ser_sized_offset_canon a :
  wf_bytes a -> length a = 8%nat ->
  ser_sized_offset {| so_size := le_val a mod 2 ^ 16; so_off := le_val a / 2 ^ 16 |} = a.
Proof.
  intros W L. unfold ser_sized_offset. cbn [so_size so_off].
  replace (le_val a / 2 ^ 16 * 2 ^ 16 + le_val a mod 2 ^ 16 mod 2 ^ 16) with (le_val a).
  - rewrite <- L. now apply le_enc_val.
  - rewrite N.mod_mod by discriminate. rewrite N.mul_comm. apply N.div_mod. discriminate.
Qed.

Lemma le_val_1 b : le_val [b] = b.
Proof. cbn [le_val]. lia. Qed.

(* what a successful parse of a 252-byte pack info tells: the record is well formed and its
   fixed part re-serialises to the very bytes that were parsed *)
Lemma p_pack_info_canon d pi :
  wf_bytes d -> length d = 252%nat -> parse_all p_pack_info d = Ok pi ->
  wf_pack_info pi /\ firstn 38 d = pi_fixed pi /\ wf_bytes (pi_loc pi).
Proof.
  intros W L. unfold parse_all, p_pack_info.
  destruct (p_bytes 16 d) as [[u l1]|] eqn:E1; cbn [bind]; [|discriminate].
  destruct (p_u 8 l1) as [[s l2]|] eqn:E2; cbn [bind]; [|discriminate].
  unfold p_sized_offset at 1.
  destruct (p_u 8 l2) as [[ckv l3]|] eqn:E3; cbn [bind]; [|discriminate].
  destruct (p_u 2 l3) as [[id l4]|] eqn:E4; cbn [bind]; [|discriminate].
  destruct (p_u 1 l4) as [[kb l5]|] eqn:E5; cbn [bind]; [|discriminate].
  destruct (kind_of_byte kb) as [kind|] eqn:EK; cbn [bind]; [|discriminate].
  destruct (p_u 1 l5) as [[grp l6]|] eqn:E6; cbn [bind]; [|discriminate].
  destruct (p_u 2 l6) as [[fid l7]|] eqn:E7; cbn [bind]; [|discriminate].
  destruct (p_u 1 l7) as [[n l8]|] eqn:E8; cbn [bind]; [|discriminate].
  destruct (p_bytes (N.to_nat n) l8) as [[loc l9]|] eqn:E9; cbn [bind]; [|discriminate].
  destruct (p_skip (213 - N.to_nat n) l9) as [[[] l10]|] eqn:E10; cbn [bind]; [|discriminate].
  destruct (utf8_valid loc) eqn:EU; cbn [negb]; [|discriminate].
  intros E. injection E as <-.
  apply p_bytes_inv in E1. destruct E1 as [-> Lu].
  apply p_u_inv in E2. destruct E2 as (a2 & -> & L2 & ->).
  apply p_u_inv in E3. destruct E3 as (a3 & -> & L3 & ->).
  apply p_u_inv in E4. destruct E4 as (a4 & -> & L4 & ->).
  apply p_u_inv in E5. destruct E5 as (a5 & -> & L5 & ->).
  apply p_u_inv in E6. destruct E6 as (a6 & -> & L6 & ->).
  apply p_u_inv in E7. destruct E7 as (a7 & -> & L7 & ->).
  apply p_u_inv in E8. destruct E8 as (a8 & -> & L8 & ->).
  apply p_bytes_inv in E9. destruct E9 as [-> L9].
  apply p_skip_inv in E10. destruct E10 as (a10 & -> & L10).
  rewrite !app_length in L.
  assert (W' := W).
  repeat (apply wf_bytes_app in W'; let Wx := fresh "Wp" in destruct W' as [Wx W']).
  pose proof (le_val_bound a2 Wp0) as B2. pose proof (le_val_bound a3 Wp1) as B3.
  pose proof (le_val_bound a4 Wp2) as B4. pose proof (le_val_bound a6 Wp4) as B6.
  pose proof (le_val_bound a7 Wp5) as B7.
  rewrite L2 in B2. rewrite L3 in B3. rewrite L4 in B4. rewrite L6 in B6. rewrite L7 in B7.
  split; [|split].
  - unfold wf_pack_info, wf_sized_offset. cbn [pi_uuid pi_size pi_check pi_id pi_group pi_free_id pi_loc so_size so_off].
    change (256 ^ N.of_nat 8) with (2 ^ 64) in *. change (256 ^ N.of_nat 2) with (2 ^ 16) in *.
    change (256 ^ N.of_nat 1) with 256 in *.
    unfold wf_loc. repeat split; try assumption; try lia.
  - unfold pi_fixed. cbn [pi_uuid pi_size pi_check pi_id pi_kind pi_group pi_free_id].
    rewrite (kind_byte_of_byte _ _ EK).
    rewrite ser_sized_offset_canon by assumption.
    replace (le_enc 8 (le_val a2)) with a2 by (rewrite <- L2; symmetry; now apply le_enc_val).
    replace (le_enc 2 (le_val a4)) with a4 by (rewrite <- L4; symmetry; now apply le_enc_val).
    replace (le_enc 2 (le_val a7)) with a7 by (rewrite <- L7; symmetry; now apply le_enc_val).
    destruct a5 as [|b5 [|? ?]]; try discriminate. rewrite le_val_1.
    destruct a6 as [|b6 [|? ?]]; try discriminate. rewrite le_val_1.
    replace (u ++ a2 ++ a3 ++ a4 ++ [b5] ++ [b6] ++ a7 ++ a8 ++ loc ++ a10 ++ l10)
      with ((u ++ a2 ++ a3 ++ a4 ++ [b5] ++ [b6] ++ a7) ++ (a8 ++ loc ++ a10 ++ l10))
      by (now rewrite <- !app_assoc).
    rewrite firstn_app_len; [reflexivity|].
    rewrite !app_length, Lu, L2, L3, L4, L7. reflexivity.
  - cbn [pi_loc]. assumption.
Qed.

(* ---- block-level facts ---- *)
Lemma read_block_inv f off size d :
  read_block f off size = Ok d ->
  off + size + 4 <= lenN f /\ check_block (subN off (size + 4) f) = true /\
  d = firstn (N.to_nat size) (subN off (size + 4) f).
Proof.
  unfold read_block. destruct (N.leb_spec (off + size + 4) (lenN f)) as [L|L]; [|discriminate].
  destruct (check_block (subN off (size + 4) f)) eqn:C; [|discriminate].
  intros E. injection E as <-. auto.
Qed.

Lemma new_block_length pi loc : wf_pack_info pi -> wf_loc loc -> length (new_block pi loc) = 256%nat.
Proof.
  intros W L. unfold new_block, mk_block. rewrite app_length, crc_bytes_length.
  rewrite ser_pack_info_length by (now apply wf_set_loc). reflexivity.
Qed.

Lemma splice_as_app {A} g (nb f : list A) : (g + length nb <= length f)%nat ->
  splice g nb f = firstn g f ++ nb ++ skipn (g + length nb) f /\ length (firstn g f) = g.
Proof. intros H. split; [reflexivity|]. rewrite firstn_length. lia. Qed.

(* reading the rewritten block gives the new data *)
Lemma read_block_spliced f g data :
  (N.to_nat g + (length data + 4) <= length f)%nat ->
  read_block (splice (N.to_nat g) (mk_block data) f) g (lenN data) = Ok data.
Proof.
  intros H. unfold splice.
  assert (E : g = lenN (firstn (N.to_nat g) f)).
  { unfold lenN. rewrite firstn_length. lia. }
  pose proof (read_block_placed (firstn (N.to_nat g) f) data
                (skipn (N.to_nat g + length (mk_block data)) f)) as P.
  rewrite <- E in P. exact P.
Qed.

(* reading any block disjoint from the rewritten range is unaffected *)
Lemma read_block_splice_other f g nb off size :
  (g + length nb <= length f)%nat ->
  (off + size + 4 <= N.of_nat g \/ N.of_nat (g + length nb) <= off) ->
  read_block (splice g nb f) off size = read_block f off size.
Proof.
  intros Hg D. unfold read_block, lenN. rewrite splice_length by assumption.
  destruct (N.leb_spec (off + size + 4) (N.of_nat (length f))); [|reflexivity].
  rewrite subN_splice_disjoint; [reflexivity|assumption|lia].
Qed.

Lemma run_read_info f g : run f (read_info_p g) =
  match read_block f g 252 with Ok d => parse_all p_pack_info d | Err e => Err e end.
Proof. unfold read_info_p. cbn [run]. destruct (read_block f g 252); [apply run_lift|reflexivity]. Qed.

Lemma wf_bytes_splice g nb f : wf_bytes f -> wf_bytes nb -> wf_bytes (splice g nb f).
Proof.
  intros Wf Wn. unfold splice. apply wf_bytes_app. split; [now apply wf_bytes_firstn|].
  apply wf_bytes_app. split; [assumption|now apply wf_bytes_skipn].
Qed.

Lemma wf_bytes_le_enc n v : wf_bytes (le_enc n v).
Proof. apply le_enc_wf. Qed.

Lemma wf_bytes_ser_pack_info pi : wf_pack_info pi -> wf_bytes (pi_uuid pi) -> wf_bytes (pi_loc pi) ->
  wf_bytes (ser_pack_info pi).
Proof.
  intros (Hu & Hs & Hc & Hid & Hg & Hf & Hl & Hu8) Wu Wl.
  unfold ser_pack_info, pi_fixed, ser_location, ser_sized_offset.
  repeat (apply wf_bytes_app; split); try apply le_enc_wf; try assumption; try apply wf_bytes_repeat0.
  - constructor; [destruct (pi_kind pi); cbn; lia|constructor].
  - constructor; [assumption|constructor].
  - constructor; [lia|constructor].
Qed.

(* ---- the search for the pack info ---- *)
Lemma find_info_found f u : forall n g0 g pi,
  run f (find_info_p g0 n u) = Ok (Some (g, pi)) ->
  exists j, (j < n)%nat /\ g = g0 + 256 * N.of_nat j /\ run f (read_info_p g) = Ok pi /\
            list_eqb (pi_uuid pi) u = true.
Proof.
  induction n as [|n IH]; intros g0 g pi; cbn [find_info_p]; [cbn [run]; discriminate|].
  rewrite run_pbind. destruct (run f (read_info_p g0)) as [pi0|e] eqn:R; [|discriminate].
  destruct (list_eqb (pi_uuid pi0) u) eqn:EQ.
  - cbn [run]. intros E. injection E as <- <-. exists 0%nat. repeat split; try lia; assumption.
  - intros E. apply IH in E. destruct E as (j & Hj & -> & Hr & He).
    exists (S j). repeat split; try lia; assumption.
Qed.

Lemma find_info_none f u : forall n g0,
  run f (find_info_p g0 n u) = Ok None ->
  forall j, (j < n)%nat -> exists pi, run f (read_info_p (g0 + 256 * N.of_nat j)) = Ok pi /\
                                      list_eqb (pi_uuid pi) u = false.
Proof.
  induction n as [|n IH]; intros g0; cbn [find_info_p]; [intros _ j Hj; lia|].
  rewrite run_pbind. destruct (run f (read_info_p g0)) as [pi0|e] eqn:R; [|discriminate].
  destruct (list_eqb (pi_uuid pi0) u) eqn:EQ; [cbn [run]; discriminate|].
  intros E j Hj. destruct j as [|j].
  - exists pi0. replace (g0 + 256 * N.of_nat 0) with g0 by lia. auto.
  - destruct (IH _ E j ltac:(lia)) as (pi & Hr & He). exists pi.
    replace (g0 + 256 * N.of_nat (S j)) with (g0 + 256 + 256 * N.of_nat j) by lia. auto.
Qed.

(* ---- one rewrite ---- *)
Lemma layout_okb_inv f : layout_okb f = true ->
  exists m, run f locate_manifest_p = Ok m /\
            disjoint_run f (ml_lo m) (ml_hi m) locate_manifest_p = true /\
            ml_count m * 256 <= ph_check_pos (ml_header m) /\
            ml_pos m + ph_check_pos (ml_header m) <= lenN f.
Proof.
  unfold layout_okb. destruct (run f locate_manifest_p) as [m|e]; [|discriminate].
  intros H. apply andb_prop in H. destruct H as [H H3]. apply andb_prop in H. destruct H as [H1 H2].
  exists m. repeat split; try assumption; now apply N.leb_le.
Qed.

Lemma set_location_found f u loc f' k old :
  set_location f u loc = Ok (Some (f', k, old)) ->
  exists m j pi, run f locate_manifest_p = Ok m /\ (j < N.to_nat (ml_count m))%nat /\
    run f (read_info_p (ml_lo m + 256 * N.of_nat j)) = Ok pi /\ list_eqb (pi_uuid pi) u = true /\
    k = pi_kind pi /\ old = pi_loc pi /\
    f' = splice (N.to_nat (ml_lo m + 256 * N.of_nat j)) (new_block pi loc) f.
Proof.
  unfold set_location, find_target_p. rewrite run_pbind.
  destruct (run f locate_manifest_p) as [m|e]; [|discriminate].
  destruct (run f (find_info_p (ml_lo m) (N.to_nat (ml_count m)) u)) as [[[g pi]|]|e] eqn:F; try discriminate.
  intros E. injection E as <- <- <-.
  apply find_info_found in F. destruct F as (j & Hj & -> & Hr & He).
  exists m, j, pi. repeat split; assumption.
Qed.

Lemma skipn_splice {A} a g (nb f : list A) : (a <= g)%nat -> (g + length nb <= length f)%nat ->
  skipn a (splice g nb f) = splice (g - a) nb (skipn a f).
Proof.
  intros Ha Hg. unfold splice. rewrite skipn_app, firstn_length.
  replace (a - Nat.min g (length f))%nat with 0%nat by lia. cbn [skipn].
  rewrite skipn_firstn_comm. f_equal. f_equal. rewrite skipn_skipn. f_equal. lia.
Qed.

Section OneRewrite.
Variables (f loc : list N) (m : manifest_loc) (j : nat) (pi : pack_info).
Let g := ml_lo m + 256 * N.of_nat j.
Let f' := splice (N.to_nat g) (new_block pi loc) f.
Hypothesis Wf : wf_bytes f.
Hypothesis Wl : wf_bytes loc.
Hypothesis Hwl : wf_loc loc.
Let Ll : (length loc <= 213)%nat := proj1 Hwl.
Let Ul : utf8_valid loc = true := proj2 Hwl.
Hypothesis LO : layout_okb f = true.
Hypothesis Hm : run f locate_manifest_p = Ok m.
Hypothesis Hj : (j < N.to_nat (ml_count m))%nat.
Hypothesis Hr : run f (read_info_p g) = Ok pi.

Let d := firstn 252 (subN g 256 f).

Lemma rw_block : g + 256 <= lenN f /\ parse_all p_pack_info d = Ok pi /\ wf_bytes d /\ length d = 252%nat.
Proof.
  rewrite run_read_info in Hr. destruct (read_block f g 252) as [d0|e] eqn:R; [|discriminate].
  apply read_block_inv in R. destruct R as (L & C & ->).
  change (252 + 4) with 256 in *. change (N.to_nat 252) with 252%nat in *. fold d in Hr.
  repeat split; try assumption; try lia.
  - subst d. apply wf_bytes_firstn. unfold subN. now apply wf_bytes_sub.
  - subst d. rewrite firstn_length. unfold subN. rewrite sub_length; unfold lenN in L; lia.
Qed.

Lemma rw_pi : wf_pack_info pi /\ firstn 38 d = pi_fixed pi /\ wf_bytes (pi_loc pi).
Proof. destruct rw_block as (_ & P & W & L). now apply p_pack_info_canon. Qed.

Lemma rw_wf_uuid : wf_bytes (pi_uuid pi).
Proof.
  destruct rw_pi as (Wp & F & _). destruct rw_block as (_ & _ & W & _).
  assert (wf_bytes (pi_fixed pi)) by (rewrite <- F; now apply wf_bytes_firstn).
  unfold pi_fixed in H. now apply wf_bytes_app_l in H.
Qed.

Lemma rw_nb_length : length (new_block pi loc) = 256%nat.
Proof. destruct rw_pi as (Wp & _). now apply new_block_length. Qed.

Lemma rw_in_file : (N.to_nat g + length (new_block pi loc) <= length f)%nat.
Proof. rewrite rw_nb_length. destruct rw_block as (L & _). unfold lenN in L. lia. Qed.

(* only that block changes *)
Theorem rw_length : length f' = length f.
Proof. subst f'. apply splice_length, rw_in_file. Qed.

Theorem rw_frame p : (p < N.to_nat g \/ N.to_nat g + 256 <= p)%nat -> nth_error f' p = nth_error f p.
Proof.
  intros H. subst f'. apply nth_error_splice_out; [apply rw_in_file|]. rewrite rw_nb_length. exact H.
Qed.

Lemma rw_nb_fixed : firstn 38 (new_block pi loc) = pi_fixed pi.
Proof.
  destruct rw_pi as (Wp & _). unfold new_block, mk_block, ser_pack_info.
  rewrite pi_fixed_set_loc, <- app_assoc. apply firstn_app_len.
  symmetry. apply pi_fixed_length. apply Wp.
Qed.

(* the 38 bytes covered by the manifest check are unchanged as well *)
Theorem rw_fixed_unchanged : sub (N.to_nat g) 38 f' = sub (N.to_nat g) 38 f.
Proof.
  destruct rw_pi as (Wp & F & _).
  transitivity (pi_fixed pi).
  - subst f'. pose proof rw_in_file as I. pose proof rw_nb_length as LN.
    pose proof (splice_sub_same (N.to_nat g) (new_block pi loc) f I) as S.
    rewrite <- rw_nb_fixed. rewrite <- S at 2. rewrite firstn_sub, sub_sub by lia. f_equal. lia.
  - rewrite <- F. subst d. unfold subN. rewrite firstn_firstn. cbn [Nat.min].
    rewrite firstn_sub, sub_sub by (change (N.to_nat 256) with 256%nat; lia). f_equal. lia.
Qed.

(* the new location is what is read back; every other field of that pack info is kept *)
Theorem rw_readback : run f' (read_info_p g) = Ok (set_loc pi loc).
Proof.
  destruct rw_pi as (Wp & _). pose proof rw_in_file as I. rewrite rw_nb_length in I.
  assert (W' : wf_pack_info (set_loc pi loc)) by (now apply wf_set_loc).
  rewrite run_read_info. subst f'. unfold new_block.
  replace 252 with (lenN (ser_pack_info (set_loc pi loc)))
    by (unfold lenN; now rewrite ser_pack_info_length).
  rewrite read_block_spliced by (rewrite ser_pack_info_length by assumption; lia).
  unfold parse_all. rewrite <- (app_nil_r (ser_pack_info (set_loc pi loc))).
  now rewrite p_pack_info_ser.
Qed.

Lemma rw_inside : ml_lo m <= g /\ g + 256 <= ml_hi m.
Proof. subst g. unfold ml_hi. lia. Qed.

(* the manifest is found at the same place, with the same headers *)
Theorem rw_locate : run f' locate_manifest_p = Ok m.
Proof.
  destruct (layout_okb_inv f LO) as (m0 & Hm0 & D & C1 & C2).
  rewrite Hm in Hm0. injection Hm0 as <-.
  pose proof rw_in_file as I. pose proof rw_nb_length as LN. pose proof rw_inside as [I1 I2].
  rewrite <- Hm. subst f'. apply run_splice_disjoint; [assumption|].
  apply (disjoint_run_mono _ f (ml_lo m) (ml_hi m)); [lia|lia|assumption].
Qed.

(* every other pack info reads exactly as before *)
Theorem rw_others j' : (j' < N.to_nat (ml_count m))%nat -> j' <> j ->
  run f' (read_info_p (ml_lo m + 256 * N.of_nat j')) = run f (read_info_p (ml_lo m + 256 * N.of_nat j')).
Proof.
  intros H1 H2. rewrite !run_read_info. subst f'.
  rewrite read_block_splice_other; [reflexivity|apply rw_in_file|].
  rewrite rw_nb_length. subst g. lia.
Qed.

(* the manifest's global check hashes exactly the same bytes *)
Theorem rw_view : manifest_view f' = manifest_view f.
Proof.
  destruct (layout_okb_inv f LO) as (m0 & Hm0 & D & C1 & C2).
  rewrite Hm in Hm0. injection Hm0 as <-.
  unfold manifest_view. rewrite rw_locate, Hm.
  unfold lenN. rewrite rw_length. fold (lenN f).
  destruct (N.leb_spec (ml_pos m + ph_check_pos (ml_header m)) (lenN f)) as [L|L]; [|reflexivity].
  f_equal. unfold view_of. pose proof rw_in_file as I. pose proof rw_nb_length as LN.
  unfold ml_lo in g.
  subst f'. rewrite skipn_splice by (subst g; lia).
  replace (N.to_nat g - N.to_nat (ml_pos m))%nat
    with (N.to_nat (ml_infos_off m) + j * 256)%nat by (subst g; lia).
  apply set_loc_view_invariant.
  - exact Hj.
  - unfold ml_infos_off. lia.
  - rewrite skipn_length. unfold lenN in *. lia.
  - exact LN.
  - rewrite rw_nb_fixed. destruct rw_pi as (_ & F & _). rewrite <- F. subst d. unfold subN, sub.
    rewrite skipn_skipn. change (N.to_nat 256) with 256%nat.
    rewrite !firstn_firstn. cbn [Nat.min]. do 2 f_equal. subst g. lia.
Qed.

(* hence the global check gives the same answer, whatever the hash function *)
Theorem rw_check H : manifest_check H f' = manifest_check H f.
Proof.
  destruct (layout_okb_inv f LO) as (m0 & Hm0 & D & C1 & C2).
  rewrite Hm in Hm0. injection Hm0 as <-.
  unfold manifest_check. rewrite rw_locate, Hm, rw_view.
  pose proof rw_in_file as I. pose proof rw_nb_length as LN. pose proof rw_inside as [I1 I2].
  subst f'. rewrite read_block_splice_other; [reflexivity|assumption|].
  right. rewrite LN. unfold ml_hi, ml_lo, ml_infos_off in *. lia.
Qed.

Theorem rw_wf : wf_bytes f'.
Proof.
  destruct rw_pi as (Wp & _ & Wloc). subst f'. apply wf_bytes_splice; [assumption|].
  unfold new_block, mk_block. apply wf_bytes_app. split; [|apply crc_bytes_wf].
  apply wf_bytes_ser_pack_info; [now apply wf_set_loc|apply rw_wf_uuid|assumption].
Qed.

Theorem rw_layout : layout_okb f' = true.
Proof.
  destruct (layout_okb_inv f LO) as (m0 & Hm0 & D & C1 & C2).
  rewrite Hm in Hm0. injection Hm0 as <-.
  unfold layout_okb. rewrite rw_locate.
  pose proof rw_in_file as I. pose proof rw_nb_length as LN. pose proof rw_inside as [I1 I2].
  assert (LL : lenN f' = lenN f) by (unfold lenN; now rewrite rw_length).
  rewrite LL.
  rewrite (disjoint_run_agree_eq _ f f').
  - rewrite D. cbn [andb]. apply andb_true_intro. split; apply N.leb_le; assumption.
  - exact LL.
  - subst f'. apply disjoint_run_agree; [assumption|].
    apply (disjoint_run_mono _ f (ml_lo m) (ml_hi m)); [lia|lia|assumption].
Qed.
End OneRewrite.

(* ---- any sequence of rewrites ---- *)
Definition Inv (f0 f : list N) : Prop :=
  wf_bytes f /\ layout_okb f = true /\ length f = length f0 /\
  run f locate_manifest_p = run f0 locate_manifest_p /\
  manifest_view f = manifest_view f0 /\
  (forall H, manifest_check H f = manifest_check H f0) /\
  forall m, run f0 locate_manifest_p = Ok m ->
    forall p, (p < N.to_nat (ml_lo m) \/ N.to_nat (ml_hi m) <= p)%nat -> nth_error f p = nth_error f0 p.

Lemma Inv_refl f : wf_bytes f -> layout_okb f = true -> Inv f f.
Proof. intros W L. repeat split; auto. Qed.

Lemma Inv_step f0 f u loc f' k old :
  Inv f0 f -> wf_bytes loc -> wf_loc loc ->
  set_location f u loc = Ok (Some (f', k, old)) -> Inv f0 f'.
Proof.
  intros (W & LO & Len & Loc & V & Ck & Fr) Wl Ll S.
  apply set_location_found in S. destruct S as (m & j & pi & Hm & Hj & Hr & He & -> & -> & ->).
  repeat split.
  - now apply (rw_wf f loc m j pi).
  - now apply (rw_layout f loc m j pi).
  - rewrite <- Len. now apply (rw_length f loc m j pi).
  - rewrite <- Loc, Hm. now apply (rw_locate f loc m j pi).
  - rewrite <- V. now apply (rw_view f loc m j pi).
  - intros H. rewrite <- Ck. now apply (rw_check f loc m j pi).
  - intros m0 Hm0 p Hp. rewrite <- Loc, Hm in Hm0. injection Hm0 as <-.
    rewrite <- (Fr m) by (try rewrite <- Loc; assumption).
    apply (rw_frame f loc m j pi); try assumption.
    unfold ml_hi in Hp. lia.
Qed.

Theorem set_locations_inv f0 ops : forall f f'',
  Inv f0 f -> Forall (fun o => wf_bytes (snd o) /\ wf_loc (snd o)) ops ->
  set_locations f ops = Ok f'' -> Inv f0 f''.
Proof.
  induction ops as [|[u loc] ops IH]; intros f f'' I Hops; cbn [set_locations].
  - intros E. injection E as <-. exact I.
  - inversion Hops as [|? ? [Wl Ll] Hrest]; subst. cbn [snd] in *.
    destruct (set_location f u loc) as [[[[f' k] old]|]|e] eqn:S; [| |discriminate].
    + intros E. apply (IH f'); [|assumption|assumption]. now apply (Inv_step f0 f u loc f' k old).
    + intros E. now apply (IH f).
Qed.

(* naming a pack that is not in the manifest finds nothing: no pack info carries that uuid *)
Theorem set_location_unknown f u loc :
  set_location f u loc = Ok None ->
  exists m, run f locate_manifest_p = Ok m /\
    forall j, (j < N.to_nat (ml_count m))%nat ->
      exists pi, run f (read_info_p (ml_lo m + 256 * N.of_nat j)) = Ok pi /\ list_eqb (pi_uuid pi) u = false.
Proof.
  unfold set_location, find_target_p. rewrite run_pbind.
  destruct (run f locate_manifest_p) as [m|e]; [|discriminate].
  destruct (run f (find_info_p (ml_lo m) (N.to_nat (ml_count m)) u)) as [[[g pi]|]|e] eqn:F; try discriminate.
  intros _. exists m. split; [reflexivity|]. now apply find_info_none.
Qed.
Close Scope N_scope.
