(* The content-pack creator as a state machine over insertions
   (src/creator/content_pack/creator.rs get_open_cluster / add_content, cluster.rs is_full):
   one open raw cluster, one open compressed cluster, dense cluster ids, content infos.
   Sizes are N; blob counts are nat (at most 4095). *)
From Coq Require Import List Arith Bool NArith Lia.
Import ListNotations.



Section Split.
Variable A : Type.                  (* a content (its bytes) *)
Variable len : A -> N.
Definition MAX_BLOBS := 4095.
Definition CLUSTER_SIZE : N := 4194304%N.

(* cluster k of the pack is [nth k cs]: (compressed?, blobs in order) *)
Definition cluster := (bool * list A)%type.
Record st := { cs : list cluster; raw_open : option nat; comp_open : option nat; infos : list (nat * nat) }.

Definition data_size (c : cluster) : N := fold_right (fun b n => (len b + n)%N) 0%N (snd c).
(* creator/content_pack/cluster.rs:29 *)
Definition is_full (c : cluster) (size : N) : bool :=
  (length (snd c) =? MAX_BLOBS) ||
  (fst c && negb (length (snd c) =? 0) && (CLUSTER_SIZE <? data_size c + size)%N).

Definition slot (s : st) (comp : bool) := if comp then comp_open s else raw_open s.
Definition with_slot (s : st) (comp : bool) (k : nat) (cs' : list cluster) (inf : list (nat*nat)) : st :=
  if comp then {| cs := cs'; raw_open := raw_open s; comp_open := Some k; infos := inf |}
  else {| cs := cs'; raw_open := Some k; comp_open := comp_open s; infos := inf |}.

Fixpoint upd (k : nat) (f : cluster -> cluster) (l : list cluster) : list cluster :=
  match l, k with
  | [], _ => []
  | c :: l, O => f c :: l
  | c :: l, S k => c :: upd k f l
  end.
Definition push (x : A) (c : cluster) : cluster := (fst c, snd c ++ [x]).

(* creator.rs: get_open_cluster + ClusterCreator::add_content + content_infos.push *)
Definition add (s : st) (op : A * bool) : st :=
  let (x, comp) := op in
  let fresh := with_slot s comp (length (cs s)) (cs s ++ [(comp, [x])]) (infos s ++ [(length (cs s), 0)]) in
  match slot s comp with
  | Some k =>
      match nth_error (cs s) k with
      | Some c =>
          if is_full c (len x) then fresh
          else with_slot s comp k (upd k (push x) (cs s)) (infos s ++ [(k, length (snd c))])
      | None => fresh (* unreachable, excluded by the invariant *)
      end
  | None => fresh
  end.
Definition init : st := {| cs := []; raw_open := None; comp_open := None; infos := [] |}.

Definition resolve (l : list cluster) (inf : nat * nat) : option A :=
  match nth_error l (fst inf) with
  | Some c => nth_error (snd c) (snd inf)
  | None => None
  end.

Record Inv (s : st) (added : list A) : Prop := {
  inv_len  : length (infos s) = length added;
  inv_res  : forall i x, nth_error added i = Some x ->
               exists inf, nth_error (infos s) i = Some inf /\ resolve (cs s) inf = Some x;
  inv_size : forall k c, nth_error (cs s) k = Some c -> 1 <= length (snd c) <= MAX_BLOBS;
  inv_raw  : forall k, raw_open s = Some k -> exists c, nth_error (cs s) k = Some c /\ fst c = false;
  inv_comp : forall k, comp_open s = Some k -> exists c, nth_error (cs s) k = Some c /\ fst c = true
}.

Lemma inv_init : Inv init [].
Proof.
  constructor; simpl; try reflexivity; try discriminate.
  - intros [|i] x H; discriminate.
  - intros [|k] c H; discriminate.
Qed.

Lemma upd_length k f l : length (upd k f l) = length l.
Proof. revert k; induction l as [|c l IH]; intros [|k]; simpl; auto. Qed.
Lemma upd_same k f l c : nth_error l k = Some c -> nth_error (upd k f l) k = Some (f c).
Proof. revert k; induction l as [|d l IH]; intros [|k] H; simpl in *; try discriminate; [congruence|auto]. Qed.
Lemma upd_other k k' f l : k <> k' -> nth_error (upd k f l) k' = nth_error l k'.
Proof. revert k k'; induction l as [|d l IH]; intros [|k] [|k'] H; simpl; try reflexivity; try lia. apply IH. lia. Qed.

Lemma nth_error_push (l : list A) x k y : nth_error l k = Some y -> nth_error (l ++ [x]) k = Some y.
Proof. intros H. rewrite nth_error_app1; [assumption|]. apply nth_error_Some. congruence. Qed.

(* resolution of old addresses survives both kinds of step *)
Lemma resolve_app l c inf x : resolve l inf = Some x -> resolve (l ++ [c]) inf = Some x.
Proof.
  unfold resolve. destruct (nth_error l (fst inf)) eqn:E; [|discriminate].
  rewrite nth_error_app1 by (apply nth_error_Some; congruence). now rewrite E.
Qed.
Lemma resolve_upd l k y inf x : resolve l inf = Some x -> resolve (upd k (push y) l) inf = Some x.
Proof.
  unfold resolve. destruct (nth_error l (fst inf)) as [c|] eqn:E; [|discriminate]. intros H.
  destruct (Nat.eq_dec k (fst inf)) as [->|Hne].
  - rewrite (upd_same _ _ _ _ E). simpl. now apply nth_error_push.
  - rewrite upd_other by assumption. now rewrite E.
Qed.

Lemma nth_error_snoc {B} (l : list B) (b : B) i x :
  nth_error (l ++ [b]) i = Some x -> (i < length l /\ nth_error l i = Some x) \/ (i = length l /\ x = b).
Proof.
  intros H. destruct (Nat.lt_ge_cases i (length l)) as [Hlt|Hge].
  - left. split; [assumption|]. now rewrite nth_error_app1 in H.
  - right. rewrite nth_error_app2 in H by assumption.
    destruct (i - length l) as [|d] eqn:Ed; simpl in H; [|destruct d; discriminate].
    split; [lia|congruence].
Qed.

Lemma with_slot_cs s comp k l inf : cs (with_slot s comp k l inf) = l.
Proof. destruct comp; reflexivity. Qed.
Lemma with_slot_infos s comp k l inf : infos (with_slot s comp k l inf) = inf.
Proof. destruct comp; reflexivity. Qed.

Lemma fresh_inv s added x comp : Inv s added ->
  Inv (with_slot s comp (length (cs s)) (cs s ++ [(comp, [x])]) (infos s ++ [(length (cs s), 0)])) (added ++ [x]).
Proof.
  intros I. constructor.
  - rewrite with_slot_infos, !app_length, (inv_len _ _ I). reflexivity.
  - intros i y H. rewrite with_slot_infos, with_slot_cs.
    apply nth_error_snoc in H. destruct H as [[Hlt H]|[-> ->]].
    + destruct (inv_res _ _ I i y H) as [inf [Hi Hr]]. exists inf. split.
      * rewrite nth_error_app1; [assumption|]. rewrite (inv_len _ _ I). assumption.
      * now apply resolve_app.
    + exists (length (cs s), 0). split.
      * rewrite <- (inv_len _ _ I). rewrite nth_error_app2 by lia. now rewrite Nat.sub_diag.
      * unfold resolve. simpl. rewrite nth_error_app2 by lia. now rewrite Nat.sub_diag.
  - intros k c H. rewrite with_slot_cs in H. apply nth_error_snoc in H. destruct H as [[_ H]|[_ ->]].
    + exact (inv_size _ _ I k c H).
    + simpl. unfold MAX_BLOBS. lia.
  - intros k H. destruct comp; simpl in *.
    + destruct (inv_raw _ _ I k H) as [c [Hc Hf]]. exists c. split; [|assumption].
      rewrite nth_error_app1; [assumption|]. apply nth_error_Some. congruence.
    + injection H as <-. exists (false, [x]). split; [|reflexivity].
      rewrite nth_error_app2 by lia. now rewrite Nat.sub_diag.
  - intros k H. destruct comp; simpl in *.
    + injection H as <-. exists (true, [x]). split; [|reflexivity].
      rewrite nth_error_app2 by lia. now rewrite Nat.sub_diag.
    + destruct (inv_comp _ _ I k H) as [c [Hc Hf]]. exists c. split; [|assumption].
      rewrite nth_error_app1; [assumption|]. apply nth_error_Some. congruence.
Qed.

Lemma push_inv s added x comp k c : Inv s added -> slot s comp = Some k -> nth_error (cs s) k = Some c ->
  is_full c (len x) = false ->
  Inv (with_slot s comp k (upd k (push x) (cs s)) (infos s ++ [(k, length (snd c))])) (added ++ [x]).
Proof.
  intros I Hs Hc Hf.
  assert (Hlt : length (snd c) < MAX_BLOBS).
  { pose proof (inv_size _ _ I k c Hc). unfold is_full in Hf. apply orb_false_iff in Hf.
    destruct Hf as [Hf _]. apply Nat.eqb_neq in Hf. lia. }
  constructor.
  - rewrite with_slot_infos, !app_length, (inv_len _ _ I). reflexivity.
  - intros i y H. rewrite with_slot_infos, with_slot_cs.
    apply nth_error_snoc in H. destruct H as [[Hi H]|[-> ->]].
    + destruct (inv_res _ _ I i y H) as [inf [Hinf Hr]]. exists inf. split.
      * rewrite nth_error_app1; [assumption|]. rewrite (inv_len _ _ I). assumption.
      * now apply resolve_upd.
    + exists (k, length (snd c)). split.
      * rewrite <- (inv_len _ _ I). rewrite nth_error_app2 by lia. now rewrite Nat.sub_diag.
      * unfold resolve. simpl. rewrite (upd_same _ _ _ _ Hc). simpl.
        rewrite nth_error_app2 by lia. now rewrite Nat.sub_diag.
  - intros k' c' H. rewrite with_slot_cs in H. destruct (Nat.eq_dec k k') as [<-|Hne].
    + rewrite (upd_same _ _ _ _ Hc) in H. injection H as <-. simpl. rewrite app_length. simpl. lia.
    + rewrite upd_other in H by assumption. exact (inv_size _ _ I k' c' H).
  - intros k' H.
    assert (Hk' : exists c', nth_error (cs s) k' = Some c' /\ fst c' = false).
    { destruct comp; simpl in *; [exact (inv_raw _ _ I k' H)|].
      injection H as <-. destruct (inv_raw _ _ I k Hs) as [c0 [H0 F0]]. eauto. }
    destruct Hk' as [c' [Hc' Fc']]. rewrite with_slot_cs. destruct (Nat.eq_dec k k') as [<-|Hne].
    + rewrite (upd_same _ _ _ _ Hc). exists (push x c). split; [reflexivity|]. simpl. congruence.
    + rewrite upd_other by assumption. eauto.
  - intros k' H.
    assert (Hk' : exists c', nth_error (cs s) k' = Some c' /\ fst c' = true).
    { destruct comp; simpl in *; [|exact (inv_comp _ _ I k' H)].
      injection H as <-. destruct (inv_comp _ _ I k Hs) as [c0 [H0 F0]]. eauto. }
    destruct Hk' as [c' [Hc' Fc']]. rewrite with_slot_cs. destruct (Nat.eq_dec k k') as [<-|Hne].
    + rewrite (upd_same _ _ _ _ Hc). exists (push x c). split; [reflexivity|]. simpl. congruence.
    + rewrite upd_other by assumption. eauto.
Qed.

Lemma add_inv s added x comp : Inv s added -> Inv (add s (x, comp)) (added ++ [x]).
Proof.
  intros I. unfold add.
  destruct (slot s comp) as [k|] eqn:Hs; [|now apply fresh_inv].
  destruct (nth_error (cs s) k) as [c|] eqn:Hc; [|now apply fresh_inv].
  destruct (is_full c (len x)) eqn:Hf; [now apply fresh_inv|].
  now apply push_inv.
Qed.

(* every reachable state: all addresses handed out so far resolve to their own content *)
Theorem adds_inv ops : Inv (fold_left add ops init) (map fst ops).
Proof.
  assert (G : forall s added, Inv s added -> Inv (fold_left add ops s) (added ++ map fst ops)).
  { induction ops as [|[x comp] ops IH]; intros s added I; simpl.
    - now rewrite app_nil_r.
    - replace (added ++ x :: map fst ops) with ((added ++ [x]) ++ map fst ops) by now rewrite <- app_assoc.
      apply IH. now apply add_inv. }
  apply (G init []). apply inv_init.
Qed.

Corollary address_resolves ops i x : nth_error (map fst ops) i = Some x ->
  exists inf, nth_error (infos (fold_left add ops init)) i = Some inf /\
              resolve (cs (fold_left add ops init)) inf = Some x /\
              snd inf < MAX_BLOBS.
Proof.
  intros H. destruct (inv_res _ _ (adds_inv ops) i x H) as [inf [Hi Hr]].
  exists inf. repeat split; try assumption.
  unfold resolve in Hr. destruct (nth_error (cs (fold_left add ops init)) (fst inf)) as [c|] eqn:E; [|discriminate].
  pose proof (inv_size _ _ (adds_inv ops) _ _ E).
  assert (snd inf < length (snd c)) by (apply nth_error_Some; congruence). lia.
Qed.

(* ---- C16: the cluster a content lands in has exactly the requested storage kind ---- *)
Definition InvK (s : st) (ops : list (A * bool)) : Prop :=
  forall i x comp, nth_error ops i = Some (x, comp) ->
    exists inf c, nth_error (infos s) i = Some inf /\ nth_error (cs s) (fst inf) = Some c /\ fst c = comp.

Lemma upd_push_fst k y l k' c : nth_error l k' = Some c ->
  exists c', nth_error (upd k (push y) l) k' = Some c' /\ fst c' = fst c.
Proof.
  intros H. destruct (Nat.eq_dec k k') as [->|Hne].
  - rewrite (upd_same _ _ _ _ H). eexists; split; [reflexivity|reflexivity].
  - rewrite upd_other by assumption. eauto.
Qed.

Lemma add_invK s ops x comp : Inv s (map fst ops) -> InvK s ops -> InvK (add s (x, comp)) (ops ++ [(x, comp)]).
Proof.
  intros I K i y c' H.
  assert (Hlen : length (infos s) = length ops) by (rewrite (inv_len _ _ I); apply map_length).
  unfold add.
  assert (FRESH : exists inf c,
    nth_error (infos (with_slot s comp (length (cs s)) (cs s ++ [(comp, [x])]) (infos s ++ [(length (cs s), 0)]))) i = Some inf /\
    nth_error (cs (with_slot s comp (length (cs s)) (cs s ++ [(comp, [x])]) (infos s ++ [(length (cs s), 0)]))) (fst inf) = Some c /\
    fst c = c').
  { rewrite with_slot_infos, with_slot_cs. apply nth_error_snoc in H. destruct H as [[Hlt H]|[-> E]].
    - destruct (K i y c' H) as (inf & c & Hi & Hc & Hf). exists inf, c. repeat split; try assumption.
      + rewrite nth_error_app1; [assumption|lia].
      + rewrite nth_error_app1; [assumption|]. apply nth_error_Some. congruence.
    - injection E as -> ->. exists (length (cs s), 0), (comp, [x]). repeat split.
      + rewrite <- Hlen. rewrite nth_error_app2 by lia. now rewrite Nat.sub_diag.
      + cbn [fst]. rewrite nth_error_app2 by lia. now rewrite Nat.sub_diag. }
  destruct (slot s comp) as [k|] eqn:Hs; [|exact FRESH].
  destruct (nth_error (cs s) k) as [c|] eqn:Hc; [|exact FRESH].
  destruct (is_full c (len x)) eqn:Hf; [exact FRESH|].
  rewrite with_slot_infos, with_slot_cs. apply nth_error_snoc in H. destruct H as [[Hlt H]|[-> E]].
  - destruct (K i y c' H) as (inf & c0 & Hi & Hc0 & Hf0).
    destruct (upd_push_fst k x (cs s) (fst inf) c0 Hc0) as (c1 & Hc1 & Hf1).
    exists inf, c1. repeat split; try assumption; [|congruence].
    rewrite nth_error_app1; [assumption|lia].
  - injection E as -> ->. exists (k, length (snd c)), (push x c). repeat split.
    + rewrite <- Hlen. rewrite nth_error_app2 by lia. now rewrite Nat.sub_diag.
    + cbn [fst]. apply upd_same. exact Hc.
    + cbn [push fst]. destruct comp; cbn [slot] in Hs.
      * destruct (inv_comp _ _ I k Hs) as (c2 & Hc2 & F2). congruence.
      * destruct (inv_raw _ _ I k Hs) as (c2 & Hc2 & F2). congruence.
Qed.

Theorem adds_invK ops : InvK (fold_left add ops init) ops.
Proof.
  assert (G : forall rest s done, Inv s (map fst done) -> InvK s done ->
              InvK (fold_left add rest s) (done ++ rest)).
  { induction rest as [|[x comp] rest IH]; intros s done I K; cbn [fold_left].
    - now rewrite app_nil_r.
    - replace (done ++ (x, comp) :: rest) with ((done ++ [(x, comp)]) ++ rest) by (now rewrite <- app_assoc).
      apply IH.
      + rewrite map_app. cbn [map fst]. now apply add_inv.
      + now apply add_invK. }
  apply (G ops init []); [apply inv_init|].
  intros i x comp H. destruct i; discriminate.
Qed.
End Split.

(* ---- the hint decision (creator.rs detect_compression) ---- *)
Inductive hint := HYes | HNo | HDetect.
Definition decide (pack_compresses : bool) (h : hint) (detected : bool) : bool :=
  pack_compresses && match h with HYes => true | HNo => false | HDetect => detected end.

Lemma decide_no pc d : decide pc HNo d = false.
Proof. unfold decide. apply andb_false_r. Qed.
Lemma decide_pack_none h d : decide false h d = false.
Proof. reflexivity. Qed.
Lemma decide_yes d : decide true HYes d = true.
Proof. reflexivity. Qed.

(* ---- the deduplicating adder (content_pack/mod.rs CachedContentAdder) ---- *)
Section Dedup.
Variables (A K : Type) (len : A -> N) (key : A -> K) (keqb : K -> K -> bool).
Hypothesis keqb_spec : forall a b, keqb a b = true <-> a = b.

Record dst := { inner : st A; cache : list (K * nat) }.     (* key -> content index *)
Definition dinit : dst := {| inner := init A; cache := [] |}.
Fixpoint lookup (k : K) (c : list (K * nat)) : option nat :=
  match c with [] => None | (k', i) :: c => if keqb k' k then Some i else lookup k c end.
(* returns the content index handed back to the caller *)
Definition cached_add (s : dst) (op : A * bool) : dst * nat :=
  match lookup (key (fst op)) (cache s) with
  | Some i => (s, i)
  | None => let i := length (infos A (inner s)) in
            ({| inner := add A len (inner s) op; cache := (key (fst op), i) :: cache s |}, i)
  end.

(* stored: the contents actually inserted, in order *)
Definition DInv (s : dst) (stored : list A) : Prop :=
  Inv A (inner s) stored /\
  (forall k i, lookup k (cache s) = Some i -> exists y, nth_error stored i = Some y /\ key y = k) /\
  (forall i y, nth_error stored i = Some y -> lookup (key y) (cache s) <> None).

Lemma lookup_cons k k' i c : lookup k ((k', i) :: c) = if keqb k' k then Some i else lookup k c.
Proof. reflexivity. Qed.

Theorem cached_add_inv s stored x comp :
  DInv s stored ->
  let (s', i) := cached_add s (x, comp) in
  exists stored', DInv s' stored' /\
    (* the address handed back designates a stored content with the same key: x itself,
       or an explicit hash collision *)
    (exists y, nth_error stored' i = Some y /\ key y = key x) /\
    (* the pack grows only on first insertion *)
    (lookup (key x) (cache s) <> None -> stored' = stored /\ s' = s) /\
    (lookup (key x) (cache s) = None -> stored' = stored ++ [x] /\ i = length stored).
Proof.
  intros (I & C1 & C2). unfold cached_add. cbn [fst].
  destruct (lookup (key x) (cache s)) as [i|] eqn:L.
  - exists stored. split; [exact (conj I (conj C1 C2))|]. split; [now apply C1|].
    split; [auto|intros E; discriminate].
  - exists (stored ++ [x]). cbn [inner cache].
    assert (Hlen : length (infos A (inner s)) = length stored) by apply (inv_len _ _ _ I).
    split; [|split; [|split]].
    + split; [now apply add_inv|]. cbn [inner cache]. split.
      * intros k i. rewrite lookup_cons. destruct (keqb (key x) k) eqn:E.
        -- apply keqb_spec in E. intros E2. injection E2 as <-. exists x. split; [|assumption].
           rewrite Hlen, nth_error_app2 by lia. now rewrite Nat.sub_diag.
        -- intros Hl. destruct (C1 k i Hl) as (y & Hy & Hk). exists y. split; [|assumption].
           rewrite nth_error_app1; [assumption|]. apply nth_error_Some. congruence.
      * intros i y Hy. rewrite lookup_cons. destruct (keqb (key x) (key y)) eqn:E; [discriminate|].
        apply nth_error_snoc in Hy. destruct Hy as [[_ Hy]|[_ ->]]; [now apply (C2 i)|].
        exfalso. assert (keqb (key x) (key x) = true) by (now apply keqb_spec). congruence.
    + exists x. split; [|reflexivity]. rewrite Hlen, nth_error_app2 by lia. now rewrite Nat.sub_diag.
    + intros E. congruence.
    + intros _. split; [reflexivity|assumption].
Qed.
End Dedup.
