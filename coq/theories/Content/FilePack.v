(* C01 at file level.  A content pack is described by WHERE its structures are in a file, not by one
   particular byte string: [content_pack_at f base h ch infos clusters] says that at [base] the file
   holds the pack header block, the content pack header block, the content-info table and the
   cluster-pointer table as CRC'd blocks, and that every cluster's tail block and data lie where its
   pointer says — anywhere in the file, in any order (every placement permutation of C08).  Then the
   reader, run on that file, returns for every content exactly the bytes of the blob its address
   designates (raw clusters), or the location and size of the blob inside the compressed payload. *)
From Coq Require Import List Arith NArith Bool Lia.
From Jbk Require Import Base.ListExtra Base.Bytes Base.Crc Base.Parser Base.Prog Format.Structs Format.Roundtrips
  Manifest.SetLocation Content.Pack.
Import ListNotations.
Open Scope N_scope.

(* a CRC'd block holding [data] sits at [pos] *)
Definition placed (f : list N) (pos : N) (data : list N) : Prop := read_block f pos (lenN data) = Ok data.

(* one cluster as the creator built it: its blobs; compressed clusters also carry the stored payload size *)
Record fcluster := { cl_comp : N; cl_blobs : list (list N); cl_stored : N }.
Definition cl_lens (c : fcluster) : list N := map lenN (cl_blobs c).
Definition cl_dsize (c : fcluster) : N := sumN (cl_lens c).
Definition cl_raw (c : fcluster) : N := if cl_comp c =? 0 then cl_dsize c else cl_stored c.

Definition wf_cluster (c : fcluster) : Prop :=
  cl_comp c <= 3 /\ cl_blobs c <> [] /\ N.of_nat (length (cl_blobs c)) < 65536 /\ cl_raw c < 2 ^ 64 /\ cl_dsize c < 2 ^ 64.

Record content_pack_at (f : list N) (base : N) (h : pack_header) (ch : cp_header)
       (infos : list (N * N)) (clusters : list (fcluster * sized_offset)) : Prop := {
  cpa_wfh   : wf_pack_header h;
  cpa_kind  : ph_kind h = KContent;
  cpa_head  : placed f base (ser_pack_header h);
  cpa_wfch  : cp_content_pos ch < 2 ^ 64 /\ cp_cluster_pos ch < 2 ^ 64 /\ cp_content_count ch < 2 ^ 32 /\
              cp_cluster_count ch < 2 ^ 32 /\ length (cp_free ch) = 24%nat;
  cpa_chead : placed f (base + 64) (ser_cp_header ch);
  cpa_ninfo : cp_content_count ch = N.of_nat (length infos);
  cpa_infos : placed f (base + cp_content_pos ch) (flat_map (fun i => ser_content_info (fst i) (snd i)) infos);
  cpa_nclus : cp_cluster_count ch = N.of_nat (length clusters);
  cpa_ptrs  : placed f (base + cp_cluster_pos ch) (flat_map (fun c => ser_sized_offset (snd c)) clusters);
  cpa_clus  : forall c so, In (c, so) clusters ->
                wf_cluster c /\ wf_sized_offset so /\
                so_size so = lenN (ser_tail (cl_comp c) (cl_raw c) (cl_lens c)) /\
                placed f (base + so_off so) (ser_tail (cl_comp c) (cl_raw c) (cl_lens c)) /\
                cl_raw c <= so_off so /\        (* the stored data lie inside the pack, before the tail *)
                (cl_comp c = 0 -> subN (base + so_off so - cl_raw c) (cl_raw c) f = concat (cl_blobs c)) }.

(* ---- fixed-width tables ---- *)
Lemma sub_flat_map_fixed {B} (enc : B -> list N) w (l : list B) : (forall x, length (enc x) = w) ->
  forall i x, nth_error l i = Some x -> sub (w * i) w (flat_map enc l) = enc x.
Proof.
  intros Hw. induction l as [|y l IH]; intros [|i] x H; cbn [nth_error] in H; try discriminate.
  - injection H as ->. cbn [flat_map]. rewrite Nat.mul_0_r. rewrite <- (Hw x) at 1.
    change (enc x ++ flat_map enc l) with ([] ++ enc x ++ flat_map enc l).
    change 0%nat with (length (@nil N)). apply sub_concat.
  - cbn [flat_map]. rewrite sub_app_r by (rewrite Hw; nia).
    rewrite Hw. replace (w * S i - w)%nat with (w * i)%nat by nia. now apply IH.
Qed.
Lemma flat_map_fixed_length {B} (enc : B -> list N) w (l : list B) : (forall x, length (enc x) = w) ->
  length (flat_map enc l) = (w * length l)%nat.
Proof. intros Hw. induction l as [|y l IH]; cbn [flat_map length]; [lia|]. rewrite app_length, Hw, IH. nia. Qed.

Lemma parse_all_ser {A} (p : parser A) (ser : A -> list N) a :
  p (ser a ++ []) = Ok (a, []) -> parse_all p (ser a) = Ok a.
Proof. unfold parse_all. rewrite app_nil_r. intros ->. reflexivity. Qed.

Lemma nth_ends (blobs : list (list N)) j b : nth_error blobs j = Some b ->
  nth j (0 :: ends (map lenN blobs)) 0 = lenN (concat (firstn j blobs)) /\
  nth (S j) (0 :: ends (map lenN blobs)) 0 = lenN (concat (firstn j blobs)) + lenN b.
Proof. intros H. destruct (ends_from_nth 0 blobs j b H) as [H1 H2]. unfold ends. rewrite H1, H2. lia. Qed.

Lemma sumN_lens (blobs : list (list N)) : sumN (map lenN blobs) = lenN (concat blobs).
Proof.
  induction blobs as [|x l IH]; [reflexivity|]. cbn [map sumN concat]. rewrite IH. unfold lenN. rewrite app_length. lia.
Qed.
Lemma concat_split_at (blobs : list (list N)) j b : nth_error blobs j = Some b ->
  concat blobs = concat (firstn j blobs) ++ b ++ concat (skipn (S j) blobs).
Proof.
  intros H. rewrite <- (firstn_skipn j blobs) at 1. rewrite concat_app. f_equal.
  assert (E : skipn j blobs = b :: skipn (S j) blobs).
  { revert j H. induction blobs as [|x bl IH]; intros [|j] H; cbn in H; try discriminate.
    - now injection H as ->.
    - cbn [skipn]. now apply IH. }
  rewrite E. reflexivity.
Qed.

Section Read.
Variables (f : list N) (base : N) (h : pack_header) (ch : cp_header)
          (infos : list (N * N)) (clusters : list (fcluster * sized_offset)).
Hypothesis P : content_pack_at f base h ch infos clusters.

Let pk : cpack :=
  {| cpk_base := base; cpk_header := h; cpk_cp := ch;
     cpk_infos := flat_map (fun i => ser_content_info (fst i) (snd i)) infos;
     cpk_ptrs := flat_map (fun c => ser_sized_offset (snd c)) clusters |}.

(* ContentPack::new succeeds and holds exactly the two tables *)
Theorem open_ok : run f (cp_open_p base) = Ok pk.
Proof.
  destruct P as [Wh Kd Hd Wch Chd Ni Inf Nc Ptr Cl].
  destruct Wch as (W1 & W2 & W3 & W4 & W5).
  unfold cp_open_p, read_header_p. cbn [pbind run].
  pose proof Hd as Hd'. unfold placed in Hd'. unfold lenN in Hd'. rewrite ser_pack_header_length in Hd' by exact Wh.
  change (N.of_nat 60) with 60 in Hd'. rewrite Hd'.
  rewrite (parse_all_ser p_pack_header ser_pack_header h (p_pack_header_ser h [] Wh)). cbn [lift pbind run].
  rewrite Kd. change (negb (kind_eqb KContent KContent)) with false. cbn iota.
  assert (Lc : lenN (ser_cp_header ch) = 60).
  { unfold lenN, ser_cp_header. rewrite !app_length, !le_enc_length, zerosN_length, W5. reflexivity. }
  pose proof Chd as Chd'. unfold placed in Chd'. rewrite Lc in Chd'. cbn [pbind run]. rewrite Chd'.
  rewrite (parse_all_ser p_cp_header ser_cp_header ch (p_cp_header_ser ch [] W1 W2 W3 W4 W5)). cbn [lift pbind run].
  assert (Li : lenN (flat_map (fun i => ser_content_info (fst i) (snd i)) infos) = 4 * cp_content_count ch).
  { unfold lenN. rewrite (flat_map_fixed_length _ 4) by (intros x; apply le_enc_length). rewrite Ni. lia. }
  pose proof Inf as Inf'. unfold placed in Inf'. rewrite Li in Inf'. rewrite Inf'. cbn [pbind run].
  assert (Lp : lenN (flat_map (fun c => ser_sized_offset (snd c)) clusters) = 8 * cp_cluster_count ch).
  { unfold lenN. rewrite (flat_map_fixed_length _ 8) by (intros x; apply ser_sized_offset_length). rewrite Nc. lia. }
  pose proof Ptr as Ptr'. unfold placed in Ptr'. rewrite Lp in Ptr'. rewrite Ptr'. cbn [pbind run]. reflexivity.
Qed.

(* the address (cluster k, blob j) recorded for content i resolves to the blob's own bytes *)
Theorem read_raw_content i k j c so b :
  nth_error infos i = Some (N.of_nat k, N.of_nat j) ->
  nth_error clusters k = Some (c, so) -> cl_comp c = 0 -> nth_error (cl_blobs c) j = Some b ->
  N.of_nat j < 2 ^ 12 -> N.of_nat k < 2 ^ 20 ->
  exists off, run f (cp_read_p pk (N.of_nat i)) = Ok (Some (N.of_nat k, N.of_nat j, CRaw off (lenN b), Some b)).
Proof.
  intros Hi Hk Hc Hb Bj Bk.
  destruct P as [Wh Kd Hd Wch Chd Ni Inf Nc Ptr Cl].
  destruct (Cl c so (nth_error_In _ _ Hk)) as (Wc & Wso & Ssz & Tl & Nu & Dat).
  destruct Wc as (Wc1 & Wc2 & Wc3 & Wc4 & Wc5).
  assert (Ii : (i < length infos)%nat) by (apply nth_error_Some; congruence).
  assert (Ik : (k < length clusters)%nat) by (apply nth_error_Some; congruence).
  unfold cp_read_p. rewrite run_pbind. unfold cp_locate_p. cbn [cpk_cp cpk_infos cpk_ptrs cpk_base pk].
  replace (cp_content_count ch <=? N.of_nat i) with false by (symmetry; apply N.leb_gt; lia).
  (* the info *)
  assert (Ei : subN (4 * N.of_nat i) 4 (flat_map (fun x => ser_content_info (fst x) (snd x)) infos) = ser_content_info (N.of_nat k) (N.of_nat j)).
  { unfold subN. replace (N.to_nat (4 * N.of_nat i)) with (4 * i)%nat by lia. change (N.to_nat 4) with 4%nat.
    exact (sub_flat_map_fixed (fun x : N * N => ser_content_info (fst x) (snd x)) 4 infos (fun x => le_enc_length 4 _) i _ Hi). }
  rewrite Ei, (content_info_rt _ _ Bj Bk).
  replace (cp_cluster_count ch <=? N.of_nat k) with false by (symmetry; apply N.leb_gt; lia).
  (* the pointer *)
  assert (Ek : subN (8 * N.of_nat k) 8 (flat_map (fun x => ser_sized_offset (snd x)) clusters) = ser_sized_offset so).
  { unfold subN. replace (N.to_nat (8 * N.of_nat k)) with (8 * k)%nat by lia. change (N.to_nat 8) with 8%nat.
    exact (sub_flat_map_fixed (fun x : fcluster * sized_offset => ser_sized_offset (snd x)) 8 clusters (fun x => ser_sized_offset_length _) k _ Hk). }
  rewrite Ek. rewrite <- (app_nil_r (ser_sized_offset so)), (p_sized_offset_ser so [] Wso). cbn [lift pbind run].
  (* the tail *)
  unfold placed in Tl. rewrite <- Ssz in Tl. rewrite Tl.
  assert (Rw : cl_raw c = cl_dsize c) by (unfold cl_raw; rewrite Hc; reflexivity).
  assert (PT : parse_all p_tail (ser_tail (cl_comp c) (cl_raw c) (cl_lens c)) =
               Ok {| t_comp := cl_comp c; t_raw := cl_raw c; t_dsize := sumN (cl_lens c); t_offs := 0 :: ends (cl_lens c) |}).
  { unfold parse_all. rewrite <- (app_nil_r (ser_tail _ _ _)).
    rewrite p_tail_ser; [reflexivity|exact Wc1| | | exact Wc4|exact Wc5|].
    - unfold cl_lens. intros E. apply map_eq_nil in E. contradiction.
    - unfold cl_lens. rewrite map_length. exact Wc3.
    - intros _. exact Rw. }
  rewrite PT. cbn [lift pbind run t_offs t_comp t_raw t_dsize].
  replace (so_off so <? cl_raw c) with false by (symmetry; apply N.ltb_ge; exact Nu).
  rewrite Nat2N.id.
  assert (Lj : (j < length (cl_blobs c))%nat) by (apply nth_error_Some; congruence).
  replace (length (0%N :: ends (cl_lens c)) <=? S j)%nat with false.
  2:{ symmetry. apply Nat.leb_gt. cbn [length]. unfold ends, cl_lens. rewrite ends_from_length, map_length. lia. }
  destruct (nth_ends (cl_blobs c) j b Hb) as [O1 O2]. unfold cl_lens. rewrite O1, O2.
  match goal with |- context [?a + ?b <? ?a] => replace (a + b <? a) with false by (symmetry; apply N.ltb_ge; lia) end.
  rewrite Hc. cbn [N.eqb]. cbn [run].
  set (pre := lenN (concat (firstn j (cl_blobs c)))).
  replace (pre + lenN b - pre) with (lenN b) by lia.
  exists (base + so_off so - cl_raw c + pre). cbn [run].
  (* the bytes *)
  assert (Split := concat_split_at (cl_blobs c) j b Hb).
  assert (Tot : cl_raw c = lenN (concat (cl_blobs c))) by (rewrite Rw; unfold cl_dsize, cl_lens; apply sumN_lens).
  assert (Dat' := Dat Hc).
  assert (InF : base + so_off so - cl_raw c + cl_raw c <= lenN f).
  { (* the tail block read succeeded at base + so_off so: the data before it is inside the file *)
    unfold read_block in Tl. destruct (N.leb_spec (base + so_off so + so_size so + 4) (lenN f)); [lia|discriminate]. }
  assert (Lb : pre + lenN b <= cl_raw c).
  { rewrite Tot, Split. subst pre. unfold lenN. rewrite !app_length. lia. }
  unfold read_raw. replace (base + so_off so - cl_raw c + pre + lenN b <=? lenN f) with true by (symmetry; apply N.leb_le; lia).
  cbn [pbind run].
  assert (E : subN (base + so_off so - cl_raw c + pre) (lenN b) f = b).
  { assert (S1 : subN (base + so_off so - cl_raw c + pre) (lenN b) f = subN pre (lenN b) (subN (base + so_off so - cl_raw c) (cl_raw c) f)).
    { unfold subN. rewrite sub_sub by lia. f_equal. lia. }
    rewrite S1, Dat', Split. subst pre. unfold subN, lenN. rewrite !Nat2N.id. apply sub_concat. }
  rewrite E. reflexivity.
Qed.

(* a compressed cluster: the reader reports where the blob lies inside the decompressed data *)
Theorem locate_compressed_content i k j c so b :
  nth_error infos i = Some (N.of_nat k, N.of_nat j) ->
  nth_error clusters k = Some (c, so) -> cl_comp c <> 0 -> nth_error (cl_blobs c) j = Some b ->
  N.of_nat j < 2 ^ 12 -> N.of_nat k < 2 ^ 20 ->
  run f (cp_locate_p pk (N.of_nat i)) =
    Ok (Some (N.of_nat k, N.of_nat j,
              CComp (cl_comp c) (base + so_off so - cl_stored c) (cl_stored c) (cl_dsize c)
                    (lenN (concat (firstn j (cl_blobs c)))) (lenN b))).
Proof.
  intros Hi Hk Hc Hb Bj Bk.
  destruct P as [Wh Kd Hd Wch Chd Ni Inf Nc Ptr Cl].
  destruct (Cl c so (nth_error_In _ _ Hk)) as (Wc & Wso & Ssz & Tl & Nu & Dat).
  destruct Wc as (Wc1 & Wc2 & Wc3 & Wc4 & Wc5).
  assert (Ii : (i < length infos)%nat) by (apply nth_error_Some; congruence).
  assert (Ik : (k < length clusters)%nat) by (apply nth_error_Some; congruence).
  unfold cp_locate_p. cbn [cpk_cp cpk_infos cpk_ptrs cpk_base pk].
  replace (cp_content_count ch <=? N.of_nat i) with false by (symmetry; apply N.leb_gt; lia).
  assert (Ei : subN (4 * N.of_nat i) 4 (flat_map (fun x => ser_content_info (fst x) (snd x)) infos) = ser_content_info (N.of_nat k) (N.of_nat j)).
  { unfold subN. replace (N.to_nat (4 * N.of_nat i)) with (4 * i)%nat by lia. change (N.to_nat 4) with 4%nat.
    exact (sub_flat_map_fixed (fun x : N * N => ser_content_info (fst x) (snd x)) 4 infos (fun x => le_enc_length 4 _) i _ Hi). }
  rewrite Ei, (content_info_rt _ _ Bj Bk).
  replace (cp_cluster_count ch <=? N.of_nat k) with false by (symmetry; apply N.leb_gt; lia).
  assert (Ek : subN (8 * N.of_nat k) 8 (flat_map (fun x => ser_sized_offset (snd x)) clusters) = ser_sized_offset so).
  { unfold subN. replace (N.to_nat (8 * N.of_nat k)) with (8 * k)%nat by lia. change (N.to_nat 8) with 8%nat.
    exact (sub_flat_map_fixed (fun x : fcluster * sized_offset => ser_sized_offset (snd x)) 8 clusters (fun x => ser_sized_offset_length _) k _ Hk). }
  rewrite Ek. rewrite <- (app_nil_r (ser_sized_offset so)), (p_sized_offset_ser so [] Wso). cbn [lift pbind run].
  unfold placed in Tl. rewrite <- Ssz in Tl. rewrite Tl.
  assert (Rw : cl_raw c = cl_stored c) by (unfold cl_raw; destruct (N.eqb_spec (cl_comp c) 0); [contradiction|reflexivity]).
  assert (PT : parse_all p_tail (ser_tail (cl_comp c) (cl_raw c) (cl_lens c)) =
               Ok {| t_comp := cl_comp c; t_raw := cl_raw c; t_dsize := sumN (cl_lens c); t_offs := 0 :: ends (cl_lens c) |}).
  { unfold parse_all. rewrite <- (app_nil_r (ser_tail _ _ _)).
    rewrite p_tail_ser; [reflexivity|exact Wc1| | | exact Wc4|exact Wc5|].
    - unfold cl_lens. intros E. apply map_eq_nil in E. contradiction.
    - unfold cl_lens. rewrite map_length. exact Wc3.
    - intros E. contradiction. }
  rewrite PT. cbn [lift pbind run t_offs t_comp t_raw t_dsize].
  replace (so_off so <? cl_raw c) with false by (symmetry; apply N.ltb_ge; exact Nu).
  rewrite Nat2N.id.
  assert (Lj : (j < length (cl_blobs c))%nat) by (apply nth_error_Some; congruence).
  replace (length (0%N :: ends (cl_lens c)) <=? S j)%nat with false.
  2:{ symmetry. apply Nat.leb_gt. cbn [length]. unfold ends, cl_lens. rewrite ends_from_length, map_length. lia. }
  destruct (nth_ends (cl_blobs c) j b Hb) as [O1 O2]. unfold cl_lens. rewrite O1, O2.
  match goal with |- context [?a + ?b <? ?a] => replace (a + b <? a) with false by (symmetry; apply N.ltb_ge; lia) end.
  replace (cl_comp c =? 0) with false by (symmetry; now apply N.eqb_neq). cbn [run].
  rewrite Rw. unfold cl_dsize, cl_lens. repeat f_equal. lia.
Qed.
End Read.
Close Scope N_scope.

(* non-vacuity: a complete two-content pack file, laid out by hand, satisfies the hypotheses *)
Open Scope N_scope.
Definition ex_h : pack_header :=
  {| ph_kind := KContent; ph_vendor := [1; 2; 3; 4]; ph_major := 0; ph_minor := 2;
     ph_uuid := [1; 2; 3; 4; 5; 6; 7; 8; 9; 10; 11; 12; 13; 14; 15; 16]; ph_flags := 0; ph_size := 269; ph_check_pos := 168 |}.
Definition ex_ch : cp_header :=
  {| cp_content_pos := 144; cp_cluster_pos := 156; cp_content_count := 2; cp_cluster_count := 1; cp_free := repeat 0 24 |}.
Definition ex_c : fcluster := {| cl_comp := 0; cl_blobs := [[1; 2; 3]; [4; 5]]; cl_stored := 0 |}.
Definition ex_so : sized_offset := {| so_size := 7; so_off := 133 |}.
Definition ex_file : list N :=
  mk_block (ser_pack_header ex_h) ++ mk_block (ser_cp_header ex_ch) ++ [1; 2; 3; 4; 5] ++
  mk_block (ser_tail 0 5 [3; 2]) ++ mk_block (ser_content_info 0 0 ++ ser_content_info 0 1) ++ mk_block (ser_sized_offset ex_so).
Example ex_is_a_content_pack : content_pack_at ex_file 0 ex_h ex_ch [(0, 0); (0, 1)] [(ex_c, ex_so)].
Proof.
  constructor.
  - unfold wf_pack_header. cbn. repeat split; lia.
  - reflexivity.
  - vm_compute. reflexivity.
  - cbn. repeat split; lia.
  - vm_compute. reflexivity.
  - reflexivity.
  - vm_compute. reflexivity.
  - reflexivity.
  - vm_compute. reflexivity.
  - intros c so [E|[]]. injection E as <- <-.
    split; [unfold wf_cluster; cbn; repeat split; try lia; discriminate|].
    split; [unfold wf_sized_offset; cbn; lia|].
    split; [vm_compute; reflexivity|]. split; [vm_compute; reflexivity|]. split; [vm_compute; discriminate|].
    intros _. vm_compute. reflexivity.
Qed.
Example ex_reads_second_content :
  exists off, run ex_file (cp_read_p {| cpk_base := 0; cpk_header := ex_h; cpk_cp := ex_ch;
                                        cpk_infos := ser_content_info 0 0 ++ ser_content_info 0 1 ++ [];
                                        cpk_ptrs := ser_sized_offset ex_so ++ [] |} 1)
              = Ok (Some (0, 1, CRaw off 2, Some [4; 5])).
Proof.
  exact (read_raw_content ex_file 0 ex_h ex_ch _ _ ex_is_a_content_pack 1 0 1 ex_c ex_so [4; 5]
           eq_refl eq_refl eq_refl eq_refl ltac:(cbn; lia) ltac:(cbn; lia)).
Qed.
Close Scope N_scope.

(* ---- end to end: the creator's bookkeeping + any file that places what it built ---- *)
(* For EVERY insertion sequence and EVERY file in which the structures the creator built are placed
   (clusters anywhere, in any order), the content inserted as number i with "do not compress" is read
   back byte for byte through the address the creator recorded for it. *)
From Jbk Require Import Content.Cluster.
Open Scope N_scope.
Definition info_of (p : nat * nat) : N * N := (N.of_nat (fst p), N.of_nat (snd p)).
Definition cluster_matches (sc : Cluster.cluster (list N)) (cc : fcluster * sized_offset) : Prop :=
  cl_blobs (fst cc) = snd sc /\ (fst sc = false -> cl_comp (fst cc) = 0).

Lemma Forall2_nth_error_l {X Y} (R : X -> Y -> Prop) l l' k x :
  Forall2 R l l' -> nth_error l k = Some x -> exists y, nth_error l' k = Some y /\ R x y.
Proof.
  intros F. revert k. induction F as [|x0 y0 l l' H F IH]; intros [|k] E; cbn in E; try discriminate.
  - injection E as <-. exists y0. split; [reflexivity|assumption].
  - apply IH. exact E.
Qed.

Theorem stored_content_reads_back (ops : list (list N * bool)) f base h ch clusters i x :
  let s := fold_left (add (list N) lenN) ops (init (list N)) in
  content_pack_at f base h ch (map info_of (infos (list N) s)) clusters ->
  Forall2 cluster_matches (cs (list N) s) clusters ->
  N.of_nat (length (cs (list N) s)) <= 2 ^ 20 ->
  nth_error ops i = Some (x, false) ->
  exists k j off p,
    run f (cp_open_p base) = Ok p /\
    run f (cp_read_p p (N.of_nat i)) = Ok (Some (k, j, CRaw off (lenN x), Some x)).
Proof.
  intros s P F2 Lim Hop.
  destruct (adds_invK (list N) lenN ops i x false Hop) as (inf & c & Hinf & Hc & Hk). fold s in Hinf, Hc.
  assert (Hx : nth_error (map fst ops) i = Some x) by (rewrite nth_error_map, Hop; reflexivity).
  destruct (address_resolves (list N) lenN ops i x Hx) as (inf' & Hinf' & Hres & Hj). fold s in Hinf', Hres.
  rewrite Hinf in Hinf'. injection Hinf' as <-.
  unfold resolve in Hres. rewrite Hc in Hres.
  destruct (Forall2_nth_error_l _ _ _ _ _ F2 Hc) as ([cc so] & Hcc & Hb & Hz). cbn [fst snd] in Hb, Hz.
  assert (Kb : (fst inf < length (cs (list N) s))%nat) by (apply nth_error_Some; congruence).
  destruct (read_raw_content f base h ch _ _ P i (fst inf) (snd inf) cc so x) as (off & R).
  - rewrite nth_error_map, Hinf. reflexivity.
  - exact Hcc.
  - apply Hz. exact Hk.
  - rewrite Hb. exact Hres.
  - unfold MAX_BLOBS in Hj. change (2 ^ 12) with 4096. lia.
  - lia.
  - exists (N.of_nat (fst inf)), (N.of_nat (snd inf)), off. eexists. split; [apply (open_ok f base h ch _ _ P)|exact R].
Qed.
Close Scope N_scope.
