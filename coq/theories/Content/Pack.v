(* Content pack, byte level: cluster tail codec (creator/content_pack/clusterwriter.rs
   serialize_cluster_tail <-> reader/content_pack/cluster.rs ClusterBuilder::parse), content info,
   content pack header, and the reader (reader/content_pack/mod.rs) as a reader program. *)
From Coq Require Import List Arith NArith ZArith Bool Lia ZifyN ZifyBool ZifyNat.
From Jbk Require Import Base.ListExtra Base.Bytes Base.Crc Base.Parser Base.Prog Format.Structs
  Manifest.SetLocation.
Import ListNotations.
Open Scope N_scope.
Ltac Zify.zify_post_hook ::= Z.div_mod_to_equations.

(* ---- parsing n values with one parser ---- *)
Fixpoint p_many {A} (n : nat) (p : parser A) : parser (list A) :=
  fun l => match n with
           | O => Ok ([], l)
           | S n => '(a, l) <- p l ;; '(rest, l) <- p_many n p l ;; Ok (a :: rest, l)
           end.

Lemma p_many_u_enc w (vs : list N) r :
  Forall (fun v => v < 256 ^ N.of_nat w) vs ->
  p_many (length vs) (p_u w) (flat_map (le_enc w) vs ++ r) = Ok (vs, r).
Proof.
  induction 1 as [|v vs Hv Hvs IH]; [reflexivity|].
  cbn [length p_many flat_map]. rewrite <- app_assoc, p_u_enc by assumption. cbn [bind].
  rewrite IH. reflexivity.
Qed.

(* ---- the cluster tail ---- *)
Fixpoint ends_from (acc : N) (lens : list N) : list N :=
  match lens with [] => [] | x :: lens => (acc + x) :: ends_from (acc + x) lens end.
Definition ends (lens : list N) : list N := ends_from 0 lens.        (* ClusterCreator.offsets *)
Fixpoint sumN (l : list N) : N := match l with [] => 0 | x :: l => x + sumN l end.

(* offset width after the repair of D3: must hold the data size and the stored size *)
Definition tail_width (raw dsize : N) : nat := needed_bytes (N.max dsize raw).
Definition tail_width_pinned (raw dsize : N) : nat := needed_bytes dsize.     (* pinned tree *)

Definition ser_tail_w (w : nat) (comp raw : N) (lens : list N) : list N :=
  [comp; N.of_nat w] ++ le_enc 2 (N.of_nat (length lens)) ++
  le_enc w raw ++ le_enc w (sumN lens) ++ flat_map (le_enc w) (removelast (ends lens)).
Definition ser_tail (comp raw : N) (lens : list N) : list N :=
  ser_tail_w (tail_width raw (sumN lens)) comp raw lens.

Record tail := { t_comp : N; t_raw : N; t_dsize : N; t_offs : list N }.   (* offs: count+1 offsets *)

Definition p_tail : parser tail :=
  fun l =>
    '(comp, l) <- p_u 1 l ;;
    if 3 <? comp then Err EFormat else
    '(w, l) <- p_u 1 l ;;
    if (w =? 0) || (8 <? w) then Err EFormat else
    '(cnt, l) <- p_u 2 l ;;
    '(raw, l) <- p_u (N.to_nat w) l ;;
    '(dsize, l) <- p_u (N.to_nat w) l ;;
    '(offs, l) <- p_many (N.to_nat cnt - 1) (p_u (N.to_nat w)) l ;;
    (* every blob offset lies inside the cluster data (ClusterBuilder::parse) *)
    if negb (forallb (fun o => o <=? dsize) offs) then Err EFormat else
    if (comp =? 0) && negb (raw =? dsize) then Err EFormat else
    Ok ({| t_comp := comp; t_raw := raw; t_dsize := dsize;
           t_offs := if cnt =? 0 then [dsize] else 0 :: offs ++ [dsize] |}, l).

Lemma ends_from_length acc lens : length (ends_from acc lens) = length lens.
Proof. revert acc; induction lens as [|x lens IH]; intros acc; cbn [ends_from length]; [reflexivity|]. now rewrite IH. Qed.
Lemma ends_from_bound acc lens e : In e (ends_from acc lens) -> e <= acc + sumN lens.
Proof.
  revert acc; induction lens as [|x lens IH]; intros acc H; cbn [ends_from sumN] in *; [contradiction|].
  destruct H as [<-|H]; [lia|]. apply IH in H. lia.
Qed.
Lemma ends_from_last acc lens : lens <> [] -> last (ends_from acc lens) 0 = acc + sumN lens.
Proof.
  revert acc; induction lens as [|x lens IH]; intros acc H; [congruence|].
  destruct lens as [|y lens].
  - cbn. lia.
  - change (ends_from acc (x :: y :: lens)) with ((acc + x) :: ends_from (acc + x) (y :: lens)).
    change (last ((acc + x) :: ends_from (acc + x) (y :: lens)) 0) with (last (ends_from (acc + x) (y :: lens)) 0).
    rewrite IH by discriminate. cbn [sumN]. lia.
Qed.
Lemma removelast_length {A} (l : list A) : length (removelast l) = (length l - 1)%nat.
Proof.
  induction l as [|x l IH]; [reflexivity|]. destruct l as [|y l]; [reflexivity|].
  change (removelast (x :: y :: l)) with (x :: removelast (y :: l)). cbn [length] in *. lia.
Qed.
Lemma In_removelast {A} (l : list A) x : In x (removelast l) -> In x l.
Proof.
  induction l as [|y l IH]; [contradiction|]. destruct l as [|z l]; [contradiction|].
  change (removelast (y :: z :: l)) with (y :: removelast (z :: l)). intros [->|H]; [now left|right; now apply IH].
Qed.

(* the reader recovers the sizes and all blob offsets from the tail, for every offset width that
   fits both sizes *)
Theorem p_tail_ser_w w comp raw lens r :
  (1 <= w <= 8)%nat -> comp <= 3 -> lens <> [] -> N.of_nat (length lens) < 65536 ->
  raw < 256 ^ N.of_nat w -> sumN lens < 256 ^ N.of_nat w ->
  (comp = 0 -> raw = sumN lens) ->
  p_tail (ser_tail_w w comp raw lens ++ r) =
    Ok ({| t_comp := comp; t_raw := raw; t_dsize := sumN lens; t_offs := 0 :: ends lens |}, r).
Proof.
  intros Hw Hc Hne Hlen Hraw Hds Hz. unfold p_tail, ser_tail_w. cbn [app].
  rewrite p_u_1 by lia. cbn [bind].
  replace (3 <? comp) with false by (symmetry; apply N.ltb_ge; lia).
  rewrite p_u_1 by lia. cbn [bind].
  replace ((N.of_nat w =? 0) || (8 <? N.of_nat w)) with false
    by (symmetry; apply orb_false_iff; split; [apply N.eqb_neq|apply N.ltb_ge]; lia).
  rewrite <- !app_assoc.
  rewrite p_u_enc by (change (256 ^ N.of_nat 2) with 65536; lia). cbn [bind].
  rewrite !Nat2N.id.
  rewrite p_u_enc by assumption. cbn [bind].
  rewrite p_u_enc by assumption. cbn [bind].
  replace (length lens - 1)%nat with (length (removelast (ends lens)))
    by (rewrite removelast_length; unfold ends; now rewrite ends_from_length).
  rewrite p_many_u_enc.
  2:{ apply Forall_forall. intros e He. apply In_removelast in He. unfold ends in He.
      apply ends_from_bound in He. lia. }
  cbn [bind].
  replace (forallb (fun o => o <=? sumN lens) (removelast (ends lens))) with true.
  2:{ symmetry. apply forallb_forall. intros e He. apply In_removelast in He. unfold ends in He.
      apply ends_from_bound in He. apply N.leb_le. lia. }
  cbn [negb].
  replace ((comp =? 0) && negb (raw =? sumN lens)) with false.
  2:{ symmetry. destruct (N.eqb_spec comp 0) as [E|E]; [|reflexivity]. rewrite (Hz E), N.eqb_refl. reflexivity. }
  replace (N.of_nat (length lens) =? 0) with false by (symmetry; apply N.eqb_neq; destruct lens; [congruence|cbn; lia]).
  do 3 f_equal.
  assert (E : removelast (ends lens) ++ [sumN lens] = ends lens).
  { unfold ends. replace (sumN lens) with (last (ends_from 0 lens) 0)
      by (rewrite (ends_from_last 0 lens Hne); lia).
    symmetry. apply app_removelast_last. destruct lens; [congruence|discriminate]. }
  now rewrite E.
Qed.

(* ... in particular for the width the (repaired) writer chooses *)
Theorem p_tail_ser comp raw lens r :
  comp <= 3 -> lens <> [] -> N.of_nat (length lens) < 65536 -> raw < 2 ^ 64 -> sumN lens < 2 ^ 64 ->
  (comp = 0 -> raw = sumN lens) ->
  p_tail (ser_tail comp raw lens ++ r) =
    Ok ({| t_comp := comp; t_raw := raw; t_dsize := sumN lens; t_offs := 0 :: ends lens |}, r).
Proof.
  intros Hc Hne Hlen Hraw Hds Hz. unfold ser_tail, tail_width.
  pose proof (needed_bytes_range (N.max (sumN lens) raw)) as R.
  pose proof (needed_bytes_fits (N.max (sumN lens) raw) ltac:(lia)) as F.
  apply p_tail_ser_w; try assumption; lia.
Qed.

(* the pinned writer's width (from the data size only) loses the stored size: defect D3 *)
Theorem tail_width_pinned_refuted :
  exists comp raw lens,
    comp <= 3 /\ lens <> [] /\ raw < 2 ^ 64 /\
    match p_tail (ser_tail_w (tail_width_pinned raw (sumN lens)) comp raw lens) with
    | Ok (t, _) => t_raw t <> raw
    | Err _ => True
    end.
Proof. exists 3, 263, [250]. split; [lia|]. split; [discriminate|]. split; [lia|]. vm_compute. discriminate. Qed.

(* ---- blobs inside the cluster data ---- *)
Fixpoint take_blobs (lens : list N) (data : list N) : list (list N) :=
  match lens with
  | [] => []
  | x :: lens => firstn (N.to_nat x) data :: take_blobs lens (skipn (N.to_nat x) data)
  end.
Definition blob_at (offs : list N) (j : nat) (data : list N) : list N :=
  subN (nth j offs 0) (nth (S j) offs 0 - nth j offs 0) data.

Lemma ends_from_nth acc (blobs : list (list N)) : forall j b, nth_error blobs j = Some b ->
  nth j (acc :: ends_from acc (map lenN blobs)) 0 = acc + lenN (concat (firstn j blobs)) /\
  nth (S j) (acc :: ends_from acc (map lenN blobs)) 0 = acc + lenN (concat (firstn j blobs)) + lenN b.
Proof.
  revert acc; induction blobs as [|x blobs IH]; intros acc [|j] b H; cbn [nth_error] in H; try discriminate.
  - injection H as ->. cbn [firstn concat map ends_from nth]. unfold lenN. cbn [length]. lia.
  - destruct (IH (acc + lenN x) j b H) as [H1 H2].
    cbn [map ends_from firstn concat].
    change (nth (S j) (acc :: (acc + lenN x) :: ends_from (acc + lenN x) (map lenN blobs)) 0)
      with (nth j ((acc + lenN x) :: ends_from (acc + lenN x) (map lenN blobs)) 0).
    change (nth (S (S j)) (acc :: (acc + lenN x) :: ends_from (acc + lenN x) (map lenN blobs)) 0)
      with (nth (S j) ((acc + lenN x) :: ends_from (acc + lenN x) (map lenN blobs)) 0).
    rewrite H1, H2. unfold lenN. rewrite app_length. lia.
Qed.

(* blob j of a cluster is found between consecutive offsets of the cluster data *)
Theorem blob_from_offsets (blobs : list (list N)) j b : nth_error blobs j = Some b ->
  blob_at (0 :: ends (map lenN blobs)) j (concat blobs) = b.
Proof.
  intros H. destruct (ends_from_nth 0 blobs j b H) as [H1 H2]. unfold blob_at, ends. rewrite H1, H2.
  replace (0 + lenN (concat (firstn j blobs)) + lenN b - (0 + lenN (concat (firstn j blobs)))) with (lenN b) by lia.
  unfold subN, lenN. rewrite N.add_0_l, !Nat2N.id.
  assert (S : concat blobs = concat (firstn j blobs) ++ b ++ concat (skipn (S j) blobs)).
  { rewrite <- (firstn_skipn j blobs) at 1. rewrite concat_app. f_equal.
    assert (E : skipn j blobs = b :: skipn (S j) blobs).
    { clear H1 H2. revert j H. induction blobs as [|x bl IH]; intros [|j] H; cbn in H; try discriminate.
      - now injection H as ->.
      - cbn [skipn]. now apply IH. }
    rewrite E. reflexivity. }
  rewrite S. apply sub_concat.
Qed.

(* ---- ContentInfo: u32 = cluster << 12 | blob ---- *)
Definition ser_content_info (cluster blob : N) : list N := le_enc 4 (cluster * 2 ^ 12 + blob mod 2 ^ 12).
Definition dec_content_info (v : N) : N * N := (v / 2 ^ 12, v mod 2 ^ 12).
Lemma content_info_rt cluster blob : blob < 2 ^ 12 -> cluster < 2 ^ 20 ->
  dec_content_info (le_val (ser_content_info cluster blob)) = (cluster, blob).
Proof.
  intros Hb Hc. unfold ser_content_info, dec_content_info.
  rewrite le_val_enc by (change (256 ^ N.of_nat 4) with (2 ^ 20 * 2 ^ 12); nia).
  f_equal; lia.
Qed.

(* ---- ContentPackHeader (60 + CRC) ---- *)
Record cp_header := { cp_content_pos : N; cp_cluster_pos : N; cp_content_count : N; cp_cluster_count : N; cp_free : list N }.
Definition ser_cp_header (h : cp_header) : list N :=
  le_enc 8 (cp_content_pos h) ++ le_enc 8 (cp_cluster_pos h) ++ le_enc 4 (cp_content_count h) ++
  le_enc 4 (cp_cluster_count h) ++ zerosN 12 ++ cp_free h.
Definition p_cp_header : parser cp_header :=
  fun l =>
    '(a, l) <- p_u 8 l ;; '(b, l) <- p_u 8 l ;; '(c, l) <- p_u 4 l ;; '(d, l) <- p_u 4 l ;;
    '(_, l) <- p_skip 12 l ;; '(fd, l) <- p_bytes 24 l ;;
    Ok ({| cp_content_pos := a; cp_cluster_pos := b; cp_content_count := c; cp_cluster_count := d; cp_free := fd |}, l).
Lemma p_cp_header_ser h r :
  cp_content_pos h < 2 ^ 64 -> cp_cluster_pos h < 2 ^ 64 -> cp_content_count h < 2 ^ 32 ->
  cp_cluster_count h < 2 ^ 32 -> length (cp_free h) = 24%nat ->
  p_cp_header (ser_cp_header h ++ r) = Ok (h, r).
Proof.
  intros H1 H2 H3 H4 H5. unfold p_cp_header, ser_cp_header. rewrite <- !app_assoc.
  rewrite p_u_enc by assumption. cbn [bind]. rewrite p_u_enc by assumption. cbn [bind].
  rewrite p_u_enc by assumption. cbn [bind]. rewrite p_u_enc by assumption. cbn [bind].
  rewrite p_skip_app by (now rewrite zerosN_length). cbn [bind].
  rewrite p_bytes_app by (symmetry; assumption). cbn [bind]. destruct h; reflexivity.
Qed.

(* ---- the reader ---- *)
Open Scope prog_scope.
Record cpack := { cpk_base : N; cpk_header : pack_header; cpk_cp : cp_header;
                  cpk_infos : list N; cpk_ptrs : list N }.   (* the two tables, raw bytes *)

(* ContentPack::new *)
Definition cp_open_p (base : N) : prog cpack :=
  h <~ read_header_p base ;;
  if negb (kind_eqb (ph_kind h) KContent) then Fail EFormat else
  ch <~ RdBlock (base + 64) 60 (fun b => lift (parse_all p_cp_header b)) ;;
  infos <~ RdBlock (base + cp_content_pos ch) (4 * cp_content_count ch) (fun b => Ret b) ;;
  ptrs <~ RdBlock (base + cp_cluster_pos ch) (8 * cp_cluster_count ch) (fun b => Ret b) ;;
  Ret {| cpk_base := base; cpk_header := h; cpk_cp := ch; cpk_infos := infos; cpk_ptrs := ptrs |}.

Inductive content_loc :=
| CRaw (abs_off len : N)                                   (* bytes stored verbatim at [abs_off, +len) *)
| CComp (algo payload_off payload_len dsize blob_off blob_len : N).

(* where content [i] is: ContentPack::get_content + Cluster (tail parse, blob offsets) *)
Definition cp_locate_p (p : cpack) (i : N) : prog (option (N * N * content_loc)) :=
  if cp_content_count (cpk_cp p) <=? i then Ret None else
  let v := le_val (subN (4 * i) 4 (cpk_infos p)) in
  let '(cidx, bidx) := dec_content_info v in
  if cp_cluster_count (cpk_cp p) <=? cidx then Fail EFormat else
  '(so, _) <~ lift (p_sized_offset (subN (8 * cidx) 8 (cpk_ptrs p))) ;;
  t <~ RdBlock (cpk_base p + so_off so) (so_size so) (fun b => lift (parse_all p_tail b)) ;;
  (* the stored cluster data lie just before the tail, inside the pack (Cluster::finalize) *)
  if so_off so <? t_raw t then Fail EFormat else
  let j := N.to_nat bidx in
  if (length (t_offs t) <=? S j)%nat then Fail EFormat else
  let o := nth j (t_offs t) 0 in
  let e := nth (S j) (t_offs t) 0 in
  if e <? o then Fail EFormat else                        (* blob offsets must not decrease (get_bytes) *)
  let data_start := cpk_base p + so_off so - t_raw t in
  if t_comp t =? 0 then Ret (Some (cidx, bidx, CRaw (data_start + o) (e - o)))
  else Ret (Some (cidx, bidx, CComp (t_comp t) data_start (t_raw t) (t_dsize t) o (e - o))).

Definition cp_read_p (p : cpack) (i : N) : prog (option (N * N * content_loc * option (list N))) :=
  r <~ cp_locate_p p i ;;
  match r with
  | None => Ret None
  | Some (c, b, CRaw off len) => d <~ RdRaw off len (fun d => Ret d) ;; Ret (Some (c, b, CRaw off len, Some d))
  | Some (c, b, loc) => Ret (Some (c, b, loc, None))
  end.
Close Scope prog_scope.
Close Scope N_scope.

Lemma cp_locate_past f p i : (cp_content_count (cpk_cp p) <= i)%N -> run f (cp_locate_p p i) = Ok None.
Proof.
  intros H. unfold cp_locate_p.
  replace (cp_content_count (cpk_cp p) <=? i)%N with true by (symmetry; now apply N.leb_le). reflexivity.
Qed.
