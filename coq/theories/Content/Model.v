(* Executable entry points of the content-pack model used by the correspondence check. *)
From Coq Require Import List Arith NArith Bool.
From Jbk Require Import Base.ListExtra Base.Bytes Base.Parser Base.Prog Format.Structs
  Manifest.SetLocation Content.Cluster Content.Pack.
Import ListNotations.

(* one insertion: length, hint, what the entropy test answered (oracle), and an equality key
   (used by the deduplicating adder only) *)
Record cop := { co_len : N; co_hint : hint; co_detect : bool; co_key : N }.

Definition lenid (x : N) : N := x.

(* plan without dedup: per insertion (content index, cluster, blob) and the clusters *)
Definition plan_plain (pack_compresses : bool) (ops : list cop) : list (nat * nat * nat) * list (bool * list N) :=
  let s := fold_left (add N lenid)
             (map (fun o => (co_len o, decide pack_compresses (co_hint o) (co_detect o))) ops) (init N) in
  (map (fun p => (fst p, fst (snd p), snd (snd p))) (combine (seq 0 (length ops)) (infos N s)), cs N s).

Fixpoint plan_dedup_go (pc : bool) (ops : list cop) (s : dst N N) (acc : list nat) : dst N N * list nat :=
  match ops with
  | [] => (s, rev acc)
  | o :: ops =>
      let '(s', i) := cached_add N N lenid (fun _ => co_key o) N.eqb s
                        (co_len o, decide pc (co_hint o) (co_detect o)) in
      plan_dedup_go pc ops s' (i :: acc)
  end.
Definition plan_dedup (pack_compresses : bool) (ops : list cop) : list (nat * nat * nat) * list (bool * list N) :=
  let '(s, idxs) := plan_dedup_go pack_compresses ops (dinit N N) [] in
  (map (fun i => match nth_error (infos N (inner N N s)) i with
                 | Some inf => (i, fst inf, snd inf) | None => (i, 0, 0) end) idxs,
   cs N (inner N N s)).

(* the independent decoder on a content pack file: open once, read the listed contents *)
Fixpoint read_many_p (p : cpack) (idxs : list N) : prog (list (option (N * N * content_loc * option (list N)))) :=
  match idxs with
  | [] => Ret []
  | i :: idxs => pbind (cp_read_p p i) (fun r => pbind (read_many_p p idxs) (fun rest => Ret (r :: rest)))
  end.
Definition cp_read_many (f : list N) (idxs : list N) :=
  run_n (lenN f) f (pbind (cp_open_p 0) (fun p =>
    pbind (read_many_p p idxs) (fun rs => Ret (cp_content_count (cpk_cp p), rs)))).
Lemma cp_read_many_run f idxs :
  cp_read_many f idxs = run f (pbind (cp_open_p 0) (fun p =>
    pbind (read_many_p p idxs) (fun rs => Ret (cp_content_count (cpk_cp p), rs)))).
Proof. apply run_n_run. Qed.
