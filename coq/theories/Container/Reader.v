(* The whole-container reader (reader/jubako.rs Container, open_as_container_pack,
   reader/locator.rs, reader/manifest_pack.rs, reader/container_pack.rs) over a small file system:
   a main file and its sibling files.  Executable; used as the independent decoder for C14, C10,
   C11, C05. *)
From Coq Require Import List Arith NArith ZArith Bool Lia.
From Jbk Require Import Base.ListExtra Base.Bytes Base.Crc Base.Parser Base.Prog Format.Structs
  Manifest.Mask Manifest.SetLocation Content.Pack Dir.Layout Dir.DirModel.
Import ListNotations.
Open Scope N_scope.

Definition pack_ref := (list N * (N * N))%type.        (* uuid, (absolute position, size) *)

(* open_as_container_pack: header at 0, else the mirrored header in the last 64 bytes *)
Definition open_as_container (f : list N) : res (list pack_ref) :=
  let n := lenN f in
  (* unchecked parse of the first 60 bytes: only a version error is reported *)
  match (match read_raw_n n f 0 60 with
         | Ok b => match parse_all p_pack_header b with Err EVersion => Err EVersion | _ => Ok tt end
         | Err e => Err e end) with
  | Err e => Err e
  | Ok _ =>
      let located :=
        match run_n n f (read_header_p 0) with
        | Ok h => Ok (h, 0)
        | Err _ =>
            if n <? 64 then Err EOob else
            let tail := rev (subN (n - 64) 64 f) in
            match run_n 64 tail (read_header_p 0) with
            | Err e => Err e
            | Ok h => if n <? ph_size h then Err EOob else Ok (h, n - ph_size h)
            end
        end in
      match located with
      | Err e => Err e
      | Ok (h, origin) =>
          (* reader.cut(offset, file_size): the declared size must be available (bounds check of D8) *)
          if n <? origin + ph_size h then Err EOob
          else if kind_eqb (ph_kind h) KContainer then
            match run_n n f (container_new_p origin) with
            | Err e => Err e
            | Ok ps =>                                   (* every pack is cut out of the container's region *)
                if forallb (fun p : pack_ref => fst (snd p) + snd (snd p) <=? origin + ph_size h) ps
                then Ok ps else Err EOob
            end
          else Ok [(ph_uuid h, (origin, ph_size h))]
      end
  end.

Fixpoint find_uuid (uuid : list N) (packs : list pack_ref) : option (N * N) :=
  match packs with
  | [] => None
  | (u, r) :: packs => if list_eqb u uuid then Some r else find_uuid uuid packs
  end.

(* ManifestPack::new: all pack infos are read at open; the directory one is kept apart *)
Record manifest := { mf_pos : N; mf_header : pack_header; mf_mh : manifest_header;
                     mf_dir : pack_info; mf_packs : list pack_info }.

Definition manifest_open_p (pos : N) : prog manifest :=
  pbind (read_header_p pos) (fun h =>
  if negb (kind_eqb (ph_kind h) KManifest) then Fail EFormat else
  pbind (RdBlock (pos + 64) 60 (fun b => lift (parse_all p_manifest_header b))) (fun mh =>
  if 70000 <? mh_count mh then Fail EFormat else
  pbind (read_infos_p (pos + (ph_check_pos h - mh_count mh * 256)) (N.to_nat (mh_count mh))) (fun infos =>
  (* the manifest's own value store is loaded (and CRC-checked) when the manifest is opened *)
  pbind (if (so_off (mh_vs mh) =? 0) && (so_size (mh_vs mh) =? 0) then Ret None
         else pbind (vstore_at_p pos (mh_vs mh)) (fun s => Ret (Some s))) (fun _ =>
  let pis := map snd infos in
  let dirs := filter (fun p => kind_eqb (pi_kind p) KDirectory) pis in
  let others := filter (fun p => negb (kind_eqb (pi_kind p) KDirectory)) pis in
  match rev dirs with
  | [] => Fail EFormat                                  (* the Rust unwraps None here *)
  | d :: _ => Ret {| mf_pos := pos; mf_header := h; mf_mh := mh; mf_dir := d; mf_packs := others |}
  end)))).

(* a file system: the main file plus named sibling files *)
Definition fsys := list (list N * list N).
Fixpoint fs_find (name : list N) (fs : fsys) : option (list N) :=
  match fs with [] => None | (n, b) :: fs => if list_eqb n name then Some b else fs_find name fs end.

(* ChainedLocator [container; FsLocator]: inside the file at hand by uuid, then the recorded
   location (file opened as pack or container pack, looked up by uuid — after the repair of D7) *)
Inductive located := LMissing | LFound (file : list N) (pos size : N).
Definition locate (main : list N) (packs : list pack_ref) (fs : fsys) (uuid loc : list N) : res located :=
  match find_uuid uuid packs with
  | Some (pos, size) => Ok (LFound main pos size)
  | None =>
      match fs_find loc fs with
      | None => Ok LMissing
      | Some file =>
          match open_as_container file with
          | Err e => Err e
          | Ok ps => match find_uuid uuid ps with
                     | Some (pos, size) => Ok (LFound file pos size)
                     | None => Ok LMissing
                     end
          end
      end
  end.

Record container := { ct_main : list N; ct_packs : list pack_ref; ct_manifest : manifest;
                      ct_dir_file : list N; ct_dir_pos : N }.

(* ContainerPack::get_manifest_pack_reader walks a HashMap: the order in which the pack headers are
   looked at is not determined.  A pack whose header does not read makes the search fail when it is
   met before the manifest ([lenient = false]: listing order, every pack before the manifest is met)
   and is not seen at all when the manifest comes first ([lenient = true]).  Both are behaviours of
   the implementation on a damaged file; on an undamaged file they coincide. *)
Fixpoint first_manifest (lenient : bool) (f : list N) (n : N) (packs : list pack_ref) : res (option (N * N)) :=
  match packs with
  | [] => Ok None
  | (_, (pos, size)) :: rest =>
      match run_n n f (read_header_p pos) with
      | Err e => if lenient then first_manifest lenient f n rest else Err e
      | Ok h => if kind_eqb (ph_kind h) KManifest then Ok (Some (pos, size)) else first_manifest lenient f n rest
      end
  end.

(* Container::new *)
Definition container_open_gen (lenient : bool) (main : list N) (fs : fsys) : res container :=
  match open_as_container main with
  | Err e => Err e
  | Ok packs =>
      let n := lenN main in
      match first_manifest lenient main n packs with
      | Err e => Err e
      | Ok None => Err EFormat
      | Ok (Some (mpos, _)) =>
          match run_n n main (manifest_open_p mpos) with
          | Err e => Err e
          | Ok m =>
              match locate main packs fs (pi_uuid (mf_dir m)) (pi_loc (mf_dir m)) with
              | Err e => Err e
              | Ok LMissing => Err EFormat                (* the Rust unwraps None: panic *)
              | Ok (LFound file pos _) =>
                  Ok {| ct_main := main; ct_packs := packs; ct_manifest := m; ct_dir_file := file; ct_dir_pos := pos |}
              end
          end
      end
  end.

Definition container_open := container_open_gen false.
Definition container_open_lenient := container_open_gen true.

(* Container::get_bytes *)
Inductive content_result :=
| CNoPack                                    (* pack id not in the manifest *)
| CMissing (info : pack_info)                (* pack listed but not available *)
| CNoContent                                 (* content index past the count *)
| CFound (cluster blob : N) (loc : content_loc) (data : option (list N)).

Definition get_content (c : container) (fs : fsys) (pack_id content_id : N) : res content_result :=
  match find (fun p => pi_id p =? pack_id) (mf_packs (ct_manifest c)) with
  | None => Ok CNoPack
  | Some info =>
      match locate (ct_main c) (ct_packs c) fs (pi_uuid info) (pi_loc info) with
      | Err e => Err e
      | Ok LMissing => Ok (CMissing info)
      | Ok (LFound file pos _) =>
          match run_n (lenN file) file (pbind (cp_open_p pos) (fun p => cp_read_p p content_id)) with
          | Err e => Err e
          | Ok None => Ok CNoContent
          | Ok (Some (cl, bl, loc, data)) => Ok (CFound cl bl loc data)
          end
      end
  end.

(* the directory pack of the container, decoded *)
Definition container_dir_dump (c : container) : res (list (res index_dump)) :=
  dp_dump_at (ct_dir_file c) (ct_dir_pos c).
Close Scope N_scope.

(* for the damage oracle: the checksummed range of every pack of a file:
   (position, check_info_pos, size of the check block data, kind byte, pack count for a manifest) *)
Open Scope N_scope.
Definition file_ranges (f : list N) : res (list (N * N * N * N * N)) :=
  match open_as_container f with
  | Err e => Err e
  | Ok packs =>
      let n := lenN f in
      Ok (fold_right (fun (p : pack_ref) acc =>
            let pos := fst (snd p) in
            match run_n n f (read_header_p pos) with
            | Err _ => acc
            | Ok h =>
                let cnt := if kind_eqb (ph_kind h) KManifest then
                             match run_n n f (RdBlock (pos + 64) 60 (fun b => lift (parse_all p_manifest_header b))) with
                             | Ok mh => mh_count mh | Err _ => 0 end
                           else 0 in
                (pos, ph_check_pos h, ph_check_size h, kind_byte (ph_kind h), cnt) :: acc
            end) [] packs)
  end.
Close Scope N_scope.
