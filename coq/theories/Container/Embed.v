(* C10 — a container embedded at the end of another file opens as the same container, every pack
   reference shifted by the length of what precedes it.  For EVERY prefix X that does not itself
   start with a CRC-valid pack header, and every pack file C (header at 0, mirrored at its end,
   declared size = its length).  Reader programs are translation invariant: a program whose read
   offsets are all shifted by |X| computes on X ++ f what the original computes on f. *)
From Coq Require Import List Arith NArith Bool Lia.
From Jbk Require Import Base.ListExtra Base.Bytes Base.Crc Base.Parser Base.Prog Format.Structs
  Manifest.SetLocation Container.Reader.
Import ListNotations.
Open Scope N_scope.

(* ---- translation invariance of block reads and of reader programs ---- *)
Lemma subN_prefix (X f : list N) off n : subN (lenN X + off) n (X ++ f) = subN off n f.
Proof.
  unfold subN, lenN. rewrite sub_app_r by lia. f_equal. lia.
Qed.
Lemma read_block_prefix X f off size : read_block (X ++ f) (lenN X + off) size = read_block f off size.
Proof.
  unfold read_block. rewrite subN_prefix.
  replace (lenN X + off + size + 4 <=? lenN (X ++ f)) with (off + size + 4 <=? lenN f); [reflexivity|].
  unfold lenN. rewrite app_length.
  destruct (N.leb_spec (off + size + 4) (N.of_nat (length f))); symmetry; [apply N.leb_le|apply N.leb_gt]; lia.
Qed.
Lemma read_raw_prefix X f off size : read_raw (X ++ f) (lenN X + off) size = read_raw f off size.
Proof.
  unfold read_raw. rewrite subN_prefix.
  replace (lenN X + off + size <=? lenN (X ++ f)) with (off + size <=? lenN f); [reflexivity|].
  unfold lenN. rewrite app_length.
  destruct (N.leb_spec (off + size) (N.of_nat (length f))); symmetry; [apply N.leb_le|apply N.leb_gt]; lia.
Qed.

(* [shifted k g p p']: p' reads where p reads, k bytes further, and returns g of what p returns *)
Inductive shifted {A B} (k : N) (g : A -> B) : prog A -> prog B -> Prop :=
| sh_ret a : shifted k g (Ret a) (Ret (g a))
| sh_fail e : shifted k g (Fail e) (Fail e)
| sh_block off size c c' : (forall d, shifted k g (c d) (c' d)) -> shifted k g (RdBlock off size c) (RdBlock (k + off) size c')
| sh_raw off size c c' : (forall d, shifted k g (c d) (c' d)) -> shifted k g (RdRaw off size c) (RdRaw (k + off) size c').

Definition res_map {A B} (g : A -> B) (r : res A) : res B := match r with Ok a => Ok (g a) | Err e => Err e end.

Theorem run_shifted {A B} (g : A -> B) X f p p' : shifted (lenN X) g p p' -> run (X ++ f) p' = res_map g (run f p).
Proof.
  induction 1 as [a|e|off size c c' H IH|off size c c' H IH]; cbn [run res_map]; try reflexivity.
  - rewrite read_block_prefix. destruct (read_block f off size); [apply IH|reflexivity].
  - rewrite read_raw_prefix. destruct (read_raw f off size); [apply IH|reflexivity].
Qed.

Lemma shifted_pbind {A B A' B'} k (g : A -> A') (h : B -> B') p p' (q : A -> prog B) (q' : A' -> prog B') :
  shifted k g p p' -> (forall a, shifted k h (q a) (q' (g a))) -> shifted k h (pbind p q) (pbind p' q').
Proof.
  induction 1 as [a|e|off size c c' H IH|off size c c' H IH]; intros Hq; cbn [pbind].
  - apply Hq.
  - constructor.
  - constructor. intros d. apply IH. exact Hq.
  - constructor. intros d. apply IH. exact Hq.
Qed.
Lemma shifted_ret_id {A} k (a : A) : shifted k (fun x => x) (Ret a) (Ret a).
Proof. exact (sh_ret k (fun x => x) a). Qed.
Lemma shifted_lift {A} k (r : res A) : shifted k (fun x => x) (lift r) (lift r).
Proof. destruct r; [apply shifted_ret_id|constructor]. Qed.

(* ---- the programs of the blind open ---- *)
Lemma shifted_read_header k pos : shifted k (fun x => x) (read_header_p pos) (read_header_p (k + pos)).
Proof. unfold read_header_p. constructor. intros d. apply shifted_lift. Qed.

Lemma shifted_read_locators k tab n : forall i,
  shifted k (fun x => x) (read_locators_p tab n i) (read_locators_p (k + tab) n i).
Proof.
  induction n as [|n IH]; intros i; cbn [read_locators_p]; [apply shifted_ret_id|].
  eapply (shifted_pbind k (fun x => x) (fun x => x)).
  - replace (k + tab + 36 * i) with (k + (tab + 36 * i)) by lia. constructor. intros d. apply shifted_lift.
  - intros l. eapply (shifted_pbind k (fun x => x) (fun x => x)); [apply IH|]. intros rest. apply shifted_ret_id.
Qed.

Definition shift_ref (k : N) (r : pack_ref) : pack_ref := (fst r, (k + fst (snd r), snd (snd r))).

Lemma shifted_container_new k base :
  shifted k (map (shift_ref k)) (container_new_p base) (container_new_p (k + base)).
Proof.
  unfold container_new_p.
  eapply (shifted_pbind k (fun x => x)); [apply shifted_read_header|]. intros h.
  destruct (negb (kind_eqb (ph_kind h) KContainer)); [constructor|].
  eapply (shifted_pbind k (fun x => x)).
  - replace (k + base + 64) with (k + (base + 64)) by lia. constructor. intros d. apply shifted_lift.
  - intros ch. eapply (shifted_pbind k (fun x => x)).
    + replace (k + base + ch_locators_pos ch) with (k + (base + ch_locators_pos ch)) by lia. apply shifted_read_locators.
    + intros ls.
      replace (map (fun l : pack_locator => (pl_uuid l, (k + base + pl_pos l, pl_size l))) ls)
        with (map (shift_ref k) (map (fun l : pack_locator => (pl_uuid l, (base + pl_pos l, pl_size l))) ls)).
      * constructor.
      * rewrite map_map. apply map_ext. intros l. unfold shift_ref. cbn [fst snd]. f_equal. f_equal. lia.
Qed.

(* ---- the blind open of an embedded pack ---- *)
(* C is a pack file: its header block is at 0 and mirrored in its last 64 bytes, and it declares its own length *)
Record pack_file (C : list N) (h : pack_header) : Prop := {
  pf_head : run C (read_header_p 0) = Ok h;
  pf_tail : run (rev (subN (lenN C - 64) 64 C)) (read_header_p 0) = Ok h;
  pf_size : ph_size h = lenN C;
  pf_len  : 64 <= lenN C }.

(* X ++ C does not start with a readable pack header (otherwise the reader rightly opens THAT pack) *)
Definition no_header_at_start (F : list N) : Prop :=
  (exists e, run F (read_header_p 0) = Err e) /\
  match read_raw F 0 60 with
  | Ok b => parse_all p_pack_header b <> Err EVersion
  | Err _ => False
  end.

Lemma read_header_unchecked C h : run C (read_header_p 0) = Ok h ->
  exists b, read_raw C 0 60 = Ok b /\ parse_all p_pack_header b = Ok h.
Proof.
  unfold read_header_p. cbn [run]. unfold read_block, read_raw.
  destruct (N.leb_spec (0 + 60 + 4) (lenN C)) as [L|L]; [|discriminate].
  destruct (check_block _); [|discriminate]. rewrite run_lift. intros E.
  replace (0 + 60 <=? lenN C) with true by (symmetry; apply N.leb_le; lia).
  eexists. split; [reflexivity|]. rewrite <- E. f_equal.
  unfold subN. change (N.to_nat (60 + 4)) with 64%nat. change (N.to_nat 60) with 60%nat.
  unfold sub. rewrite firstn_firstn. reflexivity.
Qed.

Lemma forallb_shift k lim ps :
  forallb (fun p : pack_ref => fst (snd p) + snd (snd p) <=? k + lim) (map (shift_ref k) ps) =
  forallb (fun p : pack_ref => fst (snd p) + snd (snd p) <=? lim) ps.
Proof.
  induction ps as [|p ps IH]; [reflexivity|]. cbn [map forallb]. rewrite IH. f_equal.
  unfold shift_ref. cbn [fst snd].
  destruct (N.leb_spec (fst (snd p) + snd (snd p)) lim); [apply N.leb_le|apply N.leb_gt]; lia.
Qed.

Theorem open_embedded X C h :
  pack_file C h -> no_header_at_start (X ++ C) ->
  open_as_container (X ++ C) = res_map (map (shift_ref (lenN X))) (open_as_container C).
Proof.
  intros [Hh Ht Hs Hl] [[e0 He0] Hv].
  destruct (read_header_unchecked C h Hh) as (b & Rb & Pb).
  (* the pack alone *)
  assert (OC : open_as_container C =
               if kind_eqb (ph_kind h) KContainer then
                 match run C (container_new_p 0) with
                 | Err e => Err e
                 | Ok ps => if forallb (fun p : pack_ref => fst (snd p) + snd (snd p) <=? 0 + ph_size h) ps then Ok ps else Err EOob
                 end
               else Ok [(ph_uuid h, (0, ph_size h))]).
  { unfold open_as_container. change (read_raw_n (lenN C) C 0 60) with (read_raw C 0 60). rewrite Rb, Pb.
    rewrite run_n_run, Hh.
    replace (lenN C <? 0 + ph_size h) with false by (symmetry; apply N.ltb_ge; lia).
    rewrite run_n_run. reflexivity. }
  (* embedded *)
  set (F := X ++ C) in *. set (k := lenN X).
  assert (LF : lenN F = k + lenN C) by (subst F k; unfold lenN; rewrite app_length; lia).
  assert (OF : open_as_container F =
               if kind_eqb (ph_kind h) KContainer then
                 match run F (container_new_p k) with
                 | Err e => Err e
                 | Ok ps => if forallb (fun p : pack_ref => fst (snd p) + snd (snd p) <=? k + ph_size h) ps then Ok ps else Err EOob
                 end
               else Ok [(ph_uuid h, (k, ph_size h))]).
  { assert (TL : subN (lenN F - 64) 64 F = subN (lenN C - 64) 64 C).
    { subst F. rewrite LF. replace (k + lenN C - 64) with (k + (lenN C - 64)) by lia. subst k. apply subN_prefix. }
    assert (L64 : lenN (rev (subN (lenN C - 64) 64 C)) = 64).
    { unfold lenN. rewrite rev_length. unfold subN. rewrite sub_length; [reflexivity|]. unfold lenN in Hl. lia. }
    assert (RT : run_n 64 (rev (subN (lenN F - 64) 64 F)) (read_header_p 0) = Ok h).
    { rewrite TL. rewrite <- L64 at 1. rewrite run_n_run. exact Ht. }
    unfold open_as_container. change (read_raw_n (lenN F) F 0 60) with (read_raw F 0 60).
    assert (V : (match read_raw F 0 60 with
                 | Ok b0 => match parse_all p_pack_header b0 with Err EVersion => Err EVersion | _ => Ok tt end
                 | Err e => Err e end) = Ok tt).
    { destruct (read_raw F 0 60) as [bf|ef]; [|contradiction].
      destruct (parse_all p_pack_header bf) as [hf|[]]; try reflexivity. congruence. }
    rewrite V. rewrite run_n_run, He0.
    replace (lenN F <? 64) with false by (symmetry; apply N.ltb_ge; lia).
    rewrite RT.
    replace (lenN F <? ph_size h) with false by (symmetry; apply N.ltb_ge; lia).
    replace (lenN F - ph_size h) with k by lia.
    replace (lenN F <? k + ph_size h) with false by (symmetry; apply N.ltb_ge; lia).
    rewrite run_n_run. reflexivity. }
  rewrite OF, OC. destruct (kind_eqb (ph_kind h) KContainer).
  - replace (container_new_p k) with (container_new_p (k + 0)) by (f_equal; lia).
    subst F k. pose proof (run_shifted _ X C _ _ (shifted_container_new (lenN X) 0)) as E.
    unfold pack_ref in *. rewrite E. clear E.
    destruct (run C (container_new_p 0)) as [ps|e]; cbn [res_map]; [|reflexivity].
    change (0 + ph_size h) with (ph_size h). rewrite forallb_shift. unfold pack_ref.
    destruct (forallb _ ps); reflexivity.
  - cbn [res_map map]. unfold shift_ref. cbn [fst snd]. now rewrite N.add_0_r.
Qed.

(* looking a pack up by identity commutes with the embedding *)
Lemma find_uuid_shift k u ps :
  find_uuid u (map (shift_ref k) ps) = option_map (fun r => (k + fst r, snd r)) (find_uuid u ps).
Proof.
  induction ps as [|[u0 [pos size]] ps IH]; [reflexivity|]. cbn [map shift_ref find_uuid fst snd].
  destruct (list_eqb u0 u); [reflexivity|exact IH].
Qed.
Close Scope N_scope.

(* non-vacuity: the smallest pack file (a header block and its mirror) behind a 3-byte prefix *)
Definition ex_header : pack_header :=
  {| ph_kind := KContent; ph_vendor := [1; 2; 3; 4]%N; ph_major := 0%N; ph_minor := 2%N;
     ph_uuid := [1; 2; 3; 4; 5; 6; 7; 8; 9; 10; 11; 12; 13; 14; 15; 16]%N; ph_flags := 0%N; ph_size := 128%N; ph_check_pos := 64%N |}.
Definition ex_pack : list N := mk_block (ser_pack_header ex_header) ++ rev (mk_block (ser_pack_header ex_header)).
Example ex_pack_is_a_pack_file : pack_file ex_pack ex_header.
Proof. constructor; vm_compute; try reflexivity. discriminate. Qed.
Example ex_prefix_has_no_header : no_header_at_start ([7; 7; 7]%N ++ ex_pack).
Proof. split; [eexists; vm_compute; reflexivity|vm_compute; discriminate]. Qed.
Example ex_embedded_opens : open_as_container ([7; 7; 7]%N ++ ex_pack) = Ok [(ph_uuid ex_header, (3, 128))%N].
Proof. vm_compute. reflexivity. Qed.
