(* The manifest at file level (C11 / C14).  [manifest_at f pos h mh infos] says that at [pos] the file
   holds the pack header block, the manifest header block, and — in the 256-byte slots that end where
   the check information begins — one CRC'd pack-info block per listed pack.  Then ManifestPack::new,
   run on that file, lists exactly these packs: the directory pack apart, every other pack with the
   identity, size, check position and location the writer recorded.  What Container::get_pack then
   reports as missing or found (Container/Proofs.v) is decided on exactly this list. *)
From Coq Require Import List Arith NArith Bool Lia.
From Jbk Require Import Base.ListExtra Base.Bytes Base.Crc Base.Parser Base.Prog Format.Structs Format.Roundtrips
  Manifest.SetLocation Content.Pack Content.FilePack Dir.Layout Container.Reader.
Import ListNotations.
Open Scope N_scope.

Record manifest_at (f : list N) (pos : N) (h : pack_header) (mh : manifest_header) (infos : list pack_info) : Prop := {
  ma_wfh   : wf_pack_header h;
  ma_kind  : ph_kind h = KManifest;
  ma_head  : placed f pos (ser_pack_header h);
  ma_wfmh  : mh_count mh < 2 ^ 16 /\ wf_sized_offset (mh_vs mh) /\ length (mh_free mh) = 24%nat;
  ma_mhead : placed f (pos + 64) (ser_manifest_header mh);
  ma_count : mh_count mh = N.of_nat (length infos);
  ma_infos : forall i p, nth_error infos i = Some p ->
               wf_pack_info p /\
               placed f (pos + (ph_check_pos h - mh_count mh * 256) + 256 * N.of_nat i) (ser_pack_info p);
  (* the manifest's own value store: absent, or readable where the header says *)
  ma_vs    : (so_off (mh_vs mh) =? 0) && (so_size (mh_vs mh) =? 0) = true \/
             exists s, run f (vstore_at_p pos (mh_vs mh)) = Ok s }.

Lemma read_infos_placed f : forall (infos : list pack_info) g,
  (forall i p, nth_error infos i = Some p -> wf_pack_info p /\ placed f (g + 256 * N.of_nat i) (ser_pack_info p)) ->
  exists l, run f (read_infos_p g (length infos)) = Ok l /\ map snd l = infos.
Proof.
  induction infos as [|p infos IH]; intros g H.
  - exists []. split; reflexivity.
  - destruct (H 0%nat p eq_refl) as [Wp Pp].
    destruct (IH (g + 256)) as (l & Hl & Ml).
    { intros i q Hq. destruct (H (S i) q Hq) as [Wq Pq]. split; [exact Wq|].
      replace (g + 256 + 256 * N.of_nat i) with (g + 256 * N.of_nat (S i)) by lia. exact Pq. }
    exists ((g, p) :: l). split; [|cbn [map snd]; now rewrite Ml].
    cbn [length read_infos_p]. rewrite run_pbind. unfold read_info_p. cbn [run].
    unfold placed in Pp. replace (g + 256 * N.of_nat 0) with g in Pp by lia.
    unfold lenN in Pp. rewrite (ser_pack_info_length p Wp) in Pp. change (N.of_nat 252) with 252 in Pp. rewrite Pp.
    rewrite (parse_all_ser p_pack_info ser_pack_info p (p_pack_info_ser p [] Wp)). cbn [lift run].
    rewrite run_pbind, Hl. reflexivity.
Qed.

Theorem manifest_open_ok f pos h mh infos d rest :
  manifest_at f pos h mh infos ->
  rev (filter (fun p => kind_eqb (pi_kind p) KDirectory) infos) = d :: rest ->     (* a directory pack is listed *)
  run f (manifest_open_p pos) =
    Ok {| mf_pos := pos; mf_header := h; mf_mh := mh; mf_dir := d;
          mf_packs := filter (fun p => negb (kind_eqb (pi_kind p) KDirectory)) infos |}.
Proof.
  intros [Wh Kd Hd (W1 & W2 & W3) Mhd Cn Inf Vs] Hdir.
  unfold manifest_open_p, read_header_p. rewrite run_pbind. cbn [run].
  pose proof Hd as Hd'. unfold placed in Hd'. unfold lenN in Hd'. rewrite ser_pack_header_length in Hd' by exact Wh.
  change (N.of_nat 60) with 60 in Hd'. rewrite Hd'.
  rewrite (parse_all_ser p_pack_header ser_pack_header h (p_pack_header_ser h [] Wh)). cbn [lift run].
  rewrite Kd. change (negb (kind_eqb KManifest KManifest)) with false. cbn iota.
  rewrite run_pbind. cbn [run].
  assert (Lm : lenN (ser_manifest_header mh) = 60).
  { unfold lenN, ser_manifest_header. rewrite !app_length, le_enc_length, ser_sized_offset_length, zerosN_length, W3. reflexivity. }
  pose proof Mhd as Mhd'. unfold placed in Mhd'. rewrite Lm in Mhd'. rewrite Mhd'.
  rewrite (parse_all_ser p_manifest_header ser_manifest_header mh (p_manifest_header_ser mh [] W1 W2 W3)). cbn [lift run].
  replace (70000 <? mh_count mh) with false by (symmetry; apply N.ltb_ge; lia).
  rewrite run_pbind.
  destruct (read_infos_placed f infos (pos + (ph_check_pos h - mh_count mh * 256)) Inf) as (l & Hl & Ml).
  rewrite Cn, Nat2N.id. rewrite <- Cn. rewrite Hl.
  rewrite run_pbind.
  assert (Hv : exists o, run f (if (so_off (mh_vs mh) =? 0) && (so_size (mh_vs mh) =? 0) then Ret None
                               else pbind (vstore_at_p pos (mh_vs mh)) (fun s => Ret (Some s))) = Ok o).
  { destruct Vs as [Z|(s & Hs)].
    - rewrite Z. exists None. reflexivity.
    - destruct (_ && _); [exists None; reflexivity|]. exists (Some s). rewrite run_pbind, Hs. reflexivity. }
  destruct Hv as (o & Ho). rewrite Ho.
  rewrite Ml, Hdir. reflexivity.
Qed.

(* every pack the writer listed (other than the directory pack) is in the reader's list, unchanged *)
Corollary manifest_lists_the_written_packs f pos h mh infos d rest p :
  manifest_at f pos h mh infos ->
  rev (filter (fun p => kind_eqb (pi_kind p) KDirectory) infos) = d :: rest ->
  In p infos -> kind_eqb (pi_kind p) KDirectory = false ->
  exists m, run f (manifest_open_p pos) = Ok m /\ In p (mf_packs m).
Proof.
  intros M Hd Hp Hk. eexists. split; [exact (manifest_open_ok f pos h mh infos d rest M Hd)|].
  cbn [mf_packs]. apply filter_In. split; [exact Hp|]. now rewrite Hk.
Qed.
Close Scope N_scope.

(* non-vacuity: a manifest listing a directory pack and one content pack, laid out by hand *)
Open Scope N_scope.
Definition exm_dir : pack_info :=
  {| pi_uuid := [1; 1; 1; 1; 1; 1; 1; 1; 1; 1; 1; 1; 1; 1; 1; 1]; pi_size := 1000; pi_check := {| so_size := 33; so_off := 900 |};
     pi_id := 0; pi_kind := KDirectory; pi_group := 0; pi_free_id := 0; pi_loc := [] |}.
Definition exm_cont : pack_info :=
  {| pi_uuid := [2; 2; 2; 2; 2; 2; 2; 2; 2; 2; 2; 2; 2; 2; 2; 2]; pi_size := 5000; pi_check := {| so_size := 33; so_off := 4900 |};
     pi_id := 1; pi_kind := Structs.KContent; pi_group := 0; pi_free_id := 1; pi_loc := [99; 46; 106; 98; 107; 99] |}.
Definition exm_mh : manifest_header := {| mh_count := 2; mh_vs := {| so_size := 0; so_off := 0 |}; mh_free := repeat 0 24 |}.
Definition exm_h : pack_header :=
  {| ph_kind := KManifest; ph_vendor := [1; 2; 3; 4]; ph_major := 0; ph_minor := 2;
     ph_uuid := [9; 9; 9; 9; 9; 9; 9; 9; 9; 9; 9; 9; 9; 9; 9; 9]; ph_flags := 0; ph_size := 737; ph_check_pos := 640 |}.
Definition exm_file : list N :=
  mk_block (ser_pack_header exm_h) ++ mk_block (ser_manifest_header exm_mh) ++
  mk_block (ser_pack_info exm_dir) ++ mk_block (ser_pack_info exm_cont).
Example exm_is_a_manifest : manifest_at exm_file 0 exm_h exm_mh [exm_dir; exm_cont].
Proof.
  constructor.
  - unfold wf_pack_header. cbn. repeat split; vm_compute; reflexivity.
  - reflexivity.
  - vm_compute. reflexivity.
  - repeat split; vm_compute; reflexivity.
  - vm_compute. reflexivity.
  - reflexivity.
  - intros i p Hp. destruct i as [|[|i]]; cbn in Hp.
    + injection Hp as <-. split; [unfold wf_pack_info, wf_sized_offset, wf_loc; repeat split; try (cbn; lia); try (vm_compute; reflexivity)|vm_compute; reflexivity].
    + injection Hp as <-. split; [unfold wf_pack_info, wf_sized_offset, wf_loc; repeat split; try (cbn; lia); try (vm_compute; reflexivity)|vm_compute; reflexivity].
    + destruct i; discriminate.
  - left. reflexivity.
Qed.
Example exm_opens :
  run exm_file (manifest_open_p 0) =
    Ok {| mf_pos := 0; mf_header := exm_h; mf_mh := exm_mh; mf_dir := exm_dir; mf_packs := [exm_cont] |}.
Proof. exact (manifest_open_ok exm_file 0 exm_h exm_mh [exm_dir; exm_cont] exm_dir [] exm_is_a_manifest eq_refl). Qed.
Close Scope N_scope.

