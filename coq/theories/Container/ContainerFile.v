(* The container pack at file level (C10 / C14).  [container_at f base h ch locs] says that at [base]
   the file holds the pack header block (kind container), the container header block and one CRC'd
   locator block per embedded pack in the locator table.  Then ContainerPack::new, run on that file,
   lists exactly the embedded packs: each with the identity the writer recorded, at [base] + its
   recorded position, with its recorded size — and a lookup by identity finds each of them
   (first occurrence), whatever the order in which the packs were concatenated. *)
From Coq Require Import List Arith NArith Bool Lia.
From Jbk Require Import Base.ListExtra Base.Bytes Base.Crc Base.Parser Base.Prog Format.Structs Format.Roundtrips
  Manifest.SetLocation Content.Pack Content.FilePack Container.Reader.
Import ListNotations.
Open Scope N_scope.

Definition wf_locator (l : pack_locator) : Prop := length (pl_uuid l) = 16%nat /\ pl_size l < 2 ^ 64 /\ pl_pos l < 2 ^ 64.

Record container_at (f : list N) (base : N) (h : pack_header) (ch : container_header) (locs : list pack_locator) : Prop := {
  ca_wfh   : wf_pack_header h;
  ca_kind  : ph_kind h = KContainer;
  ca_head  : placed f base (ser_pack_header h);
  ca_wfch  : ch_locators_pos ch < 2 ^ 64 /\ ch_count ch < 2 ^ 16 /\ length (ch_free ch) = 24%nat;
  ca_chead : placed f (base + 64) (ser_container_header ch);
  ca_count : ch_count ch = N.of_nat (length locs);
  ca_locs  : forall i l, nth_error locs i = Some l ->
               wf_locator l /\ placed f (base + ch_locators_pos ch + 36 * N.of_nat i) (ser_pack_locator l) }.

Lemma ser_pack_locator_length l : wf_locator l -> length (ser_pack_locator l) = 32%nat.
Proof. intros (H & _). unfold ser_pack_locator. rewrite !app_length, !le_enc_length, H. reflexivity. Qed.

Lemma read_locators_placed f tab : forall (locs : list pack_locator) i0,
  (forall i l, nth_error locs i = Some l -> wf_locator l /\ placed f (tab + 36 * (i0 + N.of_nat i)) (ser_pack_locator l)) ->
  run f (read_locators_p tab (length locs) i0) = Ok locs.
Proof.
  induction locs as [|l locs IH]; intros i0 H; [reflexivity|].
  destruct (H 0%nat l eq_refl) as [Wl Pl]. destruct Wl as (W1 & W2 & W3).
  cbn [length read_locators_p]. rewrite run_pbind. cbn [run].
  unfold placed in Pl. replace (i0 + N.of_nat 0) with i0 in Pl by lia.
  unfold lenN in Pl. rewrite (ser_pack_locator_length l (conj W1 (conj W2 W3))) in Pl. change (N.of_nat 32) with 32 in Pl. rewrite Pl.
  rewrite (parse_all_ser p_pack_locator ser_pack_locator l (p_pack_locator_ser l [] W1 W2 W3)). cbn [lift run].
  rewrite run_pbind, IH; [reflexivity|].
  intros i q Hq. destruct (H (S i) q Hq) as [Wq Pq]. split; [exact Wq|].
  replace (i0 + 1 + N.of_nat i) with (i0 + N.of_nat (S i)) by lia. exact Pq.
Qed.

Theorem container_lists_its_packs f base h ch locs :
  container_at f base h ch locs ->
  run f (container_new_p base) = Ok (map (fun l => (pl_uuid l, (base + pl_pos l, pl_size l))) locs).
Proof.
  intros [Wh Kd Hd (W1 & W2 & W3) Chd Cn Lc].
  unfold container_new_p, read_header_p. rewrite run_pbind. cbn [run].
  pose proof Hd as Hd'. unfold placed in Hd'. unfold lenN in Hd'. rewrite ser_pack_header_length in Hd' by exact Wh.
  change (N.of_nat 60) with 60 in Hd'. rewrite Hd'.
  rewrite (parse_all_ser p_pack_header ser_pack_header h (p_pack_header_ser h [] Wh)). cbn [lift run].
  rewrite Kd. change (negb (kind_eqb KContainer KContainer)) with false. cbn iota.
  rewrite run_pbind. cbn [run].
  assert (Lm : lenN (ser_container_header ch) = 60).
  { unfold lenN, ser_container_header. rewrite !app_length, !le_enc_length, zerosN_length, W3. reflexivity. }
  pose proof Chd as Chd'. unfold placed in Chd'. rewrite Lm in Chd'. rewrite Chd'.
  rewrite (parse_all_ser p_container_header ser_container_header ch (p_container_header_ser ch [] W1 W2 W3)). cbn [lift run].
  rewrite run_pbind, Cn, Nat2N.id.
  rewrite (read_locators_placed f (base + ch_locators_pos ch) locs 0); [reflexivity|].
  intros i l Hl. destruct (Lc i l Hl) as [Wl Pl]. split; [exact Wl|]. replace (0 + N.of_nat i) with (N.of_nat i) by lia. exact Pl.
Qed.

(* a lookup by identity finds an embedded pack where the writer put it, whatever the concatenation order,
   as long as no earlier locator carries the same identity *)
Lemma find_uuid_locs base (locs : list pack_locator) i l :
  nth_error locs i = Some l ->
  (forall j l', (j < i)%nat -> nth_error locs j = Some l' -> list_eqb (pl_uuid l') (pl_uuid l) = false) ->
  list_eqb (pl_uuid l) (pl_uuid l) = true ->
  find_uuid (pl_uuid l) (map (fun l => (pl_uuid l, (base + pl_pos l, pl_size l))) locs) = Some (base + pl_pos l, pl_size l).
Proof.
  revert i. induction locs as [|x locs IH]; intros [|i] Hi Hbefore Hrefl; cbn [nth_error] in Hi; try discriminate.
  - injection Hi as ->. cbn [map find_uuid]. rewrite Hrefl. reflexivity.
  - cbn [map find_uuid]. assert (H0 : (0 < S i)%nat) by lia. rewrite (Hbefore 0%nat x H0 eq_refl).
    apply (IH i Hi); [|exact Hrefl]. intros j l' Hj Hl'. assert (Hj' : (S j < S i)%nat) by lia. exact (Hbefore (S j) l' Hj' Hl').
Qed.

Theorem embedded_pack_is_found f base h ch locs i l :
  container_at f base h ch locs ->
  nth_error locs i = Some l ->
  (forall j l', (j < i)%nat -> nth_error locs j = Some l' -> list_eqb (pl_uuid l') (pl_uuid l) = false) ->
  exists ps, run f (container_new_p base) = Ok ps /\ find_uuid (pl_uuid l) ps = Some (base + pl_pos l, pl_size l).
Proof.
  intros C Hi Hb. eexists. split; [exact (container_lists_its_packs f base h ch locs C)|].
  apply (find_uuid_locs base locs i l Hi Hb).
  unfold list_eqb. rewrite Nat.eqb_refl. cbn [andb].
  apply forallb_forall. intros [a b] Hab. cbn [fst snd].
  assert (E : a = b).
  { clear - Hab. revert Hab. generalize (pl_uuid l) as u. induction u as [|x u IH]; cbn [combine]; [contradiction|].
    intros [E|H]; [injection E as <- <-; reflexivity|exact (IH H)]. }
  subst b. apply N.eqb_refl.
Qed.
Close Scope N_scope.

(* non-vacuity: a container pack with two locators, laid out by hand; the second pack is found by identity *)
Open Scope N_scope.
Definition exc_l1 : pack_locator := {| pl_uuid := [1; 1; 1; 1; 1; 1; 1; 1; 1; 1; 1; 1; 1; 1; 1; 1]; pl_size := 300; pl_pos := 500 |}.
Definition exc_l2 : pack_locator := {| pl_uuid := [2; 2; 2; 2; 2; 2; 2; 2; 2; 2; 2; 2; 2; 2; 2; 2]; pl_size := 100; pl_pos := 200 |}.
Definition exc_ch : container_header := {| ch_locators_pos := 128; ch_count := 2; ch_free := repeat 0 24 |}.
Definition exc_h : pack_header :=
  {| ph_kind := KContainer; ph_vendor := [1; 2; 3; 4]; ph_major := 0; ph_minor := 2;
     ph_uuid := [9; 9; 9; 9; 9; 9; 9; 9; 9; 9; 9; 9; 9; 9; 9; 9]; ph_flags := 0; ph_size := 900; ph_check_pos := 800 |}.
Definition exc_file : list N :=
  mk_block (ser_pack_header exc_h) ++ mk_block (ser_container_header exc_ch) ++
  mk_block (ser_pack_locator exc_l1) ++ mk_block (ser_pack_locator exc_l2).
Example exc_is_a_container : container_at exc_file 0 exc_h exc_ch [exc_l1; exc_l2].
Proof.
  constructor.
  - unfold wf_pack_header. cbn. repeat split; vm_compute; reflexivity.
  - reflexivity.
  - vm_compute. reflexivity.
  - repeat split; vm_compute; reflexivity.
  - vm_compute. reflexivity.
  - reflexivity.
  - intros i l Hl. destruct i as [|[|i]]; cbn in Hl.
    + injection Hl as <-. split; [repeat split; vm_compute; reflexivity|vm_compute; reflexivity].
    + injection Hl as <-. split; [repeat split; vm_compute; reflexivity|vm_compute; reflexivity].
    + destruct i; discriminate.
Qed.
Example exc_second_pack_is_found :
  exists ps, run exc_file (container_new_p 0) = Ok ps /\ find_uuid (pl_uuid exc_l2) ps = Some (200, 100).
Proof.
  refine (embedded_pack_is_found exc_file 0 exc_h exc_ch [exc_l1; exc_l2] 1%nat exc_l2 exc_is_a_container eq_refl _).
  intros j l' Hj Hl'. destruct j as [|j]; [|lia]. injection Hl' as <-. vm_compute. reflexivity.
Qed.
Close Scope N_scope.

