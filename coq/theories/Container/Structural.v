(* Every structure query of the reader model reads only through CRC-checked blocks: the
   hypothesis of reader_monotone / burst4_detected holds for them. *)
From Coq Require Import List Arith NArith Bool Lia.
From Jbk Require Import Base.ListExtra Base.Bytes Base.Crc Base.Parser Base.Prog Format.Structs
  Manifest.SetLocation Content.Pack Dir.Layout Container.Reader Container.Damage.
Import ListNotations.

Lemma structural_pbind {A B} (p : prog A) (g : A -> prog B) :
  structural p -> (forall a, structural (g a)) -> structural (pbind p g).
Proof.
  induction p as [a|e|off size k IH|off size k IH|k IH]; cbn [pbind structural]; intros S G; try tauto.
  - apply G.
  - intros d. apply IH; [apply S|exact G].
Qed.
Lemma structural_lift {A} (r : res A) : structural (lift r).
Proof. destruct r; exact I. Qed.
Lemma structural_rdblock_lift {A} off size (g : list N -> res A) : structural (RdBlock off size (fun b => lift (g b))).
Proof. cbn [structural]. intros d. apply structural_lift. Qed.
Lemma structural_rdblock_ret off size : structural (RdBlock off size (fun b => Ret b)).
Proof. cbn [structural]. intros d. exact I. Qed.

Ltac structural_tac :=
  repeat first
    [ exact I
    | apply structural_lift
    | apply structural_rdblock_lift
    | apply structural_rdblock_ret
    | apply structural_pbind; [|intros ?]
    | match goal with
      | |- structural (if ?c then _ else _) => destruct c
      | |- structural (match ?x with _ => _ end) => destruct x
      | |- structural (let '(_, _) := ?x in _) => destruct x
      end ].

Lemma structural_read_header pos : structural (read_header_p pos).
Proof. unfold read_header_p. structural_tac. Qed.

Lemma structural_read_locators tab n : forall i, structural (read_locators_p tab n i).
Proof.
  induction n as [|n IH]; intros i; cbn [read_locators_p]; [exact I|].
  apply structural_pbind; [apply structural_rdblock_lift|intros l].
  apply structural_pbind; [apply IH|intros rest]. exact I.
Qed.

Lemma structural_container_new base : structural (container_new_p base).
Proof.
  unfold container_new_p. apply structural_pbind; [apply structural_read_header|intros h].
  destruct (negb _); [exact I|].
  apply structural_pbind; [apply structural_rdblock_lift|intros ch].
  apply structural_pbind; [apply structural_read_locators|intros ls]. exact I.
Qed.

Lemma structural_read_infos n : forall g, structural (read_infos_p g n).
Proof.
  induction n as [|n IH]; intros g; cbn [read_infos_p]; [exact I|].
  apply structural_pbind; [unfold read_info_p; apply structural_rdblock_lift|intros pi].
  apply structural_pbind; [apply IH|intros rest]. exact I.
Qed.

Lemma structural_vstore_at base so : structural (vstore_at_p base so).
Proof.
  unfold vstore_at_p.
  apply structural_pbind; [apply structural_rdblock_lift|intros t].
  destruct t; (destruct (N.ltb _ _); [exact I|]); (apply structural_pbind; [apply structural_rdblock_ret|intros data]; exact I).
Qed.

Lemma structural_manifest_open pos : structural (manifest_open_p pos).
Proof.
  unfold manifest_open_p. apply structural_pbind; [apply structural_read_header|intros h].
  destruct (negb _); [exact I|].
  apply structural_pbind; [apply structural_rdblock_lift|intros mh].
  destruct (N.ltb _ _); [exact I|].
  apply structural_pbind; [apply structural_read_infos|intros infos].
  apply structural_pbind; [|intros vs; destruct (rev _); exact I].
  destruct (_ && _); [exact I|].
  apply structural_pbind; [apply structural_vstore_at|intros s; exact I].
Qed.

Lemma structural_dp_open base : structural (dp_open_p base).
Proof.
  unfold dp_open_p. apply structural_pbind; [apply structural_read_header|intros h].
  destruct (negb _); [exact I|].
  apply structural_pbind; [apply structural_rdblock_lift|intros dh].
  apply structural_pbind; [apply structural_rdblock_ret|intros vp].
  apply structural_pbind; [apply structural_rdblock_ret|intros ep].
  apply structural_pbind; [apply structural_rdblock_ret|intros ip]. exact I.
Qed.

Lemma structural_ptr_at tab k : structural (ptr_at tab k).
Proof. unfold ptr_at. apply structural_pbind; [apply structural_lift|intros [so r]]. exact I. Qed.

Lemma structural_dp_index d k : structural (dp_index_p d k).
Proof. unfold dp_index_p. apply structural_pbind; [apply structural_ptr_at|intros so]. apply structural_rdblock_lift. Qed.

Lemma structural_dp_entry_store d k : structural (dp_entry_store_p d k).
Proof.
  unfold dp_entry_store_p. destruct (N.leb _ _); [exact I|].
  apply structural_pbind; [apply structural_ptr_at|intros so].
  apply structural_pbind; [apply structural_rdblock_lift|intros ly].
  destruct (l_checked ly); [exact I|].
  destruct (N.ltb _ _); [exact I|].
  apply structural_pbind; [apply structural_rdblock_ret|intros data]. exact I.
Qed.

Lemma structural_dp_value_store d k : structural (dp_value_store_p d k).
Proof.
  unfold dp_value_store_p. destruct (N.leb _ _); [exact I|].
  apply structural_pbind; [apply structural_ptr_at|intros so]. apply structural_vstore_at.
Qed.

Lemma structural_cp_open base : structural (cp_open_p base).
Proof.
  unfold cp_open_p. apply structural_pbind; [apply structural_read_header|intros h].
  destruct (negb _); [exact I|].
  apply structural_pbind; [apply structural_rdblock_lift|intros ch].
  apply structural_pbind; [apply structural_rdblock_ret|intros infos].
  apply structural_pbind; [apply structural_rdblock_ret|intros ptrs]. exact I.
Qed.

(* where a content is (cluster, blob, offsets, sizes): structure, read through checked blocks *)
Lemma structural_cp_locate p i : structural (cp_locate_p p i).
Proof.
  unfold cp_locate_p. destruct (N.leb _ _); [exact I|].
  destruct (dec_content_info _) as [cidx bidx].
  destruct (N.leb _ _); [exact I|].
  apply structural_pbind; [apply structural_lift|intros [so r]].
  apply structural_pbind; [apply structural_rdblock_lift|intros t].
  destruct (N.ltb _ _); [exact I|].
  destruct (Nat.leb _ _); [exact I|]. destruct (N.ltb _ _); [exact I|]. destruct (N.eqb _ _); exact I.
Qed.
