(* C10 / C01 end to end: Container::get_bytes through the container-level reader.
   A content stored verbatim in a content pack is returned byte for byte by the container, and by the
   SAME bytes whether the pack is embedded in the file at hand (one-file packaging, concat in any
   order) or lies in a sibling file at its recorded location, alone or inside another container
   (two / three files): the two theorems below have the same conclusion. *)
From Coq Require Import List Arith NArith Bool Lia.
From Jbk Require Import Base.ListExtra Base.Bytes Base.Crc Base.Parser Base.Prog Format.Structs Format.Roundtrips
  Manifest.SetLocation Content.Pack Content.Cluster Content.FilePack Container.Reader Container.Proofs.
Import ListNotations.
Open Scope N_scope.

Section Through.
Variables (c : container) (fs : fsys) (pack_id : N) (info : pack_info).
Hypothesis Listed : find (fun p => pi_id p =? pack_id) (mf_packs (ct_manifest c)) = Some info.

Lemma read_in_file file pos h ch infos clusters i k j cl so b :
  content_pack_at file pos h ch infos clusters ->
  nth_error infos i = Some (N.of_nat k, N.of_nat j) ->
  nth_error clusters k = Some (cl, so) -> cl_comp cl = 0 -> nth_error (cl_blobs cl) j = Some b ->
  N.of_nat j < 2 ^ 12 -> N.of_nat k < 2 ^ 20 ->
  exists off, run_n (lenN file) file (pbind (cp_open_p pos) (fun p => cp_read_p p (N.of_nat i))) =
              Ok (Some (N.of_nat k, N.of_nat j, CRaw off (lenN b), Some b)).
Proof.
  intros P Hi Hk Hc Hb Bj Bk.
  destruct (read_raw_content file pos h ch infos clusters P i k j cl so b Hi Hk Hc Hb Bj Bk) as (off & R).
  exists off. rewrite run_n_run, run_pbind, (open_ok file pos h ch infos clusters P). exact R.
Qed.

(* the pack is inside the file at hand *)
Theorem embedded_content_reads_back pos size h ch infos clusters i k j cl so b :
  find_uuid (pi_uuid info) (ct_packs c) = Some (pos, size) ->
  content_pack_at (ct_main c) pos h ch infos clusters ->
  nth_error infos i = Some (N.of_nat k, N.of_nat j) ->
  nth_error clusters k = Some (cl, so) -> cl_comp cl = 0 -> nth_error (cl_blobs cl) j = Some b ->
  N.of_nat j < 2 ^ 12 -> N.of_nat k < 2 ^ 20 ->
  exists off, get_content c fs pack_id (N.of_nat i) = Ok (CFound (N.of_nat k) (N.of_nat j) (CRaw off (lenN b)) (Some b)).
Proof.
  intros Hf P Hi Hk Hc Hb Bj Bk.
  destruct (read_in_file (ct_main c) pos h ch infos clusters i k j cl so b P Hi Hk Hc Hb Bj Bk) as (off & R).
  exists off. unfold get_content. rewrite Listed, (locate_inside_first _ _ fs _ (pi_loc info) pos size Hf), R. reflexivity.
Qed.

(* the pack is in a sibling file at its recorded location (the file is the pack itself or a container holding it) *)
Theorem sibling_content_reads_back file ps pos size h ch infos clusters i k j cl so b :
  find_uuid (pi_uuid info) (ct_packs c) = None ->
  fs_find (pi_loc info) fs = Some file -> open_as_container file = Ok ps ->
  find_uuid (pi_uuid info) ps = Some (pos, size) ->
  content_pack_at file pos h ch infos clusters ->
  nth_error infos i = Some (N.of_nat k, N.of_nat j) ->
  nth_error clusters k = Some (cl, so) -> cl_comp cl = 0 -> nth_error (cl_blobs cl) j = Some b ->
  N.of_nat j < 2 ^ 12 -> N.of_nat k < 2 ^ 20 ->
  exists off, get_content c fs pack_id (N.of_nat i) = Ok (CFound (N.of_nat k) (N.of_nat j) (CRaw off (lenN b)) (Some b)).
Proof.
  intros Hn Hfs Ho Hf P Hi Hk Hc Hb Bj Bk.
  destruct (read_in_file file pos h ch infos clusters i k j cl so b P Hi Hk Hc Hb Bj Bk) as (off & R).
  exists off. unfold get_content, locate. rewrite Listed, Hn, Hfs, Ho, Hf, R. reflexivity.
Qed.

(* C01 through the container: for EVERY insertion sequence, the content inserted as number i with "do not compress" is
   what Container::get_bytes returns for the address the creator handed out, when the pack the creator's bookkeeping
   describes is embedded in the file at hand *)
Theorem inserted_content_reads_back_through_the_container
  (ops : list (list N * bool)) pos size h ch clusters i x :
  let s := fold_left (add (list N) lenN) ops (init (list N)) in
  find_uuid (pi_uuid info) (ct_packs c) = Some (pos, size) ->
  content_pack_at (ct_main c) pos h ch (map info_of (infos (list N) s)) clusters ->
  Forall2 cluster_matches (cs (list N) s) clusters ->
  N.of_nat (length (cs (list N) s)) <= 2 ^ 20 ->
  nth_error ops i = Some (x, false) ->
  exists k j off, get_content c fs pack_id (N.of_nat i) = Ok (CFound k j (CRaw off (lenN x)) (Some x)).
Proof.
  intros s Hf P F2 Lim Hop.
  destruct (stored_content_reads_back ops (ct_main c) pos h ch clusters i x P F2 Lim Hop) as (k & j & off & p & Ho & Hr).
  exists k, j, off. unfold get_content.
  rewrite Listed, (locate_inside_first _ _ fs _ (pi_loc info) pos size Hf).
  rewrite run_n_run, run_pbind, Ho, Hr. reflexivity.
Qed.
End Through.
Close Scope N_scope.
