(* C05 — damaged metadata is reported, never silently decoded.
   (1) reader_monotone: a reader written against CRC-checked block reads returns, on a file whose
       blocks each read the same or fail, the pristine answer or an error;
   (2) burst damage (an alteration confined to 4 consecutive bytes, anywhere, in any file) makes every
       block it touches fail its check, so (1) applies: all single-byte damage, at every position,
       for every container, is either invisible to a structure query or reported. *)
From Coq Require Import List Arith NArith Bool Lia.
From Jbk Require Import Base.ListExtra Base.Bytes Base.Crc Base.Parser Base.Prog Manifest.SetLocationProofs.
Import ListNotations.

(* structure queries read only through checked blocks *)
Fixpoint structural {A} (p : prog A) : Prop :=
  match p with
  | Ret _ | Fail _ => True
  | RdBlock _ _ k => forall d, structural (k d)
  | RdRaw _ _ _ => False
  | Len _ => False
  end.

Definition blocks_same_or_err (f f' : list N) : Prop :=
  forall off size d, read_block f off size = Ok d ->
    read_block f' off size = Ok d \/ exists e, read_block f' off size = Err e.

Theorem reader_monotone {A} (p : prog A) f f' a :
  structural p -> blocks_same_or_err f f' -> run f p = Ok a ->
  run f' p = Ok a \/ exists e, run f' p = Err e.
Proof.
  intros S B. revert S. induction p as [x|e|off size k IH|off size k IH|k IH]; cbn [structural run]; intros S H.
  - left. exact H.
  - discriminate.
  - destruct (read_block f off size) as [d|e] eqn:R; [|discriminate].
    destruct (B off size d R) as [E|[e E]]; rewrite E.
    + apply IH; [apply S|exact H].
    + right. now exists e.
  - destruct S.
  - destruct S.
Qed.

(* ---- burst damage ---- *)
Lemma sub_app_general {A} (a b : list A) o n :
  sub o n (a ++ b) = sub o n a ++ sub (o - length a) (n - (length a - o)) b.
Proof.
  unfold sub. rewrite skipn_app, firstn_app, skipn_length. reflexivity.
Qed.
Lemma sub_repeat {A} (z : A) k o n : sub o n (repeat z k) = repeat z (Nat.min n (k - o)).
Proof.
  unfold sub.
  assert (S : forall o k, skipn o (repeat z k) = repeat z (k - o)).
  { induction o0 as [|o0 IH]; intros k0; [now rewrite Nat.sub_0_r|]. destruct k0; [reflexivity|]. cbn [repeat skipn]. apply IH. }
  rewrite S. generalize (k - o) as m. intros m. revert n.
  induction m as [|m IH]; intros [|n]; cbn [repeat firstn Nat.min]; try reflexivity. now rewrite IH.
Qed.

Lemma bxor_zeros (l : list N) n : length l = n -> bxor l (repeat 0%N n) = l.
Proof.
  revert n; induction l as [|x l IH]; intros [|n] H; cbn in H; try lia; [reflexivity|].
  cbn [repeat bxor]. rewrite N.lxor_0_r, IH by lia. reflexivity.
Qed.
Lemma sub_bxor a : forall b o n, length a = length b -> sub o n (bxor a b) = bxor (sub o n a) (sub o n b).
Proof.
  assert (F : forall a b n, firstn n (bxor a b) = bxor (firstn n a) (firstn n b)).
  { induction a0 as [|x a0 IH]; intros [|y b] [|n]; cbn [bxor firstn]; try reflexivity. now rewrite IH. }
  assert (S : forall a b o, length a = length b -> skipn o (bxor a b) = bxor (skipn o a) (skipn o b)).
  { induction a0 as [|x a0 IH]; intros [|y b] [|o] H; cbn in H; try lia; cbn [bxor skipn]; try reflexivity. apply IH. lia. }
  intros b o n H. unfold sub. now rewrite S, F.
Qed.

Definition all_zero (w : list N) : Prop := Forall (fun b => b = 0%N) w.
Lemma all_zero_dec (w : list N) : all_zero w \/ exists b, In b w /\ b <> 0%N.
Proof.
  induction w as [|x w [IH|[b [Hb Hn]]]].
  - left. constructor.
  - destruct (N.eq_dec x 0) as [->|Hx]; [left; now constructor|right; exists x; split; [now left|exact Hx]].
  - right. exists b. split; [now right|exact Hn].
Qed.
Lemma all_zero_repeat w : all_zero w -> w = repeat 0%N (length w).
Proof. induction 1 as [|x w Hx Hw IH]; [reflexivity|]. cbn [length repeat]. now rewrite Hx, <- IH. Qed.

(* an alteration of at most 4 consecutive bytes, anywhere in the file *)
Definition burst4 (f f' : list N) : Prop :=
  exists pre w post, length w <= 4 /\ wf_bytes w /\ length f = pre + length w + post /\
                     f' = bxor f (repeat 0%N pre ++ w ++ repeat 0%N post).

Theorem burst4_blocks f f' : burst4 f f' -> blocks_same_or_err f f'.
Proof.
  intros (pre & w & post & Hw & Ww & Hl & ->) off size d R.
  set (dm := repeat 0%N pre ++ w ++ repeat 0%N post) in *.
  assert (Ld : length dm = length f) by (subst dm; rewrite !app_length, !repeat_length; lia).
  unfold read_block in *. unfold lenN in *. rewrite bxor_length by lia.
  destruct (N.leb_spec (off + size + 4) (N.of_nat (length f))) as [L|L]; [|discriminate].
  set (o := N.to_nat off) in *. set (n := N.to_nat (size + 4)) in *.
  unfold subN in *. fold o n in R |- *.
  rewrite sub_bxor by lia.
  destruct (check_block (sub o n f)) eqn:C; [|discriminate]. injection R as <-.
  (* the part of the alteration that falls into the block *)
  subst dm. rewrite !sub_app_general, !sub_repeat, !repeat_length.
  set (k1 := Nat.min n (pre - o)).
  set (w' := sub (o - pre) (n - (pre - o)) w).
  set (k2 := Nat.min (n - (pre - o) - (length w - (o - pre))) (post - (o - pre - length w))).
  assert (Lb : length (sub o n f) = n) by (apply sub_length; subst o n; lia).
  assert (Lw : length w' <= 4) by (subst w'; unfold sub; rewrite firstn_length, skipn_length; lia).
  assert (Ltot : n = k1 + length w' + k2).
  { pose proof (f_equal (@length N) (eq_refl (sub o n (repeat 0%N pre ++ w ++ repeat 0%N post)))) as E.
    rewrite sub_length in E at 1 by (rewrite !app_length, !repeat_length; subst o n; lia).
    rewrite !sub_app_general, !sub_repeat, !app_length, !repeat_length in E. subst k1 w' k2. lia. }
  destruct (all_zero_dec w') as [Z|NZ].
  - left. rewrite (all_zero_repeat w' Z). rewrite <- !repeat_app.
    rewrite bxor_zeros by (rewrite Lb; lia). rewrite C. reflexivity.
  - right. exists ECorrupt.
    rewrite (check_block_4bytes (sub o n f) k1 w' k2); try assumption; try reflexivity.
    + rewrite Lb. subst n. lia.
    + subst w'. now apply wf_bytes_sub.
    + rewrite Lb. exact Ltot.
Qed.

(* all single-byte damage (and any damage within 4 consecutive bytes), at every position, for every
   file and every structure query: same answer or an error *)
Theorem burst4_detected {A} (p : prog A) f f' a :
  structural p -> burst4 f f' -> run f p = Ok a ->
  run f' p = Ok a \/ exists e, run f' p = Err e.
Proof. intros S B. apply reader_monotone; [exact S|now apply burst4_blocks]. Qed.

(* the FULL statement ("any alteration") is false of a 32-bit CRC: the kernel pattern changes a
   block without failing its check (known finding K1) *)
Theorem any_alteration_refuted :
  exists (f f' : list N) (off size : N) d d',
    length f' = length f /\ read_block f off size = Ok d /\ read_block f' off size = Ok d' /\ d' <> d.
Proof.
  exists (mk_block [0;0;0;0;0]%N), (bxor (mk_block [0;0;0;0;0]%N) (kernel_pattern ++ repeat 0%N 4)), 0%N, 5%N.
  eexists. eexists. split; [reflexivity|]. split; [vm_compute; reflexivity|]. split; [vm_compute; reflexivity|].
  discriminate.
Qed.

(* ---- truncation and extension (C06 / C05) ---- *)
Lemma sub_firstn_inside {A} (l : list A) k o n : o + n <= k -> sub o n (firstn k l) = sub o n l.
Proof.
  intros H. unfold sub. rewrite skipn_firstn_comm, firstn_firstn. f_equal. lia.
Qed.

(* a truncated file: every block that still reads reads the same; the others fail *)
Theorem truncation_blocks (f : list N) k : blocks_same_or_err f (firstn k f).
Proof.
  intros off size d R. unfold read_block in *. unfold lenN in *.
  destruct (N.leb_spec (off + size + 4) (N.of_nat (length f))) as [L|L]; [|discriminate].
  rewrite firstn_length.
  destruct (N.leb_spec (off + size + 4) (N.of_nat (Nat.min k (length f)))) as [L'|L'].
  - left. unfold subN in *. rewrite sub_firstn_inside by lia. exact R.
  - right. now exists EOob.
Qed.
Theorem truncation_detected {A} (p : prog A) f k a :
  structural p -> run f p = Ok a -> run (firstn k f) p = Ok a \/ exists e, run (firstn k f) p = Err e.
Proof. intros S. apply reader_monotone; [exact S|apply truncation_blocks]. Qed.

(* appended garbage is invisible to structure queries *)
Theorem extension_blocks (f g : list N) : blocks_same_or_err f (f ++ g).
Proof.
  intros off size d R. left. unfold read_block in *. unfold lenN in *. rewrite app_length.
  destruct (N.leb_spec (off + size + 4) (N.of_nat (length f))) as [L|L]; [|discriminate].
  replace (off + size + 4 <=? N.of_nat (length f + length g))%N with true by (symmetry; apply N.leb_le; lia).
  unfold subN in *. rewrite sub_app_l by lia. exact R.
Qed.
Theorem extension_invisible {A} (p : prog A) f g a :
  structural p -> run f p = Ok a -> run (f ++ g) p = Ok a.
Proof.
  intros S R. destruct (reader_monotone p f (f ++ g) a S (extension_blocks f g) R) as [E|[e E]]; [exact E|].
  (* no block read can fail: show it directly *)
  exfalso. revert S R E. induction p as [x|e0|off size k IH|off size k IH|k IH]; cbn [structural run]; intros S R E; try discriminate; try tauto.
  destruct (read_block f off size) as [d|e1] eqn:R1; [|discriminate].
  destruct (extension_blocks f g off size d R1) as [E1|[e1 E1]]; rewrite E1 in E; [|].
  - eapply IH; [apply S|exact R|exact E].
  - pose proof (extension_blocks f g off size d R1) as [E2|[e2 E2]]; [congruence|].
    unfold read_block, lenN in R1, E2. rewrite app_length in E2.
    destruct (N.leb_spec (off + size + 4) (N.of_nat (length f))) as [L|L]; [|discriminate].
    replace (off + size + 4 <=? N.of_nat (length f + length g))%N with true in E2 by (symmetry; apply N.leb_le; lia).
    unfold subN in *. rewrite sub_app_l in E2 by lia. congruence.
Qed.

(* every byte a successful block read returns lies inside the file: the model never reads out of bounds *)
Theorem reads_in_bounds f off size d : read_block f off size = Ok d -> (off + size + 4 <= lenN f)%N /\ length d = N.to_nat size.
Proof.
  unfold read_block. destruct (N.leb_spec (off + size + 4) (lenN f)) as [L|L]; [|discriminate].
  destruct (check_block _); [|discriminate]. intros E. injection E as <-. split; [exact L|].
  rewrite firstn_length. unfold subN. rewrite sub_length; unfold lenN in L; lia.
Qed.
