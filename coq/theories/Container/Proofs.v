(* Theorems about the container-level lookup (C10, C11): packs are found by identity (uuid), first
   inside the file at hand, then in the located file; a pack that is nowhere is reported missing. *)
From Coq Require Import List Arith NArith Bool Lia.
From Jbk Require Import Base.ListExtra Base.Bytes Base.Crc Base.Parser Base.Prog Format.Structs
  Manifest.SetLocation Content.Pack Dir.Layout Dir.DirModel Container.Reader.
Import ListNotations.

Lemma list_eqb_refl (l : list N) : list_eqb l l = true.
Proof.
  unfold list_eqb. rewrite Nat.eqb_refl. cbn [andb].
  induction l as [|x l IH]; [reflexivity|]. cbn [combine forallb fst snd]. now rewrite N.eqb_refl, IH.
Qed.
Lemma list_eqb_eq (a b : list N) : list_eqb a b = true -> a = b.
Proof.
  unfold list_eqb. intros H. apply andb_prop in H. destruct H as [HL HF]. apply Nat.eqb_eq in HL.
  revert b HL HF. induction a as [|x a IH]; intros [|y b] HL HF; cbn in HL; try lia; [reflexivity|].
  cbn [combine forallb fst snd] in HF. apply andb_prop in HF. destruct HF as [H1 H2].
  apply N.eqb_eq in H1. subst. f_equal. apply IH; [lia|assumption].
Qed.

(* what find_uuid returns is a pack with that identity *)
Lemma find_uuid_sound uuid packs r : find_uuid uuid packs = Some r -> In (uuid, r) packs.
Proof.
  induction packs as [|[u r'] packs IH]; cbn [find_uuid]; [discriminate|].
  destruct (list_eqb u uuid) eqn:E.
  - intros H. injection H as <-. apply list_eqb_eq in E. subst. now left.
  - intros H. right. now apply IH.
Qed.
Lemma find_uuid_complete uuid packs : (exists r, In (uuid, r) packs) -> find_uuid uuid packs <> None.
Proof.
  intros [r H]. induction packs as [|[u r'] packs IH]; [destruct H|].
  cbn [find_uuid]. destruct (list_eqb u uuid) eqn:E; [discriminate|].
  destruct H as [H|H]; [injection H as -> ->; now rewrite list_eqb_refl in E|now apply IH].
Qed.
Lemma find_uuid_none uuid packs : find_uuid uuid packs = None -> forall r, ~ In (uuid, r) packs.
Proof.
  intros H r Hin. apply (find_uuid_complete uuid packs); [now exists r|exact H].
Qed.

(* C10: a pack present inside the file at hand is taken from there, whatever its recorded location
   says and whatever lies in the file system *)
Theorem locate_inside_first main packs fs uuid loc pos size :
  find_uuid uuid packs = Some (pos, size) ->
  locate main packs fs uuid loc = Ok (LFound main pos size).
Proof. intros H. unfold locate. now rewrite H. Qed.

(* C11: a pack that is neither inside the file at hand nor (by identity) inside the file at its
   recorded location is reported missing — in particular when another valid pack sits there *)
Theorem locate_missing_when_absent main packs fs uuid loc :
  find_uuid uuid packs = None ->
  (fs_find loc fs = None \/
   exists file ps, fs_find loc fs = Some file /\ open_as_container file = Ok ps /\ find_uuid uuid ps = None) ->
  locate main packs fs uuid loc = Ok LMissing.
Proof.
  intros H [E|(file & ps & E1 & E2 & E3)]; unfold locate; rewrite H.
  - now rewrite E.
  - now rewrite E1, E2, E3.
Qed.

(* C11: what is found carries the requested identity *)
Theorem locate_found_has_identity main packs fs uuid loc file pos size :
  locate main packs fs uuid loc = Ok (LFound file pos size) ->
  (file = main /\ In (uuid, (pos, size)) packs) \/
  (exists ps, fs_find loc fs = Some file /\ open_as_container file = Ok ps /\ In (uuid, (pos, size)) ps).
Proof.
  unfold locate. destruct (find_uuid uuid packs) as [[p s]|] eqn:F.
  - intros E. injection E as <- <- <-. left. split; [reflexivity|now apply find_uuid_sound].
  - destruct (fs_find loc fs) as [f|] eqn:Ff; [|discriminate].
    destruct (open_as_container f) as [ps|e] eqn:O; [|discriminate].
    destruct (find_uuid uuid ps) as [[p s]|] eqn:F2; [|discriminate].
    intros E. injection E as <- <- <-. right. exists ps. repeat split; try assumption. now apply find_uuid_sound.
Qed.

(* C11: a content held in an unavailable pack is reported missing together with the pack's
   description; contents of available packs are unaffected by what happens to other packs' files *)
Theorem get_content_missing c fs pack_id content_id info :
  find (fun p => N.eqb (pi_id p) pack_id) (mf_packs (ct_manifest c)) = Some info ->
  locate (ct_main c) (ct_packs c) fs (pi_uuid info) (pi_loc info) = Ok LMissing ->
  get_content c fs pack_id content_id = Ok (CMissing info).
Proof. intros H L. unfold get_content. now rewrite H, L. Qed.

Theorem get_content_independent_of_other_files c fs fs' pack_id content_id info :
  find (fun p => N.eqb (pi_id p) pack_id) (mf_packs (ct_manifest c)) = Some info ->
  locate (ct_main c) (ct_packs c) fs' (pi_uuid info) (pi_loc info) = locate (ct_main c) (ct_packs c) fs (pi_uuid info) (pi_loc info) ->
  get_content c fs' pack_id content_id = get_content c fs pack_id content_id.
Proof. intros H L. unfold get_content. now rewrite H, L. Qed.
