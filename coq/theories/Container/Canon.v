(* C14 — the bytes of a file are in canonical form: every structure block re-serialises, with the
   model's serialiser, to exactly the bytes it was parsed from; every pack ends with its header block
   mirrored.  The serialisers are the ones whose round trips are proved (Format/Roundtrips.v), so a
   file that passes is, structure by structure, in the image of the specified layout.  Executable;
   run by the check on every container the real creator writes and on the reference corpus. *)
From Coq Require Import List Arith NArith Bool Lia.
From Jbk Require Import Base.ListExtra Base.Bytes Base.Crc Base.Parser Base.Prog Format.Structs
  Manifest.SetLocation Content.Pack Dir.Layout Dir.Descr Format.Roundtrips Container.Reader Container.Proofs.
Import ListNotations.
Open Scope N_scope.

Definition canon_block {A} (p : parser A) (ser : A -> list N) (b : list N) : bool :=
  match parse_all p b with Ok a => list_eqb (ser a) b | Err _ => false end.

Theorem canon_block_spec {A} (p : parser A) (ser : A -> list N) b :
  canon_block p ser b = true -> exists a, parse_all p b = Ok a /\ ser a = b.
Proof.
  unfold canon_block. destruct (parse_all p b) as [a|e]; [|discriminate].
  intros H. exists a. split; [reflexivity|]. now apply list_eqb_eq.
Qed.

(* the lengths of the blobs of a cluster from its offsets *)
Fixpoint diffs (l : list N) : list N :=
  match l with a :: (b :: _) as r => (b - a) :: diffs r | _ => [] end.
Definition ser_tail_of (t : tail) : list N := ser_tail (t_comp t) (t_raw t) (diffs (t_offs t)).

(* one report line: (structure code, absolute position, canonical?) ;
   codes: 1 pack header, 2 mirrored tail, 3 container header, 4 pack locator, 5 manifest header, 6 pack info,
   7 content pack header, 8 cluster tail, 9 directory pack header, 10 index header *)
Definition chk {A} (f : list N) (n : N) (code : N) (p : parser A) (ser : A -> list N) (pos size : N) : N * N * bool :=
  (code, pos, match read_block_n n f pos size with Ok b => canon_block p ser b | Err _ => false end).

Definition canon_pack (f : list N) (n : N) (pos size : N) : list (N * N * bool) :=
  let hd := chk f n 1 p_pack_header ser_pack_header pos 60 in
  let mirror := (2, pos + size - 64, list_eqb (subN (pos + size - 64) 64 f) (rev (subN pos 64 f))) in
  match run_n n f (read_header_p pos) with
  | Err _ => [hd; mirror]
  | Ok h =>
      [hd; mirror] ++
      match ph_kind h with
      | Structs.KContainer =>
          chk f n 3 p_container_header ser_container_header (pos + 64) 60 ::
          match run_n n f (RdBlock (pos + 64) 60 (fun b => lift (parse_all p_container_header b))) with
          | Ok ch => map (fun i => chk f n 4 p_pack_locator ser_pack_locator (pos + ch_locators_pos ch + 36 * i) 32)
                         (DirModel.nseq 0 (N.to_nat (N.min (ch_count ch) 4096)))
          | Err _ => []
          end
      | Structs.KManifest =>
          chk f n 5 p_manifest_header ser_manifest_header (pos + 64) 60 ::
          match run_n n f (RdBlock (pos + 64) 60 (fun b => lift (parse_all p_manifest_header b))) with
          | Ok mh => map (fun i => chk f n 6 p_pack_info ser_pack_info (pos + (ph_check_pos h - mh_count mh * 256) + 256 * i) 252)
                         (DirModel.nseq 0 (N.to_nat (N.min (mh_count mh) 4096)))
          | Err _ => []
          end
      | Structs.KContent =>
          chk f n 7 p_cp_header ser_cp_header (pos + 64) 60 ::
          match run_n n f (cp_open_p pos) with
          | Ok cp =>
              map (fun i =>
                     match p_sized_offset (subN (8 * i) 8 (cpk_ptrs cp)) with
                     | Ok (so, _) => chk f n 8 p_tail ser_tail_of (pos + so_off so) (so_size so)
                     | Err _ => (8, i, false)
                     end) (DirModel.nseq 0 (N.to_nat (N.min (cp_cluster_count (cpk_cp cp)) 4096)))
          | Err _ => []
          end
      | Structs.KDirectory =>
          chk f n 9 p_dir_header ser_dir_header (pos + 64) 60 ::
          match run_n n f (dp_open_p pos) with
          | Ok d =>
              map (fun i =>
                     match p_sized_offset (subN (8 * i) 8 (dp_iptrs d)) with
                     | Ok (so, _) => chk f n 10 p_index_header ser_index_header (pos + so_off so) (so_size so)
                     | Err _ => (10, i, false)
                     end) (DirModel.nseq 0 (N.to_nat (N.min (dh_index_count (dp_dh d)) 4096)))
          | Err _ => []
          end
      end
  end.

(* every pack reachable from a file by the blind open (a container pack itself, then the packs it lists) *)
Definition canon_file (f : list N) : res (list (N * N * bool)) :=
  let n := lenN f in
  match open_as_container f with
  | Err e => Err e
  | Ok packs =>
      let outer :=
        match run_n n f (read_header_p 0) with
        | Ok h => if kind_eqb (ph_kind h) Structs.KContainer then canon_pack f n 0 (ph_size h) else []
        | Err _ => []
        end in
      Ok (outer ++ flat_map (fun p : pack_ref => canon_pack f n (fst (snd p)) (snd (snd p))) packs)
  end.
Close Scope N_scope.

(* ---- entry-store tails: the property descriptors ---- *)
Open Scope N_scope.
(* the serialisation of a descriptor as the reader model understands it (inverse of Layout.p_rawprop) *)
Definition ser_rawprop (p : rawprop) : option (list N) :=
  let name := N.of_nat (length (rp_name p)) :: rp_name p in
  match rp_kind p with
  | KPadding => if (rp_size p =? 0)%nat then None else Some [N.of_nat (rp_size p) - 1]
  | Layout.KContent ps cs None => Some ((16 + (N.of_nat cs - 1) + (if (ps =? 2)%nat then 4 else 0)) :: name)
  | Layout.KContent ps cs (Some d) => Some ((16 + 8 + (N.of_nat cs - 1) + (if (ps =? 2)%nat then 4 else 0)) :: le_enc ps d ++ name)
  | KUInt sz None => Some ((32 + (N.of_nat sz - 1)) :: name)
  | KUInt sz (Some d) => Some ((32 + 8 + (N.of_nat sz - 1)) :: le_enc sz d ++ name)
  | KSInt sz None => Some ((48 + (N.of_nat sz - 1)) :: name)
  | KSInt sz (Some d) => Some ((48 + 8 + (N.of_nat sz - 1)) :: le_enc sz (strunc sz d) ++ name)
  | KArray ls fixed dep dflt =>
      let lsn := match ls with Some n => N.of_nat n | None => 0 end in
      let ks := match dep with Some (k, _) => k | None => 0%nat end in
      let depb := match dep with Some (_, si) => [si] | None => [] end in
      match dflt with
      | None => Some ((80 + lsn) :: (32 * N.of_nat ks + N.of_nat fixed) :: depb ++ name)
      | Some (sz, base, kid) =>
          match ls with
          | None => None
          | Some n => Some ((80 + 8 + lsn) :: (32 * N.of_nat ks + N.of_nat fixed) :: depb ++ le_enc n sz ++ base ++
                            (match kid with Some k => le_enc ks k | None => [] end) ++ name)
          end
      end
  | KVariantId => Some (128 :: name)
  end.

Fixpoint ser_rawprops (ps : list rawprop) : option (list N) :=
  match ps with
  | [] => Some []
  | p :: ps => match ser_rawprop p, ser_rawprops ps with Some a, Some b => Some (a ++ b) | _, _ => None end
  end.

(* the tail of an entry store: 9 bytes of fixed fields, then [pcount] descriptors *)
Definition canon_layout_tail (b : list N) : bool :=
  match (fun l => '(kind, l) <- p_u 1 l ;; '(count, l) <- p_u 4 l ;; '(flag, l) <- p_u 1 l ;; '(esize, l) <- p_u 2 l ;;
                  '(vcount, l) <- p_u 1 l ;; '(pcount, l) <- p_u 1 l ;;
                  '(raw, l) <- p_many (N.to_nat pcount) p_rawprop l ;; Ok (raw, l)) b with
  | Ok (raw, []) =>
      match ser_rawprops raw with
      | Some d => list_eqb (firstn 10 b ++ d) b
      | None => false
      end
  | _ => false
  end.

(* code 11: entry store tail (layout descriptors) of every entry store of a directory pack *)
Definition canon_dir_layouts (f : list N) (n : N) (pos : N) : list (N * N * bool) :=
  match run_n n f (dp_open_p pos) with
  | Ok d =>
      map (fun i =>
             match p_sized_offset (subN (8 * i) 8 (dp_eptrs d)) with
             | Ok (so, _) => (11, pos + so_off so,
                              match read_block_n n f (pos + so_off so) (so_size so) with Ok b => canon_layout_tail b | Err _ => false end)
             | Err _ => (11, i, false)
             end) (DirModel.nseq 0 (N.to_nat (N.min (dh_entry_count (dp_dh d)) 4096)))
  | Err _ => []
  end.

Definition canon_file_full (f : list N) : res (list (N * N * bool)) :=
  match canon_file f, open_as_container f with
  | Ok rs, Ok packs =>
      let n := lenN f in
      Ok (rs ++ flat_map (fun p : pack_ref =>
                            match run_n n f (read_header_p (fst (snd p))) with
                            | Ok h => if kind_eqb (ph_kind h) Structs.KDirectory then canon_dir_layouts f n (fst (snd p)) else []
                            | Err _ => []
                            end) packs)
  | Err e, _ => Err e
  | _, Err e => Err e
  end.
Close Scope N_scope.
