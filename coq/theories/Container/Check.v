(* C04 — created packs verify; altering checksummed bytes makes the check fail.
   Pack::check for content and directory packs (reader/content_pack/mod.rs, directory_pack/mod.rs):
   CheckInfo block at check_info_pos, blake3 over [0, check_info_pos) of the pack.  The hash is a
   parameter H; collision-freeness is NOT assumed: the theorem says a passing check on altered
   covered bytes exhibits a collision of H.  (The manifest hashes a masked view: Manifest/*.) *)
From Coq Require Import List Arith NArith Bool Lia.
From Jbk Require Import Base.ListExtra Base.Bytes Base.Crc Base.Parser Base.Prog Format.Structs
  Manifest.SetLocation Container.Proofs Container.Damage.
Import ListNotations.
Open Scope N_scope.

Section Check.
Variable H : list N -> list N.

Definition check_info_p (pos : N) (h : pack_header) : prog (option (list N)) :=
  RdBlock (pos + ph_check_pos h) (ph_check_size h) (fun b =>
    match b with
    | [] => Fail EFormat
    | k :: rest =>
        if k =? 0 then Ret None
        else if k =? 1 then (if (length rest <? 32)%nat then Fail EFormat else Ret (Some (firstn 32 rest)))
        else Fail EFormat
    end).

Definition pack_check (f : list N) (pos : N) : res bool :=
  match run f (read_header_p pos) with
  | Err e => Err e
  | Ok h =>
      match run f (check_info_p pos h) with
      | Err e => Err e
      | Ok None => Ok true
      | Ok (Some hash) =>
          match read_raw f pos (ph_check_pos h) with
          | Err e => Err e
          | Ok v => Ok (list_eqb (H v) hash)
          end
      end
  end.

(* A pack whose check block holds the hash of the bytes before it verifies. *)
Theorem created_pack_checks pre body post h :
  let f := pre ++ body ++ mk_block (1 :: H body) ++ post in
  run f (read_header_p (lenN pre)) = Ok h ->
  ph_check_pos h = lenN body -> ph_check_size h = 33 -> length (H body) = 32%nat ->
  pack_check f (lenN pre) = Ok true.
Proof.
  intros f Hh Hcp Hcs HL. unfold pack_check. rewrite Hh.
  assert (R : read_block f (lenN pre + lenN body) 33 = Ok (1 :: H body)).
  { subst f. pose proof (read_block_placed (pre ++ body) (1 :: H body) post) as P.
    unfold lenN in *. rewrite app_length in P. cbn [length] in P. rewrite HL in P.
    rewrite <- app_assoc in P. rewrite Nat2N.inj_add in P. exact P. }
  unfold check_info_p. cbn [run]. rewrite Hcp, Hcs, R.
  cbn [N.eqb Pos.eqb run]. rewrite HL. cbn [Nat.ltb Nat.leb run].
  replace (firstn 32 (H body)) with (H body) by (symmetry; apply firstn_all2; lia).
  unfold read_raw. subst f. unfold lenN. rewrite !app_length.
  replace (N.of_nat (length pre) + N.of_nat (length body) <=? N.of_nat (length pre + (length body + (length (mk_block (1 :: H body)) + length post))))
    with true by (symmetry; apply N.leb_le; lia).
  unfold subN. rewrite !Nat2N.id, sub_concat. now rewrite list_eqb_refl.
Qed.

(* If the bytes covered by the checksum are altered while header and check block read the same, a
   check that still passes exhibits a collision of the hash function. *)
Theorem passing_check_on_altered_is_collision f f' pos h :
  run f (read_header_p pos) = Ok h -> run f' (read_header_p pos) = Ok h ->
  run f' (check_info_p pos h) = run f (check_info_p pos h) ->
  pack_check f pos = Ok true -> pack_check f' pos = Ok true ->
  forall v v', read_raw f pos (ph_check_pos h) = Ok v -> read_raw f' pos (ph_check_pos h) = Ok v' ->
  run f (check_info_p pos h) <> Ok None ->
  H v' = H v.
Proof.
  intros Hh Hh' Hci C C' v v' Rv Rv' Hk. unfold pack_check in *. rewrite Hh in C. rewrite Hh', Hci in C'.
  destruct (run f (check_info_p pos h)) as [[hash|]|e]; try discriminate; [|exfalso; now apply Hk].
  rewrite Rv in C. rewrite Rv' in C'. injection C as C. injection C' as C'.
  apply list_eqb_eq in C, C'. congruence.
Qed.

(* hence, when the hash does not collide on these two inputs, the check of the altered pack does not pass *)
Corollary altered_covered_bytes_fail_check f f' pos h v v' :
  run f (read_header_p pos) = Ok h -> run f' (read_header_p pos) = Ok h ->
  run f' (check_info_p pos h) = run f (check_info_p pos h) ->
  run f (check_info_p pos h) <> Ok None ->
  pack_check f pos = Ok true ->
  read_raw f pos (ph_check_pos h) = Ok v -> read_raw f' pos (ph_check_pos h) = Ok v' ->
  v' <> v -> (H v' = H v -> v' = v) ->
  pack_check f' pos <> Ok true.
Proof.
  intros Hh Hh' Hci Hk C Rv Rv' Hne Hinj C'.
  apply Hne, Hinj. exact (passing_check_on_altered_is_collision f f' pos h Hh Hh' Hci C C' v v' Rv Rv' Hk).
Qed.

(* an alteration confined to 4 consecutive bytes that hits the header block or the check block is
   answered by an error (their CRC fails), never by a passing check on different data *)
Theorem burst_in_metadata_blocks f f' pos h ci :
  burst4 f f' -> run f (read_header_p pos) = Ok h -> run f (check_info_p pos h) = Ok ci ->
  (run f' (read_header_p pos) = Ok h \/ exists e, run f' (read_header_p pos) = Err e) /\
  (run f' (check_info_p pos h) = Ok ci \/ exists e, run f' (check_info_p pos h) = Err e).
Proof.
  intros B Hh Hci. split.
  - eapply burst4_detected; [|exact B|exact Hh]. unfold read_header_p. cbn [structural].
    intros d. destruct (parse_all p_pack_header d); exact I.
  - eapply burst4_detected; [|exact B|exact Hci]. unfold check_info_p. cbn [structural].
    intros d. destruct d as [|k rest]; [exact I|].
    destruct (k =? 0); [exact I|]. destruct (k =? 1); [|exact I]. destruct (length rest <? 32)%nat; exact I.
Qed.
End Check.

(* Container::check: the conjunction over the packs that are present *)
Fixpoint all_checks (rs : list (res bool)) : res bool :=
  match rs with
  | [] => Ok true
  | Err e :: _ => Err e
  | Ok false :: _ => Ok false
  | Ok true :: rs => all_checks rs
  end.
Theorem all_checks_true rs : all_checks rs = Ok true <-> Forall (fun r => r = Ok true) rs.
Proof.
  induction rs as [|[[|]|e] rs IH]; cbn [all_checks].
  - split; [constructor|reflexivity].
  - rewrite IH. split; [intros F; now constructor|intros F; now inversion F].
  - split; [discriminate|intros F; inversion F; discriminate].
  - split; [discriminate|intros F; inversion F; discriminate].
Qed.
Close Scope N_scope.
