(* C10 — translation invariance of the INNER pack readers.  Embed.v proves that reader programs are
   translation invariant in general and instantiates it for the blind open and the pack listing of a
   container.  Here every program that reads inside a pack (content pack: open, locate, read;
   directory pack: open, index, entry store, value store; manifest: open) is shown to be the shifted
   image of itself when the pack lies k bytes further: it reads the same blocks k bytes further and
   returns the same structure, with the positions it records moved by k.  So whatever precedes a
   container in a file — any bytes, any length — the packs inside it decode to the same content.

   The range checks of the hardened reader (data before a tail must fit inside the pack) are what
   makes the statement exact: without them a damaged pointer could make the model read before the
   pack start, and that position would not move with the pack. *)
From Coq Require Import List Arith NArith Bool Lia.
From Jbk Require Import Base.ListExtra Base.Bytes Base.Crc Base.Parser Base.Prog Format.Structs
  Manifest.SetLocation Container.Reader Container.Embed Content.Pack Dir.Layout Container.Check.
Import ListNotations.
Open Scope N_scope.

Lemma shifted_rdblock_lift {A} k off size (g : list N -> res A) :
  shifted k (fun x => x) (RdBlock off size (fun b => lift (g b))) (RdBlock (k + off) size (fun b => lift (g b))).
Proof. constructor. intros d. apply shifted_lift. Qed.
Lemma shifted_rdblock_ret k off size :
  shifted k (fun x => x) (RdBlock off size (fun b => Ret b)) (RdBlock (k + off) size (fun b => Ret b)).
Proof. constructor. intros d. apply shifted_ret_id. Qed.

(* ---- content pack ---- *)
Definition shift_cpack (k : N) (p : cpack) : cpack :=
  {| cpk_base := k + cpk_base p; cpk_header := cpk_header p; cpk_cp := cpk_cp p;
     cpk_infos := cpk_infos p; cpk_ptrs := cpk_ptrs p |}.

Lemma shifted_cp_open k base : shifted k (shift_cpack k) (cp_open_p base) (cp_open_p (k + base)).
Proof.
  unfold cp_open_p.
  eapply (shifted_pbind k (fun x => x)); [apply shifted_read_header|]. intros h.
  destruct (negb _); [constructor|].
  eapply (shifted_pbind k (fun x => x)).
  { replace (k + base + 64) with (k + (base + 64)) by lia. apply shifted_rdblock_lift. }
  intros ch. eapply (shifted_pbind k (fun x => x)).
  { replace (k + base + cp_content_pos ch) with (k + (base + cp_content_pos ch)) by lia. apply shifted_rdblock_ret. }
  intros infos. eapply (shifted_pbind k (fun x => x)).
  { replace (k + base + cp_cluster_pos ch) with (k + (base + cp_cluster_pos ch)) by lia. apply shifted_rdblock_ret. }
  intros ptrs. exact (sh_ret k (shift_cpack k) _).
Qed.

Definition shift_loc (k : N) (l : content_loc) : content_loc :=
  match l with
  | CRaw off len => CRaw (k + off) len
  | CComp algo poff plen dsize boff blen => CComp algo (k + poff) plen dsize boff blen
  end.
Definition shift_located (k : N) (r : option (N * N * content_loc)) : option (N * N * content_loc) :=
  match r with Some (c, b, l) => Some (c, b, shift_loc k l) | None => None end.

Lemma shifted_cp_locate k p i :
  shifted k (shift_located k) (cp_locate_p p i) (cp_locate_p (shift_cpack k p) i).
Proof.
  unfold cp_locate_p. cbn [shift_cpack cpk_base cpk_cp cpk_infos cpk_ptrs].
  destruct (N.leb _ _); [exact (sh_ret k (shift_located k) None)|].
  destruct (dec_content_info _) as [cidx bidx].
  destruct (N.leb _ _); [constructor|].
  eapply (shifted_pbind k (fun x => x)); [apply shifted_lift|]. intros [so r].
  eapply (shifted_pbind k (fun x => x)).
  { replace (k + cpk_base p + so_off so) with (k + (cpk_base p + so_off so)) by lia. apply shifted_rdblock_lift. }
  intros t.
  destruct (N.ltb_spec (so_off so) (t_raw t)) as [|Hfit]; [constructor|].
  destruct (Nat.leb _ _); [constructor|].
  destruct (N.ltb _ _); [constructor|].
  replace (k + cpk_base p + so_off so - t_raw t) with (k + (cpk_base p + so_off so - t_raw t)) by lia.
  destruct (N.eqb _ _).
  - replace (k + (cpk_base p + so_off so - t_raw t) + nth (N.to_nat bidx) (t_offs t) 0)
      with (k + (cpk_base p + so_off so - t_raw t + nth (N.to_nat bidx) (t_offs t) 0)) by lia.
    exact (sh_ret k (shift_located k) (Some (cidx, bidx, CRaw _ _))).
  - exact (sh_ret k (shift_located k) (Some (cidx, bidx, CComp _ _ _ _ _ _))).
Qed.

Definition shift_read (k : N) (r : option (N * N * content_loc * option (list N))) :=
  match r with Some (c, b, l, d) => Some (c, b, shift_loc k l, d) | None => None end.

Lemma shifted_cp_read k p i :
  shifted k (shift_read k) (cp_read_p p i) (cp_read_p (shift_cpack k p) i).
Proof.
  unfold cp_read_p.
  eapply (shifted_pbind k (shift_located k)); [apply shifted_cp_locate|]. intros [[[c b] l]|].
  - cbn [shift_located]. destruct l as [off len|algo poff plen dsize boff blen]; cbn [shift_loc].
    + eapply (shifted_pbind k (fun x => x)).
      * constructor. intros d. apply shifted_ret_id.
      * intros d. exact (sh_ret k (shift_read k) (Some (c, b, CRaw off len, Some d))).
    + exact (sh_ret k (shift_read k) (Some (c, b, CComp algo poff plen dsize boff blen, None))).
  - exact (sh_ret k (shift_read k) None).
Qed.

(* the whole path: open the pack where it now lies, read content i *)
Theorem content_read_is_translation_invariant X f base i :
  run (X ++ f) (pbind (cp_open_p (lenN X + base)) (fun p => cp_read_p p i)) =
  res_map (shift_read (lenN X)) (run f (pbind (cp_open_p base) (fun p => cp_read_p p i))).
Proof.
  apply run_shifted. eapply shifted_pbind; [apply shifted_cp_open|]. intros p. apply shifted_cp_read.
Qed.

(* in particular the bytes of a content stored verbatim are the same bytes *)
Corollary embedded_content_reads_the_same_bytes X f base i c b off len d :
  run f (pbind (cp_open_p base) (fun p => cp_read_p p i)) = Ok (Some (c, b, CRaw off len, Some d)) ->
  run (X ++ f) (pbind (cp_open_p (lenN X + base)) (fun p => cp_read_p p i)) = Ok (Some (c, b, CRaw (lenN X + off) len, Some d)).
Proof. intros H. rewrite content_read_is_translation_invariant, H. reflexivity. Qed.

(* ---- directory pack ---- *)
Definition shift_dpack (k : N) (d : dpack) : dpack :=
  {| dp_base := k + dp_base d; dp_header := dp_header d; dp_dh := dp_dh d;
     dp_vptrs := dp_vptrs d; dp_eptrs := dp_eptrs d; dp_iptrs := dp_iptrs d |}.

Lemma shifted_dp_open k base : shifted k (shift_dpack k) (dp_open_p base) (dp_open_p (k + base)).
Proof.
  unfold dp_open_p.
  eapply (shifted_pbind k (fun x => x)); [apply shifted_read_header|]. intros h.
  destruct (negb _); [constructor|].
  eapply (shifted_pbind k (fun x => x)).
  { replace (k + base + 64) with (k + (base + 64)) by lia. apply shifted_rdblock_lift. }
  intros dh. eapply (shifted_pbind k (fun x => x)).
  { replace (k + base + dh_value_pos dh) with (k + (base + dh_value_pos dh)) by lia. apply shifted_rdblock_ret. }
  intros vp. eapply (shifted_pbind k (fun x => x)).
  { replace (k + base + dh_entry_pos dh) with (k + (base + dh_entry_pos dh)) by lia. apply shifted_rdblock_ret. }
  intros ep. eapply (shifted_pbind k (fun x => x)).
  { replace (k + base + dh_index_pos dh) with (k + (base + dh_index_pos dh)) by lia. apply shifted_rdblock_ret. }
  intros ip. exact (sh_ret k (shift_dpack k) _).
Qed.

Lemma shifted_ptr_at k tab i : shifted k (fun x => x) (ptr_at tab i) (ptr_at tab i).
Proof.
  unfold ptr_at. eapply (shifted_pbind k (fun x => x)); [apply shifted_lift|]. intros [so r]. apply shifted_ret_id.
Qed.

Lemma shifted_dp_index k d i : shifted k (fun x => x) (dp_index_p d i) (dp_index_p (shift_dpack k d) i).
Proof.
  unfold dp_index_p. cbn [shift_dpack dp_iptrs dp_base].
  eapply (shifted_pbind k (fun x => x)); [apply shifted_ptr_at|]. intros so.
  replace (k + dp_base d + so_off so) with (k + (dp_base d + so_off so)) by lia. apply shifted_rdblock_lift.
Qed.

Lemma shifted_dp_entry_store k d i :
  shifted k (fun x => x) (dp_entry_store_p d i) (dp_entry_store_p (shift_dpack k d) i).
Proof.
  unfold dp_entry_store_p. cbn [shift_dpack dp_eptrs dp_base dp_dh].
  destruct (N.leb _ _); [constructor|].
  eapply (shifted_pbind k (fun x => x)); [apply shifted_ptr_at|]. intros so.
  eapply (shifted_pbind k (fun x => x)).
  { replace (k + dp_base d + so_off so) with (k + (dp_base d + so_off so)) by lia. apply shifted_rdblock_lift. }
  intros ly. destruct (l_checked ly); [constructor|].
  destruct (N.ltb_spec (so_off so) (l_count ly * N.of_nat (l_entry_size ly) + 4)) as [|Hfit]; [constructor|].
  eapply (shifted_pbind k (fun x => x)).
  { replace (k + dp_base d + so_off so - l_count ly * N.of_nat (l_entry_size ly) - 4)
      with (k + (dp_base d + so_off so - l_count ly * N.of_nat (l_entry_size ly) - 4)) by lia.
    apply shifted_rdblock_ret. }
  intros data. apply shifted_ret_id.
Qed.

Lemma shifted_vstore_at k base so : shifted k (fun x => x) (vstore_at_p base so) (vstore_at_p (k + base) so).
Proof.
  unfold vstore_at_p.
  eapply (shifted_pbind k (fun x => x)).
  { replace (k + base + so_off so) with (k + (base + so_off so)) by lia. apply shifted_rdblock_lift. }
  intros [sz|offs sz].
  - destruct (N.ltb_spec (so_off so) (sz + 4)) as [|Hfit]; [constructor|].
    eapply (shifted_pbind k (fun x => x)).
    { replace (k + base + so_off so - sz - 4) with (k + (base + so_off so - sz - 4)) by lia. apply shifted_rdblock_ret. }
    intros data. apply shifted_ret_id.
  - destruct (N.ltb_spec (so_off so) (sz + 4)) as [|Hfit]; [constructor|].
    eapply (shifted_pbind k (fun x => x)).
    { replace (k + base + so_off so - sz - 4) with (k + (base + so_off so - sz - 4)) by lia. apply shifted_rdblock_ret. }
    intros data. apply shifted_ret_id.
Qed.

Lemma shifted_dp_value_store k d i :
  shifted k (fun x => x) (dp_value_store_p d i) (dp_value_store_p (shift_dpack k d) i).
Proof.
  unfold dp_value_store_p. cbn [shift_dpack dp_vptrs dp_base dp_dh].
  destruct (N.leb _ _); [constructor|].
  eapply (shifted_pbind k (fun x => x)); [apply shifted_ptr_at|]. intros so. apply shifted_vstore_at.
Qed.

(* every structure query on a directory pack: same answer wherever the pack lies *)
Theorem directory_queries_are_translation_invariant X f base :
  (forall i, run (X ++ f) (pbind (dp_open_p (lenN X + base)) (fun d => dp_index_p d i)) =
             run f (pbind (dp_open_p base) (fun d => dp_index_p d i))) /\
  (forall i, run (X ++ f) (pbind (dp_open_p (lenN X + base)) (fun d => dp_entry_store_p d i)) =
             run f (pbind (dp_open_p base) (fun d => dp_entry_store_p d i))) /\
  (forall i, run (X ++ f) (pbind (dp_open_p (lenN X + base)) (fun d => dp_value_store_p d i)) =
             run f (pbind (dp_open_p base) (fun d => dp_value_store_p d i))).
Proof.
  assert (Id : forall A (r : res A), res_map (fun x => x) r = r) by (intros A [a|e]; reflexivity).
  repeat split; intros i.
  - rewrite <- Id. apply run_shifted. eapply shifted_pbind; [apply shifted_dp_open|]. intros d. apply shifted_dp_index.
  - rewrite <- Id. apply run_shifted. eapply shifted_pbind; [apply shifted_dp_open|]. intros d. apply shifted_dp_entry_store.
  - rewrite <- Id. apply run_shifted. eapply shifted_pbind; [apply shifted_dp_open|]. intros d. apply shifted_dp_value_store.
Qed.

(* ---- manifest ---- *)
Definition shift_manifest (k : N) (m : manifest) : manifest :=
  {| mf_pos := k + mf_pos m; mf_header := mf_header m; mf_mh := mf_mh m; mf_dir := mf_dir m; mf_packs := mf_packs m |}.
Definition shift_info (k : N) (x : N * pack_info) : N * pack_info := (k + fst x, snd x).

Lemma shifted_read_infos k n : forall g,
  shifted k (map (shift_info k)) (read_infos_p g n) (read_infos_p (k + g) n).
Proof.
  induction n as [|n IH]; intros g; cbn [read_infos_p]; [exact (sh_ret k (map (shift_info k)) [])|].
  eapply (shifted_pbind k (fun x => x)).
  { unfold read_info_p. apply shifted_rdblock_lift. }
  intros pi. eapply (shifted_pbind k (map (shift_info k))).
  { replace (k + g + 256) with (k + (g + 256)) by lia. apply IH. }
  intros rest. exact (sh_ret k (map (shift_info k)) ((g, pi) :: rest)).
Qed.

Lemma map_snd_shift_info k l : map snd (map (shift_info k) l) = map snd l.
Proof. rewrite map_map. apply map_ext. intros [g pi]. reflexivity. Qed.

Lemma shifted_manifest_open k pos : shifted k (shift_manifest k) (manifest_open_p pos) (manifest_open_p (k + pos)).
Proof.
  unfold manifest_open_p.
  eapply (shifted_pbind k (fun x => x)); [apply shifted_read_header|]. intros h.
  destruct (negb _); [constructor|].
  eapply (shifted_pbind k (fun x => x)).
  { replace (k + pos + 64) with (k + (pos + 64)) by lia. apply shifted_rdblock_lift. }
  intros mh. destruct (N.ltb _ _); [constructor|].
  eapply (shifted_pbind k (map (shift_info k))).
  { replace (k + pos + (ph_check_pos h - mh_count mh * 256)) with (k + (pos + (ph_check_pos h - mh_count mh * 256))) by lia.
    apply shifted_read_infos. }
  intros infos. eapply (shifted_pbind k (fun x => x)).
  { destruct (_ && _); [apply shifted_ret_id|].
    eapply (shifted_pbind k (fun x => x)); [apply shifted_vstore_at|]. intros s. apply shifted_ret_id. }
  intros _. rewrite map_snd_shift_info.
  destruct (rev _) as [|d ds]; [constructor|]. exact (sh_ret k (shift_manifest k) _).
Qed.

Theorem manifest_open_is_translation_invariant X f pos :
  run (X ++ f) (manifest_open_p (lenN X + pos)) = res_map (shift_manifest (lenN X)) (run f (manifest_open_p pos)).
Proof. apply run_shifted. apply shifted_manifest_open. Qed.

(* ---- the integrity check of a pack: same verdict wherever the pack lies ---- *)
Lemma shifted_check_info k pos h : shifted k (fun x => x) (check_info_p pos h) (check_info_p (k + pos) h).
Proof.
  unfold check_info_p. replace (k + pos + ph_check_pos h) with (k + (pos + ph_check_pos h)) by lia.
  constructor. intros [|x rest]; [constructor|].
  destruct (x =? 0); [apply shifted_ret_id|]. destruct (x =? 1); [|constructor].
  destruct (Nat.ltb _ _); [constructor|apply shifted_ret_id].
Qed.

Theorem pack_check_is_translation_invariant (H : list N -> list N) X f pos :
  pack_check H (X ++ f) (lenN X + pos) = pack_check H f pos.
Proof.
  assert (Id : forall A (r : res A), res_map (fun x => x) r = r) by (intros A [a|e]; reflexivity).
  unfold pack_check.
  rewrite (run_shifted (fun x => x) X f _ _ (shifted_read_header (lenN X) pos)), Id.
  destruct (run f (read_header_p pos)) as [h|e]; [|reflexivity].
  rewrite (run_shifted (fun x => x) X f _ _ (shifted_check_info (lenN X) pos h)), Id.
  destruct (run f (check_info_p pos h)) as [[hash|]|e]; try reflexivity.
  rewrite read_raw_prefix. reflexivity.
Qed.

(* non-vacuity: the hand-made two-content pack of FilePack.v, behind 3 foreign bytes *)
From Jbk Require Import Content.FilePack.
Open Scope N_scope.
Example ex_embedded_content :
  run ([9; 9; 9] ++ ex_file) (pbind (cp_open_p 3) (fun p => cp_read_p p 1)) = Ok (Some (0, 1, CRaw 134 2, Some [4; 5])).
Proof. vm_compute. reflexivity. Qed.
Close Scope N_scope.
