(* C09 — Creation is all-or-nothing at the destination path.  PARTIAL.
   Proved about the file-system model (Crash/AtomicFs.v): for every trace of creator operations in
   which each destination is renamed over at most once, after EVERY prefix (= crash or error return
   at any point) each path is untouched or holds its final content; and if the first rename over the
   entry point is the last rename of the trace, then at every crash point where the entry point has
   been replaced every other path already holds its final content.  Assumed, not modelled: rename(2)
   is atomic; a crash is process termination (no power loss, no fsync semantics). *)
From Coq Require Import List Arith NArith Bool.
From Jbk Require Import Crash.AtomicFs.
Import ListNotations.

Theorem C09_crash_leaves_old_or_complete :
  forall tr k p, NoDup (targets tr) ->
    files (run (firstn k tr) s0) p = None \/ files (run (firstn k tr) s0) p = files (run tr s0) p.
Proof. exact crash_leaves_old_or_complete. Qed.

Theorem C09_from_any_state :
  forall tr s k p, NoDup (targets tr) ->
    files (run (firstn k tr) s) p = files s p \/ files (run (firstn k tr) s) p = files (run tr s) p.
Proof. exact prefix_old_or_final. Qed.

Theorem C09_entry_point_never_before_its_packs :
  forall e tr s k, entry_lastb e tr = true ->
    files (run (firstn k tr) s) e <> files s e ->
    forall p, files (run (firstn k tr) s) p = files (run tr s) p.
Proof. exact entry_point_last. Qed.

(* the recognizer used on the system-call traces of real runs is sound for both guarantees *)
Theorem C09_accepted_trace_is_crash_safe :
  forall e tr k, fs_accepts e tr = true ->
    (forall p, files (run (firstn k tr) s0) p = None \/ files (run (firstn k tr) s0) p = files (run tr s0) p) /\
    (files (run (firstn k tr) s0) e <> None -> forall p, files (run (firstn k tr) s0) p = files (run tr s0) p).
Proof. exact accepted_trace_is_crash_safe. Qed.

Print Assumptions C09_crash_leaves_old_or_complete.
Print Assumptions C09_from_any_state.
Print Assumptions C09_entry_point_never_before_its_packs.
Print Assumptions C09_accepted_trace_is_crash_safe.
