(* C15 — References between entries resolve to the referenced entry's final position.
   Proofs in Dir/Refs.v. *)
From Coq Require Import List Arith Permutation.
From Jbk Require Import Dir.Refs.
Import ListNotations.

(* For every store, every reordering done by the sort (any permutation), and every reference graph:
   the value stored for a reference is the final position of the referenced entry. *)
Theorem C15_refs_resolve :
  forall perm s (target : nat -> nat) p e q,
    NoDup (order s) -> (forall l, Permutation (perm l) l) ->
    nth_error (order (finalize perm s)) p = Some e ->
    nth_error (order (finalize perm s)) q = Some (target e) ->
    ref_value (finalize perm s) (target e) = q.
Proof. exact refs_resolve. Qed.

(* the handle returned when an entry is added reports that same final position *)
Theorem C15_bound_reports_final_position :
  forall perm s p e, NoDup (order s) -> (forall l, Permutation (perm l) l) ->
    nth_error (order (finalize perm s)) p = Some e -> bound_get (finalize perm s) e = p.
Proof. exact bound_reports_final. Qed.

(* reference values stay below the entry count: widths computed after finalize fit them *)
Theorem C15_reference_below_entry_count :
  forall perm s e, NoDup (order s) -> (forall l, Permutation (perm l) l) -> In e (order s) ->
    cell (finalize perm s) e < length (order s).
Proof. exact ref_below_count. Qed.

(* reading the positions before the sort (e.g. computing column statistics too early) is wrong *)
Theorem C15_positions_before_sort_refuted :
  exists (perm : list nat -> list nat) s e,
    NoDup (order s) /\ (forall l, Permutation (perm l) l) /\
    cell (set_idx s) e <> cell (finalize perm s) e.
Proof. exact stats_before_sort_refuted. Qed.

Print Assumptions C15_refs_resolve.
Print Assumptions C15_bound_reports_final_position.
Print Assumptions C15_reference_below_entry_count.
Print Assumptions C15_positions_before_sort_refuted.
