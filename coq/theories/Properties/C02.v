(* C02 — Entries read back with exactly the property values they were written with.
   Final statements; proofs in Dir/Values.v, Dir/Descr.v, Dir/Variants.v, Dir/Layout.v.
   Per-field, per-descriptor, per-store and variant-delimiting round trips are theorems for all values;
   for schemas without variants they are composed (Dir/EntryStore.v): the descriptors the writer emits
   parse to the layout, and EVERY entry of the data block reads back with exactly its values.  The
   composition with arrays / variants and the placement of the blocks in a directory pack file are
   covered by running the extracted decoder [dp_dump] on every pack the creator writes. *)
From Coq Require Import List Arith NArith ZArith.
From Jbk Require Import Base.ListExtra Base.Bytes Base.Parser Format.Structs Content.Pack
  Dir.Layout Dir.Values Dir.Descr Dir.Variants Dir.EntryStore Dir.EntryStoreVariants
  Base.Prog Format.Roundtrips Content.FilePack Dir.DirFilePack.
Import ListNotations.

(* --- one property of one entry, wherever it sits in the entry ([pre] before, [post] after) --- *)
Theorem C02_unsigned_field :
  forall store pre post size v name, (v < 256 ^ N.of_nat size)%N ->
    read_value store (pre ++ ser_uint size None v ++ post)
      {| pr_off := length pre; pr_name := name; pr_kind := KUInt size None |} = Ok (VUnsigned v).
Proof. exact uint_roundtrip. Qed.

Theorem C02_signed_field :
  forall store pre post size z name, (0 < size)%nat -> fits_signed size z ->
    read_value store (pre ++ ser_sint size None z ++ post)
      {| pr_off := length pre; pr_name := name; pr_kind := KSInt size None |} = Ok (VSigned z).
Proof. exact sint_roundtrip. Qed.

(* ... and a signed value that does not fit its width is NOT read back (so the width matters) *)
Theorem C02_signed_field_too_narrow_is_altered :
  forall store pre post size z name, (0 < size)%nat -> ~ fits_signed size z ->
    read_value store (pre ++ ser_sint size None z ++ post)
      {| pr_off := length pre; pr_name := name; pr_kind := KSInt size None |} <> Ok (VSigned z).
Proof. exact sint_too_wide_altered. Qed.

Theorem C02_content_address_field :
  forall store pre post ps cs pack content name,
    (pack < 256 ^ N.of_nat ps)%N -> (pack < 65536)%N -> (content < 256 ^ N.of_nat cs)%N ->
    read_value store (pre ++ ser_content ps cs None pack content ++ post)
      {| pr_off := length pre; pr_name := name; pr_kind := KContent ps cs None |} = Ok (VContent pack content).
Proof. exact content_roundtrip. Qed.

(* byte arrays of any length, however split between the inline prefix and the value store *)
Theorem C02_array_field :
  forall store pre post ls fixed ks si bytes id name s,
    (lenN bytes < 256 ^ N.of_nat ls)%N -> (id < 256 ^ N.of_nat ks)%N -> store si = Ok s ->
    vs_get s id (Some (lenN bytes - N.min (lenN bytes) (N.of_nat fixed)))%N = Ok (skipn fixed bytes) ->
    read_value store
      (pre ++ ser_array (Some ls) fixed (Some (ks, si)) (lenN bytes) (firstn fixed bytes) id ++ post)
      {| pr_off := length pre; pr_name := name; pr_kind := KArray (Some ls) fixed (Some (ks, si)) None |}
    = Ok (VArray bytes).
Proof. exact array_roundtrip. Qed.

Theorem C02_indirect_array_field :
  forall store pre post ks si bytes id name s,
    (id < 256 ^ N.of_nat ks)%N -> store si = Ok s -> vs_get s id None = Ok bytes ->
    read_value store (pre ++ ser_array None 0 (Some (ks, si)) 0 [] id ++ post)
      {| pr_off := length pre; pr_name := name; pr_kind := KArray None 0 (Some (ks, si)) None |}
    = Ok (VArray bytes).
Proof. exact indirect_array_roundtrip. Qed.

(* constant columns become defaults and read back as the constant *)
Theorem C02_constant_column_unsigned :
  forall store off size d name e,
    read_value store e {| pr_off := off; pr_name := name; pr_kind := KUInt size (Some d) |} = Ok (VUnsigned d).
Proof. reflexivity. Qed.
Theorem C02_constant_column_signed :
  forall store off size d name e,
    read_value store e {| pr_off := off; pr_name := name; pr_kind := KSInt size (Some d) |} = Ok (VSigned d).
Proof. reflexivity. Qed.

(* --- widths computed from column statistics make every value of the column fit --- *)
Theorem C02_unsigned_width_fits :
  forall (col : list N) m v, (forall x, In x col -> (x <= m)%N) -> (m < 2 ^ 64)%N -> In v col ->
    (v < 256 ^ N.of_nat (needed_bytes m))%N.
Proof. exact unsigned_width_fits. Qed.

Theorem C02_signed_width_fits :
  forall m z, (- 2 ^ 63 <= z < 2 ^ 63)%Z -> (signed_probe z <= m)%N -> (m < 2 ^ 64)%N ->
    fits_signed (needed_bytes m) z.
Proof. exact signed_width_fits. Qed.

Theorem C02_pinned_signed_width_refuted :
  exists z, (0 <= z < 2 ^ 63)%Z /\ ~ fits_signed (needed_bytes (Z.to_N z)) z.
Proof. exact signed_width_pinned_refuted. Qed.

(* --- value stores: the id handed out for a stored value gives it back --- *)
Theorem C02_plain_store_get :
  forall (vals : list (list N)) k v, nth_error vals k = Some v ->
    vs_get (VSPlain (concat vals)) (lenN (concat (firstn k vals))) (Some (lenN v)) = Ok v.
Proof. exact plain_store_get. Qed.
Theorem C02_indexed_store_get :
  forall (vals : list (list N)) k v, nth_error vals k = Some v ->
    vs_get (VSIndexed (0%N :: ends (map lenN vals)) (concat vals)) (N.of_nat k) None = Ok v.
Proof. exact indexed_store_get. Qed.

(* --- descriptors and variants: the reader rebuilds the layout the creator serialised --- *)
Theorem C02_descriptor_roundtrip :
  forall p r, wf_wprop p -> p_rawprop (ser_wprop p ++ r) = Ok (raw_of p, r).
Proof. exact p_rawprop_ser. Qed.

Theorem C02_variants_roundtrip :
  forall vsize vs, Forall (wf_variant vsize) vs -> split_variants vsize None (ser_variants vs) = Ok vs.
Proof. exact split_variants_roundtrip. Qed.

Theorem C02_pinned_variants_refuted :
  exists vsize vs, Forall (wf_variant vsize) vs /\ split_variants_pinned vsize None (ser_variants vs) = Err EFormat.
Proof. exact pinned_trailing_default_refuted. Qed.

(* --- an index exposes exactly its declared window of the store, nothing beyond --- *)
Theorem C02_index_window_outside :
  forall ih ly data j, (ix_count ih <= j)%N -> index_get ih ly data j = None.
Proof. exact index_get_outside. Qed.
Theorem C02_index_window_inside :
  forall ih ly data j, (j < ix_count ih)%N -> index_get ih ly data j = entry_bytes ly data (ix_offset ih + j)%N.
Proof. exact index_get_inside. Qed.

(* --- whole entry stores (schemas without variants; integer, content-address, array, constant and padding columns):
   descriptors, data block and reader composed --- *)
Theorem C02_every_entry_reads_back :
  forall store shape (rows : list (list wfield)) j row,
    Forall (row_has_shape store shape) rows -> nth_error rows j = Some row ->
    let ly := flat_layout (N.of_nat (length rows)) shape in
    let data := concat (map (fun r => concat (map ser_field r)) rows) in
    exists e, entry_bytes ly data (N.of_nat j) = Some e /\ read_entry store ly e = (None, shown row).
Proof. exact entry_store_roundtrip. Qed.

Theorem C02_written_descriptors_parse_to_the_layout :
  forall count shape r,
    (count < 2 ^ 32)%N -> length shape <= 255 -> (N.of_nat (psize (map raw_of shape)) < 65536)%N ->
    Forall wf_wprop shape -> Forall (fun w => match w with WVariantId _ => False | _ => True end) shape ->
    p_layout (ser_flat_tail count (psize (map raw_of shape)) shape ++ r) = Ok (flat_layout count shape, r).
Proof. exact flat_layout_parsed. Qed.

(* --- whole entry stores WITH variants: every entry reads back with its variant id, its common values and the
   values of its own variant; the written descriptors parse to the layout that theorem is about --- *)
Theorem C02_every_variant_entry_reads_back :
  forall store common vshapes vsize (rows : list vrow) j r,
    Forall (vrow_has_shape store common vshapes vsize) rows -> nth_error rows j = Some r ->
    let ly := variant_layout (N.of_nat (length rows)) common vshapes vsize in
    let data := concat (map ser_vrow rows) in
    exists e, entry_bytes ly data (N.of_nat j) = Some e /\
              read_entry store ly e = (Some (N.of_nat (vr_vid r)), shown (vr_common r) ++ shown (vr_var r)).
Proof. exact variant_entry_store_roundtrip. Qed.

Theorem C02_written_variant_descriptors_parse_to_the_layout :
  forall count common vshapes vsize r,
    (count < 2 ^ 32)%N -> vshapes <> [] -> length vshapes <= 255 ->
    length (common ++ variant_descrs vshapes) <= 255 ->
    (N.of_nat (psize (raws common) + 1 + vsize) < 65536)%N ->
    Forall wf_wprop (common ++ variant_descrs vshapes) -> no_vid common ->
    Forall (fun v => no_vid (snd v) /\ psize (raws (snd v)) = vsize) vshapes ->
    p_layout (ser_variant_tail count (psize (raws common) + 1 + vsize) common vshapes ++ r) =
      Ok (variant_layout count common vshapes vsize, r).
Proof. exact variant_layout_parsed. Qed.

(* --- through the file: for EVERY file in which a directory pack's structures are placed (header blocks, pointer tables,
   the store's tail block and data block anywhere, in any order), the reader opens the pack, finds the store and reads
   back every entry the writer put there --- *)
Theorem C02_stored_entries_read_back_through_the_file :
  forall f base h dh vptrs eptrs iptrs store shape (rows : list (list wfield)) k so j row,
  dir_pack_at f base h dh vptrs eptrs iptrs ->
  Forall (row_has_shape store shape) rows -> nth_error rows j = Some row ->
  (N.of_nat (length rows) < 2 ^ 32)%N -> length shape <= 255 -> (N.of_nat (psize (map raw_of shape)) < 65536)%N ->
  Forall wf_wprop shape -> Forall (fun w => match w with WVariantId _ => False | _ => True end) shape ->
  let tail := ser_flat_tail (N.of_nat (length rows)) (psize (map raw_of shape)) shape in
  let data := concat (map (fun r => concat (map ser_field r)) rows) in
  nth_error eptrs k = Some so -> wf_sized_offset so -> so_size so = lenN tail ->
  placed f (base + so_off so)%N tail -> (lenN data + 4 <= so_off so)%N -> placed f (base + so_off so - lenN data - 4)%N data ->
  exists d ly dat e,
    run f (dp_open_p base) = Ok d /\
    run f (dp_entry_store_p d (N.of_nat k)) = Ok (ly, dat) /\
    entry_bytes ly dat (N.of_nat j) = Some e /\
    read_entry store ly e = (None, shown row).
Proof. exact stored_entries_read_back_through_the_file. Qed.

Theorem C02_stored_variant_entries_read_back_through_the_file :
  forall f base h dh vptrs eptrs iptrs store common vshapes vsize (rows : list vrow) k so j r,
  dir_pack_at f base h dh vptrs eptrs iptrs ->
  Forall (vrow_has_shape store common vshapes vsize) rows -> nth_error rows j = Some r ->
  (N.of_nat (length rows) < 2 ^ 32)%N -> vshapes <> [] -> length vshapes <= 255 ->
  length (common ++ variant_descrs vshapes) <= 255 ->
  (N.of_nat (psize (raws common) + 1 + vsize) < 65536)%N ->
  Forall wf_wprop (common ++ variant_descrs vshapes) -> no_vid common ->
  Forall (fun v => no_vid (snd v) /\ psize (raws (snd v)) = vsize) vshapes ->
  let tail := ser_variant_tail (N.of_nat (length rows)) (psize (raws common) + 1 + vsize) common vshapes in
  let data := concat (map ser_vrow rows) in
  nth_error eptrs k = Some so -> wf_sized_offset so -> so_size so = lenN tail ->
  placed f (base + so_off so)%N tail -> (lenN data + 4 <= so_off so)%N -> placed f (base + so_off so - lenN data - 4)%N data ->
  exists d ly dat e,
    run f (dp_open_p base) = Ok d /\
    run f (dp_entry_store_p d (N.of_nat k)) = Ok (ly, dat) /\
    entry_bytes ly dat (N.of_nat j) = Some e /\
    read_entry store ly e = (Some (N.of_nat (vr_vid r)), shown (vr_common r) ++ shown (vr_var r)).
Proof. exact stored_variant_entries_read_back_through_the_file. Qed.

(* value stores through the file: the bytes the writer put under a key (plain: offset and length; indexed: rank) *)
Theorem C02_plain_value_reads_back_through_the_file :
  forall f base h dh vptrs eptrs iptrs (vals : list (list N)) k so i v,
  dir_pack_at f base h dh vptrs eptrs iptrs ->
  nth_error vals i = Some v -> (lenN (concat vals) < 2 ^ 64)%N ->
  let tail := ser_vs_tail_plain (lenN (concat vals)) in
  nth_error vptrs k = Some so -> wf_sized_offset so -> so_size so = lenN tail ->
  placed f (base + so_off so)%N tail -> (lenN (concat vals) + 4 <= so_off so)%N ->
  placed f (base + so_off so - lenN (concat vals) - 4)%N (concat vals) ->
  exists d s, run f (dp_open_p base) = Ok d /\ run f (dp_value_store_p d (N.of_nat k)) = Ok s /\
              vs_get s (lenN (concat (firstn i vals))) (Some (lenN v)) = Ok v.
Proof. exact plain_value_reads_back_through_the_file. Qed.
Theorem C02_indexed_value_reads_back_through_the_file :
  forall f base h dh vptrs eptrs iptrs (vals : list (list N)) w k so i v,
  dir_pack_at f base h dh vptrs eptrs iptrs ->
  nth_error vals i = Some v ->
  1 <= w <= 8 -> (N.of_nat (length vals) <= 65535)%N -> (lenN (concat vals) < 256 ^ N.of_nat w)%N ->
  let tail := ser_vs_tail_indexed w (map lenN vals) in
  nth_error vptrs k = Some so -> wf_sized_offset so -> so_size so = lenN tail ->
  placed f (base + so_off so)%N tail -> (lenN (concat vals) + 4 <= so_off so)%N ->
  placed f (base + so_off so - lenN (concat vals) - 4)%N (concat vals) ->
  exists d s, run f (dp_open_p base) = Ok d /\ run f (dp_value_store_p d (N.of_nat k)) = Ok s /\
              vs_get s (N.of_nat i) None = Ok v.
Proof. exact indexed_value_reads_back_through_the_file. Qed.

(* through an index: the index header placed in the file names a store and a window; entry j of the index is entry
   (offset + j) of that store, read back with its values *)
Theorem C02_indexed_entries_read_back_through_the_file :
  forall f base h dh vptrs eptrs iptrs store shape (rows : list (list wfield)) ki iso ih so j row,
  dir_pack_at f base h dh vptrs eptrs iptrs ->
  nth_error iptrs ki = Some iso -> wf_sized_offset iso ->
  (ix_store ih < 2 ^ 32)%N -> (ix_count ih < 2 ^ 32)%N -> (ix_offset ih < 2 ^ 32)%N -> length (ix_free ih) = 4 ->
  (ix_prop ih < 256)%N -> wf_name (ix_name ih) ->
  so_size iso = lenN (ser_index_header ih) -> placed f (base + so_off iso)%N (ser_index_header ih) ->
  Forall (row_has_shape store shape) rows ->
  (N.of_nat j < ix_count ih)%N -> nth_error rows (N.to_nat (ix_offset ih) + j) = Some row ->
  (N.of_nat (length rows) < 2 ^ 32)%N -> length shape <= 255 -> (N.of_nat (psize (map raw_of shape)) < 65536)%N ->
  Forall wf_wprop shape -> Forall (fun w => match w with WVariantId _ => False | _ => True end) shape ->
  let tail := ser_flat_tail (N.of_nat (length rows)) (psize (map raw_of shape)) shape in
  let data := concat (map (fun r => concat (map ser_field r)) rows) in
  nth_error eptrs (N.to_nat (ix_store ih)) = Some so -> wf_sized_offset so -> so_size so = lenN tail ->
  placed f (base + so_off so)%N tail -> (lenN data + 4 <= so_off so)%N -> placed f (base + so_off so - lenN data - 4)%N data ->
  exists d ly dat e,
    run f (dp_open_p base) = Ok d /\
    run f (dp_index_p d (N.of_nat ki)) = Ok ih /\
    run f (dp_entry_store_p d (ix_store ih)) = Ok (ly, dat) /\
    index_get ih ly dat (N.of_nat j) = Some e /\
    read_entry store ly e = (None, shown row).
Proof. exact indexed_entries_read_back_through_the_file. Qed.

Print Assumptions C02_every_entry_reads_back.
Print Assumptions C02_written_descriptors_parse_to_the_layout.
Print Assumptions C02_unsigned_field.
Print Assumptions C02_signed_field.
Print Assumptions C02_signed_field_too_narrow_is_altered.
Print Assumptions C02_content_address_field.
Print Assumptions C02_array_field.
Print Assumptions C02_indirect_array_field.
Print Assumptions C02_constant_column_unsigned.
Print Assumptions C02_constant_column_signed.
Print Assumptions C02_unsigned_width_fits.
Print Assumptions C02_signed_width_fits.
Print Assumptions C02_pinned_signed_width_refuted.
Print Assumptions C02_plain_store_get.
Print Assumptions C02_indexed_store_get.
Print Assumptions C02_descriptor_roundtrip.
Print Assumptions C02_variants_roundtrip.
Print Assumptions C02_pinned_variants_refuted.
Print Assumptions C02_index_window_outside.
Print Assumptions C02_index_window_inside.
Print Assumptions C02_every_variant_entry_reads_back.
Print Assumptions C02_written_variant_descriptors_parse_to_the_layout.
Print Assumptions C02_stored_entries_read_back_through_the_file.
Print Assumptions C02_stored_variant_entries_read_back_through_the_file.
Print Assumptions C02_plain_value_reads_back_through_the_file.
Print Assumptions C02_indexed_value_reads_back_through_the_file.
Print Assumptions C02_indexed_entries_read_back_through_the_file.
