(* C11 — An unavailable pack is reported as missing, and everything else still reads. *)
From Coq Require Import List NArith.
From Jbk Require Import Base.Parser Base.Prog Format.Structs Container.Reader Container.Proofs Container.ManifestFile.
Import ListNotations.

(* a pack that is neither inside the file at hand nor, by identity, inside the file at its recorded
   location (absent file, directory, or a DIFFERENT valid pack there) is reported missing *)
Theorem C11_absent_pack_is_missing :
  forall main packs fs uuid loc,
    find_uuid uuid packs = None ->
    (fs_find loc fs = None \/
     exists file ps, fs_find loc fs = Some file /\ open_as_container file = Ok ps /\ find_uuid uuid ps = None) ->
    locate main packs fs uuid loc = Ok LMissing.
Proof. exact locate_missing_when_absent. Qed.

(* a content held in a missing pack is reported as 'pack missing' with that pack's description *)
Theorem C11_content_of_missing_pack :
  forall c fs pack_id content_id info,
    find (fun p => N.eqb (pi_id p) pack_id) (mf_packs (ct_manifest c)) = Some info ->
    locate (ct_main c) (ct_packs c) fs (pi_uuid info) (pi_loc info) = Ok LMissing ->
    get_content c fs pack_id content_id = Ok (CMissing info).
Proof. exact get_content_missing. Qed.

(* what happens to the files of other packs does not affect a content whose own pack is located the same *)
Theorem C11_other_packs_do_not_matter :
  forall c fs fs' pack_id content_id info,
    find (fun p => N.eqb (pi_id p) pack_id) (mf_packs (ct_manifest c)) = Some info ->
    locate (ct_main c) (ct_packs c) fs' (pi_uuid info) (pi_loc info) = locate (ct_main c) (ct_packs c) fs (pi_uuid info) (pi_loc info) ->
    get_content c fs' pack_id content_id = get_content c fs pack_id content_id.
Proof. exact get_content_independent_of_other_files. Qed.

(* identity is the uuid: what is found always carries it *)
Theorem C11_identity_is_the_uuid :
  forall uuid packs r, find_uuid uuid packs = Some r -> In (uuid, r) packs.
Proof. exact find_uuid_sound. Qed.

(* what "listed" means, through the file: for EVERY file holding a manifest whose blocks are placed where the format
   says, the reader lists exactly the packs the writer recorded (the directory pack apart) — the list on which
   missing / found is then decided *)
Theorem C11_manifest_lists_exactly_the_written_packs :
  forall f pos h mh infos d rest,
    manifest_at f pos h mh infos ->
    rev (filter (fun p => kind_eqb (pi_kind p) KDirectory) infos) = d :: rest ->
    run f (manifest_open_p pos) =
      Ok {| mf_pos := pos; mf_header := h; mf_mh := mh; mf_dir := d;
            mf_packs := filter (fun p => negb (kind_eqb (pi_kind p) KDirectory)) infos |}.
Proof. exact manifest_open_ok. Qed.

Print Assumptions C11_absent_pack_is_missing.
Print Assumptions C11_content_of_missing_pack.
Print Assumptions C11_other_packs_do_not_matter.
Print Assumptions C11_identity_is_the_uuid.
Print Assumptions C11_manifest_lists_exactly_the_written_packs.
