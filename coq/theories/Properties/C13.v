(* C13 — All views of a stored content (stream, slice, sub-cut, conversions) agree.
   Only final statements here; proofs live in Views/Region.v. *)
From Coq Require Import List Arith.
From Jbk Require Import Base.ListExtra Views.Region.
Import ListNotations.

(* Every program of view operations (cuts nested to any depth, conversions between region, slice
   and stream, get_slice, reads of any sizes, size/offset/size_left queries), started on any
   well-formed view of any source, observes exactly what the same program observes on the plain
   list of bytes the view denotes. *)
Theorem C13_views_refine_lists :
  forall (A : Type) (src : list A) (ops : list vop) (v : view),
    vwf src v -> run src of_region v ops = arun (abs src v) ops.
Proof. intros A src ops v. exact (views_refine_lists src ops v). Qed.

(* Streaming with any sequence of read sizes that covers the length yields exactly the bytes. *)
Theorem C13_any_partition_reads_all :
  forall (A : Type) (src : list A) (r : region) (ks : list nat),
    rwf src r -> rsize r <= sum ks -> fst (reads src (of_region r) ks) = rbytes src r.
Proof. intros A src r ks. exact (read_all src r ks). Qed.

(* Nested cuts denote the composed sub-range. *)
Theorem C13_cut_cut :
  forall (A : Type) (src : list A) r o1 n1 o2 n2,
    rwf src r -> o1 + n1 <= rsize r -> o2 + n2 <= n1 ->
    rbytes src (cut (cut r o1 n1) o2 n2) = sub (o1 + o2) n2 (rbytes src r).
Proof. intros A src r o1 n1 o2 n2. exact (cut_cut src r o1 n1 o2 n2). Qed.

(* The pinned tree's From<ByteRegion> for ByteStream (cursor 0) violates the refinement: D1. *)
Theorem C13_pinned_into_stream_refuted :
  exists (src : list nat) r, rwf src r /\
    run src of_region_pinned (VRegion r) [OIntoStream; ORead 2]
    <> arun (abs src (VRegion r)) [OIntoStream; ORead 2].
Proof. exact from_region_pinned_refuted. Qed.

Print Assumptions C13_views_refine_lists.
Print Assumptions C13_any_partition_reads_all.
Print Assumptions C13_cut_cut.
Print Assumptions C13_pinned_into_stream_refuted.
