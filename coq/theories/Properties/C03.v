(* C03 — Sorted stores follow the reader's order; lookup finds exactly what was written.
   Proofs in Dir/Order.v and Dir/Search.v.  Bytes are [nat] (only their order matters). *)
From Coq Require Import List Arith Sorted.
From Jbk Require Import Dir.Order Dir.Search.
Import ListNotations.

(* the creator's comparison of two array values of one property (inline prefix, then value-store
   id, then length) IS the lexicographic comparison of the full byte strings, for every inline
   prefix length F, for the plain store (id = byte offset) ... *)
Theorem C03_writer_order_plain_store :
  forall F L fx fy, StronglySorted ltb L -> In (skipn F fx) L -> In (skipn F fy) L ->
    writer_cmp F (pid L) fx fy = lex fx fy.
Proof. exact plain_writer_order. Qed.
(* ... and for the indexed store (id = rank) *)
Theorem C03_writer_order_indexed_store :
  forall F L fx fy, StronglySorted ltb L -> In (skipn F fx) L -> In (skipn F fy) L ->
    writer_cmp F (rank L) fx fy = lex fx fy.
Proof. exact indexed_writer_order. Qed.

(* the reader's Array::cmp (inline prefix bytes, then the bytes fetched from the value store)
   is the lexicographic comparison of the resolved value with the probe *)
Theorem C03_reader_order_is_lex :
  forall base base_len ext other,
    reader_array_cmp base base_len ext other = lex (firstn base_len base ++ ext) other.
Proof. exact reader_cmp_is_lex. Qed.

(* in a strictly sorted store every earlier key is smaller than every later key *)
Theorem C03_sorted_store_is_monotone :
  forall keys, StronglySorted (fun a b => lex a b = Lt) keys ->
    forall i j a b, i < j -> nth_error keys i = Some a -> nth_error keys j = Some b -> lex a b = Lt.
Proof. exact sorted_nth_lt. Qed.

(* the exact binary-search loop of RangeTrait::find: what it returns compares Equal, and it finds a
   match whenever one exists, for every length, given a monotone comparison (a sorted store) *)
Theorem C03_binary_search_correct :
  forall cmp count, mono cmp ->
    (forall m, find_binary cmp count = Some m -> m < count /\ cmp m = Eq) /\
    ((exists m, m < count /\ cmp m = Eq) -> exists m', find_binary cmp count = Some m').
Proof. exact find_binary_spec. Qed.

(* binary search and linear scan return the same entry when keys are unique *)
Theorem C03_search_modes_agree :
  forall cmp count, mono cmp -> at_most_one_eq cmp -> find_binary cmp count = find_linear cmp count.
Proof. exact find_modes_agree. Qed.

Print Assumptions C03_writer_order_plain_store.
Print Assumptions C03_writer_order_indexed_store.
Print Assumptions C03_reader_order_is_lex.
Print Assumptions C03_sorted_store_is_monotone.
Print Assumptions C03_binary_search_correct.
Print Assumptions C03_search_modes_agree.
