(* C01 — Stored content reads back byte-identical at the address returned on insertion.
   Final statements; proofs in Content/Cluster.v, Content/Pack.v, Content/FilePack.v, Base/Parser.v.
   (a) the creator's cluster/address bookkeeping for every insertion sequence; (b) every byte-level
   codec on the path from an address to its bytes; (c) their composition at file level: for EVERY file
   in which the structures the creator built are placed — header blocks, the two tables, each
   cluster's tail block and data wherever its pointer says, in any order — the reader returns for a
   content stored uncompressed exactly its bytes, and for a content in a compressed cluster the
   position and length of its blob in the decompressed data.  Outside the model: the compression
   libraries (decompress (compress x) = x is not proved; compressed contents are compared through the
   real reader), and that the real creator lays the file out as [content_pack_at] says — which is what
   the correspondence check establishes on every pack it writes (the extracted reader must find every
   content at the cluster/blob the proved state machine plans, and the canonical-form check of C14). *)
From Coq Require Import List Arith NArith.
From Jbk Require Import Base.ListExtra Base.Bytes Base.Crc Base.Parser Base.Prog Format.Structs Content.Cluster Content.Pack Content.FilePack
  Manifest.SetLocation Container.Reader Container.EndToEnd.
Import ListNotations.

(* (a) For every insertion sequence (any sizes, any storage decisions): insertion i gets an address
   (cluster, blob) that designates exactly the inserted content, the blob index fits 12 bits, and
   the pack records exactly as many contents as were inserted. *)
Theorem C01_address_resolves :
  forall (A : Type) (len : A -> N) (ops : list (A * bool)) i x,
    nth_error (map fst ops) i = Some x ->
    exists inf, nth_error (infos A (fold_left (add A len) ops (init A))) i = Some inf /\
                resolve A (cs A (fold_left (add A len) ops (init A))) inf = Some x /\
                snd inf < MAX_BLOBS.
Proof. intros A len ops i x. exact (address_resolves A len ops i x). Qed.

Theorem C01_count_is_insertions :
  forall (A : Type) (len : A -> N) (ops : list (A * bool)),
    length (infos A (fold_left (add A len) ops (init A))) = length ops.
Proof.
  intros A len ops. rewrite (inv_len A _ _ (adds_inv A len ops)). apply map_length.
Qed.

(* an address past the count answers "no such content" *)
Theorem C01_past_the_end :
  forall f p i, (cp_content_count (cpk_cp p) <= i)%N -> run f (cp_locate_p p i) = Ok None.
Proof. exact cp_locate_past. Qed.

(* (b) cluster tail: the reader recovers stored size, data size and every blob offset, for the
   offset width the writer chooses (which must fit the stored size too) and for any width that fits *)
Theorem C01_tail_roundtrip :
  forall comp raw lens r,
    (comp <= 3)%N -> lens <> [] -> (N.of_nat (length lens) < 65536)%N -> (raw < 2 ^ 64)%N -> (sumN lens < 2 ^ 64)%N ->
    (comp = 0%N -> raw = sumN lens) ->
    p_tail (ser_tail comp raw lens ++ r) =
      Ok ({| t_comp := comp; t_raw := raw; t_dsize := sumN lens; t_offs := 0%N :: ends lens |}, r).
Proof. exact p_tail_ser. Qed.

Theorem C01_blob_between_offsets :
  forall (blobs : list (list N)) j b, nth_error blobs j = Some b ->
    blob_at (0%N :: ends (map lenN blobs)) j (concat blobs) = b.
Proof. exact blob_from_offsets. Qed.

Theorem C01_content_info_roundtrip :
  forall cluster blob, (blob < 2 ^ 12)%N -> (cluster < 2 ^ 20)%N ->
    dec_content_info (le_val (ser_content_info cluster blob)) = (cluster, blob).
Proof. exact content_info_rt. Qed.

Theorem C01_block_read_back_where_placed :
  forall pre data post, read_block (pre ++ mk_block data ++ post) (lenN pre) (lenN data) = Ok data.
Proof. exact read_block_placed. Qed.

Theorem C01_needed_bytes_fits : forall v, (v < 2 ^ 64)%N -> (v < 256 ^ N.of_nat (needed_bytes v))%N.
Proof. exact needed_bytes_fits. Qed.

(* the pinned tree's offset width (data size only) loses the stored size of incompressible data: D3 *)
Theorem C01_pinned_tail_width_refuted :
  exists comp raw lens,
    (comp <= 3)%N /\ lens <> [] /\ (raw < 2 ^ 64)%N /\
    match p_tail (ser_tail_w (tail_width_pinned raw (sumN lens)) comp raw lens) with
    | Ok (t, _) => t_raw t <> raw
    | Err _ => True
    end.
Proof. exact tail_width_pinned_refuted. Qed.

(* (c) file level *)
Theorem C01_stored_content_reads_back :
  forall (ops : list (list N * bool)) f base h ch clusters i x,
    let s := fold_left (add (list N) lenN) ops (init (list N)) in
    content_pack_at f base h ch (map info_of (infos (list N) s)) clusters ->
    Forall2 cluster_matches (cs (list N) s) clusters ->
    (N.of_nat (length (cs (list N) s)) <= 2 ^ 20)%N ->
    nth_error ops i = Some (x, false) ->
    exists k j off p,
      run f (cp_open_p base) = Ok p /\
      run f (cp_read_p p (N.of_nat i)) = Ok (Some (k, j, CRaw off (lenN x), Some x)).
Proof. exact stored_content_reads_back. Qed.

(* (d) through the container: the same, as Container::get_bytes answers it for a pack embedded in the file at hand *)
Theorem C01_inserted_content_reads_back_through_the_container :
  forall c fs pack_id info (ops : list (list N * bool)) pos size h ch clusters i x,
    let s := fold_left (add (list N) lenN) ops (init (list N)) in
    find (fun p => (pi_id p =? pack_id)%N) (mf_packs (ct_manifest c)) = Some info ->
    find_uuid (pi_uuid info) (ct_packs c) = Some (pos, size) ->
    content_pack_at (ct_main c) pos h ch (map info_of (infos (list N) s)) clusters ->
    Forall2 cluster_matches (cs (list N) s) clusters ->
    (N.of_nat (length (cs (list N) s)) <= 2 ^ 20)%N ->
    nth_error ops i = Some (x, false) ->
    exists k j off, get_content c fs pack_id (N.of_nat i) = Ok (CFound k j (CRaw off (lenN x)) (Some x)).
Proof.
  intros c fs pack_id info ops pos size h ch clusters i x s L.
  exact (inserted_content_reads_back_through_the_container c fs pack_id info L ops pos size h ch clusters i x).
Qed.

Theorem C01_raw_content_at_its_address :
  forall f base h ch infos clusters (P : content_pack_at f base h ch infos clusters) i k j c so b,
    nth_error infos i = Some (N.of_nat k, N.of_nat j) ->
    nth_error clusters k = Some (c, so) -> cl_comp c = 0%N -> nth_error (cl_blobs c) j = Some b ->
    (N.of_nat j < 2 ^ 12)%N -> (N.of_nat k < 2 ^ 20)%N ->
    exists off p, run f (cp_open_p base) = Ok p /\
                  run f (cp_read_p p (N.of_nat i)) = Ok (Some (N.of_nat k, N.of_nat j, CRaw off (lenN b), Some b)).
Proof.
  intros f base h ch infos clusters P i k j c so b H1 H2 H3 H4 H5 H6.
  destruct (read_raw_content f base h ch infos clusters P i k j c so b H1 H2 H3 H4 H5 H6) as [off R].
  exists off. eexists. split; [exact (open_ok f base h ch infos clusters P)|exact R].
Qed.

Theorem C01_compressed_content_located :
  forall f base h ch infos clusters (P : content_pack_at f base h ch infos clusters) i k j c so b,
    nth_error infos i = Some (N.of_nat k, N.of_nat j) ->
    nth_error clusters k = Some (c, so) -> cl_comp c <> 0%N -> nth_error (cl_blobs c) j = Some b ->
    (N.of_nat j < 2 ^ 12)%N -> (N.of_nat k < 2 ^ 20)%N ->
    exists p, run f (cp_open_p base) = Ok p /\
      run f (cp_locate_p p (N.of_nat i)) =
        Ok (Some (N.of_nat k, N.of_nat j,
                  CComp (cl_comp c) (base + so_off so - cl_stored c)%N (cl_stored c) (cl_dsize c)
                        (lenN (concat (firstn j (cl_blobs c)))) (lenN b))).
Proof.
  intros f base h ch infos clusters P i k j c so b H1 H2 H3 H4 H5 H6.
  eexists. split; [exact (open_ok f base h ch infos clusters P)|].
  exact (locate_compressed_content f base h ch infos clusters P i k j c so b H1 H2 H3 H4 H5 H6).
Qed.

Print Assumptions C01_stored_content_reads_back.
Print Assumptions C01_raw_content_at_its_address.
Print Assumptions C01_compressed_content_located.
Print Assumptions C01_address_resolves.
Print Assumptions C01_count_is_insertions.
Print Assumptions C01_past_the_end.
Print Assumptions C01_tail_roundtrip.
Print Assumptions C01_blob_between_offsets.
Print Assumptions C01_content_info_roundtrip.
Print Assumptions C01_block_read_back_where_placed.
Print Assumptions C01_needed_bytes_fits.
Print Assumptions C01_pinned_tail_width_refuted.
Print Assumptions C01_inserted_content_reads_back_through_the_container.
