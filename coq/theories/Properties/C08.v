(* C08 — The created container does not depend on how compression workers are scheduled (PARTIAL:
   the worker/writer protocol is modelled and proved; real scheduler behaviour is only observed).
   Proofs in Conc/ClusterWriter.v, Content/Cluster.v and Content/FilePack.v (placement independence). *)
From Coq Require Import List Arith NArith Bool Permutation.
From Jbk Require Import Base.Parser Base.Prog Format.Structs Content.Cluster Content.Pack Content.FilePack Conc.ClusterWriter.
Import ListNotations.

(* Whatever the completion order of the workers did to the positions of the clusters in the file (the
   pointer of each cluster says where it landed): two runs of the same insertions that placed the
   clusters differently both read every uncompressed content back as its own bytes. *)
Theorem C08_any_placement_reads_the_same :
  forall (ops : list (list N * bool)) f1 base1 h1 ch1 clusters1 f2 base2 h2 ch2 clusters2 i x,
    let s := fold_left (Cluster.add (list N) lenN) ops (Cluster.init (list N)) in
    content_pack_at f1 base1 h1 ch1 (map info_of (Cluster.infos (list N) s)) clusters1 ->
    content_pack_at f2 base2 h2 ch2 (map info_of (Cluster.infos (list N) s)) clusters2 ->
    Forall2 cluster_matches (Cluster.cs (list N) s) clusters1 ->
    Forall2 cluster_matches (Cluster.cs (list N) s) clusters2 ->
    (N.of_nat (length (Cluster.cs (list N) s)) <= 2 ^ 20)%N ->
    nth_error ops i = Some (x, false) ->
    exists p1 p2 k1 j1 off1 k2 j2 off2,
      run f1 (cp_open_p base1) = Ok p1 /\ run f2 (cp_open_p base2) = Ok p2 /\
      run f1 (cp_read_p p1 (N.of_nat i)) = Ok (Some (k1, j1, CRaw off1 (lenN x), Some x)) /\
      run f2 (cp_read_p p2 (N.of_nat i)) = Ok (Some (k2, j2, CRaw off2 (lenN x), Some x)).
Proof.
  intros ops f1 base1 h1 ch1 clusters1 f2 base2 h2 ch2 clusters2 i x s P1 P2 M1 M2 L H.
  destruct (stored_content_reads_back ops f1 base1 h1 ch1 clusters1 i x P1 M1 L H) as (k1 & j1 & o1 & p1 & O1 & R1).
  destruct (stored_content_reads_back ops f2 base2 h2 ch2 clusters2 i x P2 M2 L H) as (k2 & j2 & o2 & p2 & O2 & R2).
  exists p1, p2, k1, j1, o1, k2, j2, o2. auto.
Qed.

(* Whatever the interleaving of creator, workers and writer: when nothing is left to do, every
   cluster id has been written exactly once (the placement order is a permutation of the ids). *)
Theorem C08_every_cluster_written_once :
  forall ids w s, steps (initial ids w) s -> final s -> Permutation (written s) (map fst ids).
Proof. exact final_written. Qed.

(* the back-pressure counter counts exactly the clusters between submission and end of
   compression, and never exceeds twice the number of workers, in every reachable state *)
Theorem C08_backpressure_invariant :
  forall ids w s, steps (initial ids w) s ->
    inq s = length (dispatch s) + length (ids_of (busy s)) /\ inq s <= maxq s.
Proof. intros ids w s H. exact (steps_inv _ _ (inv_initial ids w) H). Qed.

(* no deadlock: with at least one worker, unless everything is written some thread can move *)
Theorem C08_no_deadlock :
  forall s, Inv s -> 1 <= length (busy s) -> final s \/ exists s', step s s'.
Proof. exact no_deadlock. Qed.

(* termination: every step decreases a measure, under every schedule *)
Theorem C08_terminates : forall s s', step s s' -> measure s' < measure s.
Proof. exact step_decreases. Qed.

(* certified recognizer: an accepted Progress event trace wrote every expected cluster exactly once *)
Theorem C08_accepted_trace_writes_each_cluster_once :
  forall evs expected, NoDup expected -> accepts evs expected = true ->
    exists opened written, scan evs [] [] [] = Some (opened, written) /\ Permutation written expected.
Proof. exact accepts_written_once. Qed.

Print Assumptions C08_any_placement_reads_the_same.
Print Assumptions C08_every_cluster_written_once.
Print Assumptions C08_backpressure_invariant.
Print Assumptions C08_no_deadlock.
Print Assumptions C08_terminates.
Print Assumptions C08_accepted_trace_writes_each_cluster_once.
