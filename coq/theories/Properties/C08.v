(* C08 — The created container does not depend on how compression workers are scheduled (PARTIAL:
   the worker/writer protocol is modelled and proved; real scheduler behaviour is only observed).
   Proofs in Conc/ClusterWriter.v and Content/Cluster.v. *)
From Coq Require Import List Arith Bool Permutation.
From Jbk Require Import Conc.ClusterWriter.
Import ListNotations.

(* Whatever the interleaving of creator, workers and writer: when nothing is left to do, every
   cluster id has been written exactly once (the placement order is a permutation of the ids). *)
Theorem C08_every_cluster_written_once :
  forall ids w s, steps (initial ids w) s -> final s -> Permutation (written s) (map fst ids).
Proof. exact final_written. Qed.

(* the back-pressure counter counts exactly the clusters between submission and end of
   compression, and never exceeds twice the number of workers, in every reachable state *)
Theorem C08_backpressure_invariant :
  forall ids w s, steps (initial ids w) s ->
    inq s = length (dispatch s) + length (ids_of (busy s)) /\ inq s <= maxq s.
Proof. intros ids w s H. exact (steps_inv _ _ (inv_initial ids w) H). Qed.

(* no deadlock: with at least one worker, unless everything is written some thread can move *)
Theorem C08_no_deadlock :
  forall s, Inv s -> 1 <= length (busy s) -> final s \/ exists s', step s s'.
Proof. exact no_deadlock. Qed.

(* termination: every step decreases a measure, under every schedule *)
Theorem C08_terminates : forall s s', step s s' -> measure s' < measure s.
Proof. exact step_decreases. Qed.

(* certified recognizer: an accepted Progress event trace wrote every expected cluster exactly once *)
Theorem C08_accepted_trace_writes_each_cluster_once :
  forall evs expected, NoDup expected -> accepts evs expected = true ->
    exists opened written, scan evs [] [] [] = Some (opened, written) /\ Permutation written expected.
Proof. exact accepts_written_once. Qed.

Print Assumptions C08_every_cluster_written_once.
Print Assumptions C08_backpressure_invariant.
Print Assumptions C08_no_deadlock.
Print Assumptions C08_terminates.
Print Assumptions C08_accepted_trace_writes_each_cluster_once.
