(* C05 — Damaged metadata is reported, never silently decoded into different values.
   Proved for every alteration confined to 4 consecutive bytes (all single-byte damage, at every
   position, for every file), for truncation and for extension, for every structure query of the
   reader model.  The full statement (any alteration) is refuted: known finding K1. *)
From Coq Require Import List Arith NArith.
From Jbk Require Import Base.ListExtra Base.Bytes Base.Crc Base.CrcParity Base.Parser Base.Prog Format.Structs
  Manifest.SetLocation Content.Pack Dir.Layout Container.Reader Container.Damage Container.Structural.
Import ListNotations.

(* the general principle: a reader that reads only through checked blocks returns, on a file whose
   blocks each read the same or fail, the pristine answer or an error *)
Theorem C05_reader_monotone :
  forall (A : Type) (p : prog A) f f' a,
    structural p -> blocks_same_or_err f f' -> run f p = Ok a ->
    run f' p = Ok a \/ exists e, run f' p = Err e.
Proof. intros A p f f' a. exact (reader_monotone p f f' a). Qed.

(* an alteration within 4 consecutive bytes makes every block it touches fail its CRC *)
Theorem C05_burst_is_detected_by_every_block :
  forall f f', burst4 f f' -> blocks_same_or_err f f'.
Proof. exact burst4_blocks. Qed.

(* instances: every structure query of the reader *)
Theorem C05_directory_pack_open : forall f f' base d, burst4 f f' -> run f (dp_open_p base) = Ok d ->
  run f' (dp_open_p base) = Ok d \/ exists e, run f' (dp_open_p base) = Err e.
Proof. intros f f' base d B. apply burst4_detected; [apply structural_dp_open|exact B]. Qed.
Theorem C05_index : forall f f' d k ih, burst4 f f' -> run f (dp_index_p d k) = Ok ih ->
  run f' (dp_index_p d k) = Ok ih \/ exists e, run f' (dp_index_p d k) = Err e.
Proof. intros f f' d k ih B. apply burst4_detected; [apply structural_dp_index|exact B]. Qed.
Theorem C05_entry_store : forall f f' d k r, burst4 f f' -> run f (dp_entry_store_p d k) = Ok r ->
  run f' (dp_entry_store_p d k) = Ok r \/ exists e, run f' (dp_entry_store_p d k) = Err e.
Proof. intros f f' d k r B. apply burst4_detected; [apply structural_dp_entry_store|exact B]. Qed.
Theorem C05_value_store : forall f f' d k r, burst4 f f' -> run f (dp_value_store_p d k) = Ok r ->
  run f' (dp_value_store_p d k) = Ok r \/ exists e, run f' (dp_value_store_p d k) = Err e.
Proof. intros f f' d k r B. apply burst4_detected; [apply structural_dp_value_store|exact B]. Qed.
Theorem C05_manifest : forall f f' pos m, burst4 f f' -> run f (manifest_open_p pos) = Ok m ->
  run f' (manifest_open_p pos) = Ok m \/ exists e, run f' (manifest_open_p pos) = Err e.
Proof. intros f f' pos m B. apply burst4_detected; [apply structural_manifest_open|exact B]. Qed.
Theorem C05_container_pack : forall f f' base ps, burst4 f f' -> run f (container_new_p base) = Ok ps ->
  run f' (container_new_p base) = Ok ps \/ exists e, run f' (container_new_p base) = Err e.
Proof. intros f f' base ps B. apply burst4_detected; [apply structural_container_new|exact B]. Qed.
Theorem C05_content_pack_open : forall f f' base p, burst4 f f' -> run f (cp_open_p base) = Ok p ->
  run f' (cp_open_p base) = Ok p \/ exists e, run f' (cp_open_p base) = Err e.
Proof. intros f f' base p B. apply burst4_detected; [apply structural_cp_open|exact B]. Qed.
(* where a content is and how long it is (cluster, blob, offsets): structure too *)
Theorem C05_content_location : forall f f' p i r, burst4 f f' -> run f (cp_locate_p p i) = Ok r ->
  run f' (cp_locate_p p i) = Ok r \/ exists e, run f' (cp_locate_p p i) = Err e.
Proof. intros f f' p i r B. apply burst4_detected; [apply structural_cp_locate|exact B]. Qed.

(* truncated and extended files *)
Theorem C05_truncation : forall (A : Type) (p : prog A) f k a,
  structural p -> run f p = Ok a -> run (firstn k f) p = Ok a \/ exists e, run (firstn k f) p = Err e.
Proof. intros A p f k a. exact (truncation_detected p f k a). Qed.
Theorem C05_extension : forall (A : Type) (p : prog A) f g a,
  structural p -> run f p = Ok a -> run (f ++ g) p = Ok a.
Proof. intros A p f g a. exact (extension_invisible p f g a). Qed.

(* the CRC facts underneath *)
Theorem C05_crc_detects_32bit_bursts :
  forall blk d a w c, 4 <= length blk -> check_block blk = true -> length d = length blk ->
    bits_of_bytes d = zeros a ++ w ++ zeros c -> length w <= 32 -> In true w ->
    check_block (bxor blk d) = false.
Proof. exact check_block_burst. Qed.

(* the generator polynomial has an even number of terms: every alteration of a block that flips an odd
   number of bits — however scattered over its data and stored CRC — is detected *)
Theorem C05_crc_detects_every_odd_number_of_flipped_bits :
  forall blk d, 4 <= length blk -> check_block blk = true -> length d = length blk ->
    parity (bits_of_bytes d) = true -> check_block (bxor blk d) = false.
Proof. exact check_block_odd_weight. Qed.

(* K1: the full statement is false of any 32-bit CRC *)
Theorem C05_any_alteration_refuted :
  exists (f f' : list N) (off size : N) d d',
    length f' = length f /\ read_block f off size = Ok d /\ read_block f' off size = Ok d' /\ d' <> d.
Proof. exact any_alteration_refuted. Qed.
Theorem C05_kernel_pattern_is_invisible :
  forall blk pre post, check_block blk = true -> length blk = pre + 5 + post -> 4 <= length blk ->
    check_block (bxor blk (repeat 0%N pre ++ kernel_pattern ++ repeat 0%N post)) = true /\
    bits_of_bytes (bxor blk (repeat 0%N pre ++ kernel_pattern ++ repeat 0%N post)) <> bits_of_bytes blk.
Proof. exact check_block_kernel. Qed.

Print Assumptions C05_reader_monotone.
Print Assumptions C05_burst_is_detected_by_every_block.
Print Assumptions C05_directory_pack_open.
Print Assumptions C05_index.
Print Assumptions C05_entry_store.
Print Assumptions C05_value_store.
Print Assumptions C05_manifest.
Print Assumptions C05_container_pack.
Print Assumptions C05_content_pack_open.
Print Assumptions C05_content_location.
Print Assumptions C05_truncation.
Print Assumptions C05_extension.
Print Assumptions C05_crc_detects_32bit_bursts.
Print Assumptions C05_crc_detects_every_odd_number_of_flipped_bits.
Print Assumptions C05_any_alteration_refuted.
Print Assumptions C05_kernel_pattern_is_invisible.
