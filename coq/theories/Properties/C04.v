(* C04 — Created packs verify; any later change to checksummed bytes makes the check fail.
   The hash function is a parameter; collision-freeness is not assumed (the statement says a passing
   check on altered covered bytes exhibits a collision). *)
From Coq Require Import List Arith NArith.
From Jbk Require Import Base.ListExtra Base.Bytes Base.Crc Base.Parser Base.Prog Format.Structs
  Manifest.Mask Manifest.SetLocation Container.Damage Container.Check Container.EmbedPacks.
Import ListNotations.

Theorem C04_created_pack_verifies :
  forall H pre body post h,
    let f := pre ++ body ++ mk_block (1%N :: H body) ++ post in
    run f (read_header_p (lenN pre)) = Ok h ->
    ph_check_pos h = lenN body -> ph_check_size h = 33%N -> length (H body) = 32 ->
    pack_check H f (lenN pre) = Ok true.
Proof. exact created_pack_checks. Qed.

Theorem C04_passing_check_on_altered_bytes_is_a_collision :
  forall H f f' pos h,
    run f (read_header_p pos) = Ok h -> run f' (read_header_p pos) = Ok h ->
    run f' (check_info_p pos h) = run f (check_info_p pos h) ->
    pack_check H f pos = Ok true -> pack_check H f' pos = Ok true ->
    forall v v', read_raw f pos (ph_check_pos h) = Ok v -> read_raw f' pos (ph_check_pos h) = Ok v' ->
    run f (check_info_p pos h) <> Ok None ->
    H v' = H v.
Proof. exact passing_check_on_altered_is_collision. Qed.

Theorem C04_altered_covered_bytes_fail_the_check :
  forall H f f' pos h v v',
    run f (read_header_p pos) = Ok h -> run f' (read_header_p pos) = Ok h ->
    run f' (check_info_p pos h) = run f (check_info_p pos h) ->
    run f (check_info_p pos h) <> Ok None ->
    pack_check H f pos = Ok true ->
    read_raw f pos (ph_check_pos h) = Ok v -> read_raw f' pos (ph_check_pos h) = Ok v' ->
    v' <> v -> (H v' = H v -> v' = v) ->
    pack_check H f' pos <> Ok true.
Proof. exact altered_covered_bytes_fail_check. Qed.

(* damage within 4 consecutive bytes that hits the pack header or the check block itself is
   answered by an error, never by a different header / digest *)
Theorem C04_damage_in_header_or_check_block :
  forall f f' pos h ci,
    burst4 f f' -> run f (read_header_p pos) = Ok h -> run f (check_info_p pos h) = Ok ci ->
    (run f' (read_header_p pos) = Ok h \/ exists e, run f' (read_header_p pos) = Err e) /\
    (run f' (check_info_p pos h) = Ok ci \/ exists e, run f' (check_info_p pos h) = Err e).
Proof. exact burst_in_metadata_blocks. Qed.

(* the only manifest bytes exempt from its check are location + CRC of every pack description *)
Theorem C04_manifest_exempt_bytes_exactly :
  forall packs_off n p,
    masked packs_off n p = true <->
    exists k, k < n /\ packs_off + k * 256 + 38 <= p < packs_off + (k + 1) * 256.
Proof. exact mask_exact. Qed.

(* the container check is the conjunction over the packs that are present *)
Theorem C04_container_check_is_a_conjunction :
  forall rs, all_checks rs = Ok true <-> Forall (fun r => r = Ok true) rs.
Proof. exact all_checks_true. Qed.

(* the verdict does not depend on where the pack lies: embedded behind any prefix (one-file packaging, concat in any
   order, a container appended to another file) the check of a pack answers what it answers on the pack alone *)
Theorem C04_check_is_translation_invariant :
  forall (H : list N -> list N) X f pos, pack_check H (X ++ f) (lenN X + pos)%N = pack_check H f pos.
Proof. exact pack_check_is_translation_invariant. Qed.

Print Assumptions C04_created_pack_verifies.
Print Assumptions C04_passing_check_on_altered_bytes_is_a_collision.
Print Assumptions C04_altered_covered_bytes_fail_the_check.
Print Assumptions C04_damage_in_header_or_check_block.
Print Assumptions C04_manifest_exempt_bytes_exactly.
Print Assumptions C04_container_check_is_a_conjunction.
Print Assumptions C04_check_is_translation_invariant.
