(* C16 — The compression hint decides how a content is stored; identical contents added through
   the deduplicating adder are stored once.  Proofs in Content/Cluster.v. *)
From Coq Require Import List Arith NArith Bool.
From Jbk Require Import Content.Cluster Content.Pack.
Import ListNotations.

(* For every insertion sequence, every mix of hints and every answer of the entropy test: the
   cluster content i is stored in is compressed exactly when the pack compresses and the hint says
   so (hint Yes; or hint Detect and the test said compressible). *)
Theorem C16_storage_kind :
  forall (A : Type) (len : A -> N) (pack_compresses : bool) (ins : list (A * hint * bool)) i x h d,
    nth_error ins i = Some (x, h, d) ->
    let ops := map (fun o => (fst (fst o), decide pack_compresses (snd (fst o)) (snd o))) ins in
    let s := fold_left (add A len) ops (init A) in
    exists inf c, nth_error (infos A s) i = Some inf /\ nth_error (cs A s) (fst inf) = Some c /\
                  fst c = decide pack_compresses h d.
Proof.
  intros A len pc ins i x h d H ops s.
  apply (adds_invK A len ops i x (decide pc h d)).
  unfold ops. rewrite nth_error_map, H. reflexivity.
Qed.

Theorem C16_hint_no_is_raw : forall pc d, decide pc HNo d = false.
Proof. exact decide_no. Qed.
Theorem C16_pack_without_compression_is_raw : forall h d, decide false h d = false.
Proof. exact decide_pack_none. Qed.
Theorem C16_hint_yes_is_compressed : forall d, decide true HYes d = true.
Proof. exact decide_yes. Qed.

(* an uncompressed cluster stores its blobs verbatim: blob j is the byte range between consecutive
   offsets of the cluster data, which is the plain concatenation of the blobs *)
Theorem C16_raw_cluster_verbatim :
  forall (blobs : list (list N)) j b, nth_error blobs j = Some b ->
    blob_at (0%N :: ends (map Base.Parser.lenN blobs)) j (concat blobs) = b.
Proof. exact blob_from_offsets. Qed.

(* Deduplicating adder: one step from any state satisfying the invariant.  The address handed
   back designates a stored content with the same key (the content itself, or an explicit hash
   collision), and the pack grows only when the key was not seen before. *)
Theorem C16_dedup_step :
  forall (A K : Type) (len : A -> N) (key : A -> K) (keqb : K -> K -> bool),
    (forall a b, keqb a b = true <-> a = b) ->
    forall s stored x comp,
      DInv A K key keqb s stored ->
      let (s', i) := cached_add A K len key keqb s (x, comp) in
      exists stored', DInv A K key keqb s' stored' /\
        (exists y, nth_error stored' i = Some y /\ key y = key x) /\
        (lookup K keqb (key x) (cache A K s) <> None -> stored' = stored /\ s' = s) /\
        (lookup K keqb (key x) (cache A K s) = None -> stored' = stored ++ [x] /\ i = length stored).
Proof. intros A K len key keqb Hk s stored x comp. exact (cached_add_inv A K len key keqb Hk s stored x comp). Qed.

Print Assumptions C16_storage_kind.
Print Assumptions C16_hint_no_is_raw.
Print Assumptions C16_pack_without_compression_is_raw.
Print Assumptions C16_hint_yes_is_compressed.
Print Assumptions C16_raw_cluster_verbatim.
Print Assumptions C16_dedup_step.
