(* C06 — Reading a damaged or truncated file returns a value or an error, never crashes.  PARTIAL.
   Panics, aborts, faults and hangs are behaviours of the Rust runtime that a Gallina model cannot
   exhibit (every Gallina function terminates with a value).  What the model carries: every read
   the reader model performs is bounds-checked against the file (no read outside the file ever
   succeeds), and on truncated, extended or burst-damaged files every structure query returns the
   pristine answer or an error.  The crash-freedom of the implementation itself is observed: every
   damaged variant is read in a child process, debug and release builds, with a time limit. *)
From Coq Require Import List Arith NArith.
From Jbk Require Import Base.ListExtra Base.Bytes Base.Crc Base.Parser Base.Prog Container.Damage.
Import ListNotations.

Theorem C06_reads_are_in_bounds :
  forall f off size d, read_block f off size = Ok d -> (off + size + 4 <= lenN f)%N /\ length d = N.to_nat size.
Proof. exact reads_in_bounds. Qed.

Theorem C06_truncated_file_same_or_error :
  forall (A : Type) (p : prog A) f k a,
    structural p -> run f p = Ok a -> run (firstn k f) p = Ok a \/ exists e, run (firstn k f) p = Err e.
Proof. intros A p f k a. exact (truncation_detected p f k a). Qed.

Theorem C06_extended_file_reads_the_same :
  forall (A : Type) (p : prog A) f g a, structural p -> run f p = Ok a -> run (f ++ g) p = Ok a.
Proof. intros A p f g a. exact (extension_invisible p f g a). Qed.

Theorem C06_burst_damage_same_or_error :
  forall (A : Type) (p : prog A) f f' a,
    structural p -> burst4 f f' -> run f p = Ok a -> run f' p = Ok a \/ exists e, run f' p = Err e.
Proof. intros A p f f' a. exact (burst4_detected p f f' a). Qed.

Print Assumptions C06_reads_are_in_bounds.
Print Assumptions C06_truncated_file_same_or_error.
Print Assumptions C06_extended_file_reads_the_same.
Print Assumptions C06_burst_damage_same_or_error.
