(* C12 — Rewriting a pack location changes only that location; the manifest stays valid.
   Final statements only; proofs in Manifest/SetLocationProofs.v, model in Manifest/SetLocation.v
   (tools::set_location on the bytes of a file, standalone manifest or manifest inside a container
   pack at any offset). *)
From Coq Require Import List Arith NArith.
From Jbk Require Import Base.ListExtra Base.Bytes Base.Crc Base.Parser Base.Prog Format.Structs
  Manifest.Mask Manifest.SetLocation Manifest.SetLocationProofs.
Import ListNotations.
Open Scope N_scope.

(* One successful rewrite.  [layout_okb] is the executable well-formedness of the manifest's
   placement (the blocks read to find the manifest do not overlap the pack-info table, which lies
   inside the checked range, inside the file); the check evaluates it on every real file. *)
Theorem C12_one_rewrite :
  forall (f u loc f' : list N) k old,
    wf_bytes f -> wf_bytes loc -> wf_loc loc -> layout_okb f = true ->
    set_location f u loc = Ok (Some (f', k, old)) ->
    exists m j pi,
      let g := ml_lo m + 256 * N.of_nat j in
      run f locate_manifest_p = Ok m /\ (j < N.to_nat (ml_count m))%nat /\
      run f (read_info_p g) = Ok pi /\ list_eqb (pi_uuid pi) u = true /\ k = pi_kind pi /\ old = pi_loc pi /\
      (* only the 218 location+CRC bytes of that pack info may change *)
      length f' = length f /\
      (forall p, (p < N.to_nat g \/ N.to_nat g + 256 <= p)%nat -> nth_error f' p = nth_error f p) /\
      sub (N.to_nat g) 38 f' = sub (N.to_nat g) 38 f /\
      (* the new location is what is read back, the rest of that description is kept *)
      run f' (read_info_p g) = Ok (set_loc pi loc) /\
      (* every other pack description reads the same *)
      (forall j', (j' < N.to_nat (ml_count m))%nat -> j' <> j ->
         run f' (read_info_p (ml_lo m + 256 * N.of_nat j')) = run f (read_info_p (ml_lo m + 256 * N.of_nat j'))) /\
      (* the manifest still opens at the same place and its global check is unchanged, for any hash *)
      run f' locate_manifest_p = Ok m /\ manifest_view f' = manifest_view f /\
      (forall H, manifest_check H f' = manifest_check H f) /\
      (* and the result can be rewritten again *)
      wf_bytes f' /\ layout_okb f' = true.
Proof.
  intros f u loc f' k old Wf Wl Ll LO S.
  destruct (set_location_found f u loc f' k old S) as (m & j & pi & Hm & Hj & Hr & He & Hk & Ho & ->).
  exists m, j, pi. cbv zeta.
  repeat split; try assumption.
  - apply (rw_length f loc m j pi); assumption.
  - apply (rw_frame f loc m j pi); assumption.
  - apply (rw_fixed_unchanged f loc m j pi); assumption.
  - apply (rw_readback f loc m j pi); assumption.
  - apply (rw_others f loc m j pi); assumption.
  - apply (rw_locate f loc m j pi); assumption.
  - apply (rw_view f loc m j pi); assumption.
  - apply (rw_check f loc m j pi); assumption.
  - apply (rw_wf f loc m j pi); assumption.
  - apply (rw_layout f loc m j pi); assumption.
Qed.

(* Any number of rewrites, any admissible strings, any mix of listed and unknown packs: the file
   keeps its length, the manifest is found with the same headers, the global check hashes the same
   bytes and answers the same, and every byte outside the pack-info table is untouched. *)
Theorem C12_any_sequence :
  forall (f0 : list N) ops f'',
    wf_bytes f0 -> layout_okb f0 = true ->
    Forall (fun o => wf_bytes (snd o) /\ wf_loc (snd o)) ops ->
    set_locations f0 ops = Ok f'' ->
    wf_bytes f'' /\ layout_okb f'' = true /\ length f'' = length f0 /\
    run f'' locate_manifest_p = run f0 locate_manifest_p /\
    manifest_view f'' = manifest_view f0 /\
    (forall H, manifest_check H f'' = manifest_check H f0) /\
    forall m, run f0 locate_manifest_p = Ok m ->
      forall p, (p < N.to_nat (ml_lo m) \/ N.to_nat (ml_hi m) <= p)%nat -> nth_error f'' p = nth_error f0 p.
Proof.
  intros f0 ops f'' W L Hops S.
  exact (set_locations_inv f0 ops f0 f'' (Inv_refl f0 W L) Hops S).
Qed.

(* Naming a pack that is not in the manifest changes nothing (no new file is produced), and this
   answer is given only when no pack description carries that uuid. *)
Theorem C12_unknown_uuid :
  forall f u loc, set_location f u loc = Ok None ->
    exists m, run f locate_manifest_p = Ok m /\
      forall j, (j < N.to_nat (ml_count m))%nat ->
        exists pi, run f (read_info_p (ml_lo m + 256 * N.of_nat j)) = Ok pi /\ list_eqb (pi_uuid pi) u = false.
Proof. exact set_location_unknown. Qed.

(* The exempt bytes of the manifest check are exactly location+CRC of each pack info. *)
Theorem C12_mask_exact :
  forall packs_off n p,
    masked packs_off n p = true <->
    exists k, (k < n /\ packs_off + k * 256 + 38 <= p < packs_off + (k + 1) * 256)%nat.
Proof. exact mask_exact. Qed.

(* The reader recovers exactly the pack description that was serialised (any location <= 213 bytes). *)
Theorem C12_pack_info_roundtrip :
  forall p r, wf_pack_info p -> p_pack_info (ser_pack_info p ++ r) = Ok (p, r).
Proof. exact p_pack_info_ser. Qed.

Print Assumptions C12_one_rewrite.
Print Assumptions C12_any_sequence.
Print Assumptions C12_unknown_uuid.
Print Assumptions C12_mask_exact.
Print Assumptions C12_pack_info_roundtrip.
