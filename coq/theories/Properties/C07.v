(* C07 — Concurrent readers of one container always get exactly the stored bytes.  PARTIAL.
   Proved for the length-publication protocol of bases/io/compression.rs as a transition system
   (Conc/SyncVec.v): cell-granular decoder writes, unsynchronised reader copies, any number of
   readers, any chunking, any interleaving, decoder failure at any point.  Not expressible in the
   model: data-race freedom in the sense of the Rust memory model for the raw buffer, the soundness
   of `unsafe impl Send/Sync`, and the LRU cache / RwLock / OnceLock implementations themselves. *)
From Coq Require Import List Arith NArith Bool.
From Jbk Require Import Conc.SyncVec.
Import ListNotations.

(* every byte a reader obtains through its slice is a finished cell and is the stored byte *)
Theorem C07_reads_return_stored_bytes :
  forall (A : Type) (data : list A) s i e len k,
    reach data s -> nth_error (rds s) i = Some (Sliced e len) -> k < len ->
    k < length (cells s) /\ nth_error (cells s) k = nth_error data k /\ nth_error data k <> None.
Proof. intros A data s i e len k. exact (slice_exact data s i e len k). Qed.

(* the range a reader asked for lies inside the slice it gets: no out-of-range access *)
Theorem C07_slice_covers_request :
  forall (A : Type) (data : list A) s i e len,
    reach data s -> nth_error (rds s) i = Some (Sliced e len) -> e <= len <= length data.
Proof. intros A data s i e len. exact (slice_covers_request data s i e len). Qed.

(* the decoder writes only at an index above every reader's slice *)
Theorem C07_writer_and_readers_never_share_a_cell :
  forall (A : Type) (data : list A) s b i e len,
    reach data s -> nth_error data (length (cells s)) = Some b ->
    nth_error (rds s) i = Some (Sliced e len) -> len <= length (cells s).
Proof. intros A data s b i e len. exact (writer_disjoint_from_readers data s b i e len). Qed.

(* no lost wake-up, no deadlock: a sleeping reader's predicate is false, and the decoder can move *)
Theorem C07_sleeper_predicate_false :
  forall (A : Type) (data : list A) s i e,
    reach data s -> nth_error (rds s) i = Some (Sleeping e) -> pub s < e <= length data /\ failed s = false.
Proof. intros A data s i e. exact (sleeper_predicate_false data s i e). Qed.
Theorem C07_nobody_sleeps_at_the_end :
  forall (A : Type) (data : list A) s i e,
    reach data s -> (pub s = length data \/ failed s = true) -> nth_error (rds s) i <> Some (Sleeping e).
Proof. intros A data s i e. exact (no_sleeper_at_end data s i e). Qed.
Theorem C07_sleeper_implies_decoder_enabled :
  forall (A : Type) (data : list A) s i e,
    reach data s -> nth_error (rds s) i = Some (Sleeping e) -> exists s', wstep data s s'.
Proof. intros A data s i e. exact (sleeper_implies_writer_enabled data s i e). Qed.
Theorem C07_publish_wakes :
  forall (A : Type) (data : list A) s i e,
    nth_error (rds s) i = Some (Sleeping e) -> e <= length (cells s) -> failed s = false -> pub s < length (cells s) ->
    exists s', wstep data s s' /\ nth_error (rds s') i = Some (Passed e).
Proof. intros A data s i e. exact (publish_wakes data s i e). Qed.
Theorem C07_failure_wakes :
  forall (A : Type) (data : list A) s i e,
    nth_error (rds s) i = Some (Sleeping e) -> failed s = false -> pub s < length data ->
    exists s', wstep data s s' /\ nth_error (rds s') i = Some (Errored e).
Proof. intros A data s i e. exact (fail_wakes data s i e). Qed.

(* termination: the decoder takes a bounded number of steps under every schedule; readers never delay it;
   a reader that is not asleep always has a step of its own *)
Theorem C07_decoder_terminates :
  forall (A : Type) (data : list A) s s', Inv data s -> wstep data s s' -> wmeasure data s' < wmeasure data s.
Proof. intros A data s s'. exact (writer_terminates data s s'). Qed.
Theorem C07_readers_do_not_delay_decoder :
  forall (A : Type) (data : list A) s s', rstep data s s' -> wmeasure data s' = wmeasure data s.
Proof. intros A data s s'. exact (readers_do_not_delay_writer data s s'). Qed.
Theorem C07_reader_enabled_unless_sleeping :
  forall (A : Type) (data : list A) s i r, nth_error (rds s) i = Some r ->
    match r with Sleeping _ => True | _ => exists s', rstep data s s' end.
Proof. intros A data s i r. exact (reader_enabled_unless_sleeping data s i r). Qed.

(* the tie to real runs: an event trace accepted by the recognizer is a run of the transition system *)
Theorem C07_accepted_trace_is_a_run :
  forall (A : Type) (data : list A) n ls a,
    execs (N.of_nat (length data)) (ainit n) ls = Some a -> exists s, reach data s /\ Rel s a.
Proof. intros A data n ls a. exact (accepted_trace_is_a_run data n ls a). Qed.
Theorem C07_accepted_slices_safe :
  forall (A : Type) (data : list A) n ls a t e len,
    execs (N.of_nat (length data)) (ainit n) ls = Some a -> nth_error (ar a) t = Some (ASliced e len) ->
    (e <= len)%N /\ (len <= aw a)%N /\ (aw a <= N.of_nat (length data))%N.
Proof. intros A data n ls a t e len. exact (accepted_slices_safe data n ls a t e len). Qed.

Print Assumptions C07_reads_return_stored_bytes.
Print Assumptions C07_slice_covers_request.
Print Assumptions C07_writer_and_readers_never_share_a_cell.
Print Assumptions C07_sleeper_predicate_false.
Print Assumptions C07_nobody_sleeps_at_the_end.
Print Assumptions C07_sleeper_implies_decoder_enabled.
Print Assumptions C07_publish_wakes.
Print Assumptions C07_failure_wakes.
Print Assumptions C07_decoder_terminates.
Print Assumptions C07_readers_do_not_delay_decoder.
Print Assumptions C07_reader_enabled_unless_sleeping.
Print Assumptions C07_accepted_trace_is_a_run.
Print Assumptions C07_accepted_slices_safe.
