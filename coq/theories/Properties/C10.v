(* C10 — A container reads the same however its packs are packaged (lookup part proved; the
   equality of whole logical dumps across packagings is checked on real containers). *)
From Coq Require Import List NArith.
From Jbk Require Import Base.Parser Base.Prog Format.Structs Manifest.SetLocation Container.Reader Container.Proofs Container.Embed
  Container.EmbedPacks Content.Pack Dir.Layout.
Import ListNotations.

(* packs are looked for by identity inside the file at hand first ... *)
Theorem C10_inside_the_file_first :
  forall main packs fs uuid loc pos size,
    find_uuid uuid packs = Some (pos, size) ->
    locate main packs fs uuid loc = Ok (LFound main pos size).
Proof. exact locate_inside_first. Qed.

(* ... and then through their recorded location, still by identity *)
Theorem C10_found_pack_has_the_requested_identity :
  forall main packs fs uuid loc file pos size,
    locate main packs fs uuid loc = Ok (LFound file pos size) ->
    (file = main /\ In (uuid, (pos, size)) packs) \/
    (exists ps, fs_find loc fs = Some file /\ open_as_container file = Ok ps /\ In (uuid, (pos, size)) ps).
Proof. exact locate_found_has_identity. Qed.

(* embedded at the end of another file: for EVERY prefix X that does not itself start with a readable
   pack header and every pack file C, the blind open of X ++ C finds exactly the packs of C, each
   |X| bytes further *)
Theorem C10_embedded_at_the_end_of_another_file :
  forall X C h, pack_file C h -> no_header_at_start (X ++ C) ->
    open_as_container (X ++ C) = res_map (map (shift_ref (lenN X))) (open_as_container C).
Proof. exact open_embedded. Qed.

(* reader programs are translation invariant: the same reads, |X| bytes further, give the same answer *)
Theorem C10_reader_programs_are_translation_invariant :
  forall (A B : Type) (g : A -> B) X f p p', shifted (lenN X) g p p' -> run (X ++ f) p' = res_map g (run f p).
Proof. intros A B g X f p p'. exact (run_shifted g X f p p'). Qed.
Theorem C10_container_pack_listing_is_translation_invariant :
  forall k base, shifted k (map (shift_ref k)) (container_new_p base) (container_new_p (k + base)).
Proof. exact shifted_container_new. Qed.
Theorem C10_lookup_commutes_with_embedding :
  forall k u ps, find_uuid u (map (shift_ref k) ps) = option_map (fun r => (k + fst r, snd r)%N) (find_uuid u ps).
Proof. exact find_uuid_shift. Qed.

(* the packs inside: wherever a content pack, a directory pack or the manifest lies, it decodes to the same
   structure and the same bytes (positions recorded in the answer move with the pack) *)
Theorem C10_content_read_is_translation_invariant :
  forall X f base i,
    run (X ++ f) (pbind (cp_open_p (lenN X + base)) (fun p => cp_read_p p i)) =
    res_map (shift_read (lenN X)) (run f (pbind (cp_open_p base) (fun p => cp_read_p p i))).
Proof. exact content_read_is_translation_invariant. Qed.
Theorem C10_embedded_content_reads_the_same_bytes :
  forall X f base i c b off len d,
    run f (pbind (cp_open_p base) (fun p => cp_read_p p i)) = Ok (Some (c, b, CRaw off len, Some d)) ->
    run (X ++ f) (pbind (cp_open_p (lenN X + base)) (fun p => cp_read_p p i)) = Ok (Some (c, b, CRaw (lenN X + off) len, Some d)).
Proof. exact embedded_content_reads_the_same_bytes. Qed.
Theorem C10_directory_queries_are_translation_invariant :
  forall X f base,
  (forall i, run (X ++ f) (pbind (dp_open_p (lenN X + base)) (fun d => dp_index_p d i)) =
             run f (pbind (dp_open_p base) (fun d => dp_index_p d i))) /\
  (forall i, run (X ++ f) (pbind (dp_open_p (lenN X + base)) (fun d => dp_entry_store_p d i)) =
             run f (pbind (dp_open_p base) (fun d => dp_entry_store_p d i))) /\
  (forall i, run (X ++ f) (pbind (dp_open_p (lenN X + base)) (fun d => dp_value_store_p d i)) =
             run f (pbind (dp_open_p base) (fun d => dp_value_store_p d i))).
Proof. exact directory_queries_are_translation_invariant. Qed.
Theorem C10_manifest_open_is_translation_invariant :
  forall X f pos,
    run (X ++ f) (manifest_open_p (lenN X + pos)) = res_map (shift_manifest (lenN X)) (run f (manifest_open_p pos)).
Proof. exact manifest_open_is_translation_invariant. Qed.

Print Assumptions C10_inside_the_file_first.
Print Assumptions C10_embedded_at_the_end_of_another_file.
Print Assumptions C10_reader_programs_are_translation_invariant.
Print Assumptions C10_container_pack_listing_is_translation_invariant.
Print Assumptions C10_lookup_commutes_with_embedding.
Print Assumptions C10_found_pack_has_the_requested_identity.
Print Assumptions C10_content_read_is_translation_invariant.
Print Assumptions C10_embedded_content_reads_the_same_bytes.
Print Assumptions C10_directory_queries_are_translation_invariant.
Print Assumptions C10_manifest_open_is_translation_invariant.
