(* C10 — A container reads the same however its packs are packaged (lookup part proved; the
   equality of whole logical dumps across packagings is checked on real containers). *)
From Coq Require Import List NArith.
From Jbk Require Import Base.Parser Format.Structs Container.Reader Container.Proofs.
Import ListNotations.

(* packs are looked for by identity inside the file at hand first ... *)
Theorem C10_inside_the_file_first :
  forall main packs fs uuid loc pos size,
    find_uuid uuid packs = Some (pos, size) ->
    locate main packs fs uuid loc = Ok (LFound main pos size).
Proof. exact locate_inside_first. Qed.

(* ... and then through their recorded location, still by identity *)
Theorem C10_found_pack_has_the_requested_identity :
  forall main packs fs uuid loc file pos size,
    locate main packs fs uuid loc = Ok (LFound file pos size) ->
    (file = main /\ In (uuid, (pos, size)) packs) \/
    (exists ps, fs_find loc fs = Some file /\ open_as_container file = Ok ps /\ In (uuid, (pos, size)) ps).
Proof. exact locate_found_has_identity. Qed.

Print Assumptions C10_inside_the_file_first.
Print Assumptions C10_found_pack_has_the_requested_identity.
