(* C10 — A container reads the same however its packs are packaged (lookup part proved; the
   equality of whole logical dumps across packagings is checked on real containers). *)
From Coq Require Import List NArith.
From Jbk Require Import Base.Parser Base.Prog Format.Structs Manifest.SetLocation Container.Reader Container.Proofs Container.Embed
  Container.EmbedPacks Content.Pack Dir.Layout Container.ContainerFile
  Base.Bytes Content.FilePack Container.EndToEnd.
Import ListNotations.

(* packs are looked for by identity inside the file at hand first ... *)
Theorem C10_inside_the_file_first :
  forall main packs fs uuid loc pos size,
    find_uuid uuid packs = Some (pos, size) ->
    locate main packs fs uuid loc = Ok (LFound main pos size).
Proof. exact locate_inside_first. Qed.

(* ... and then through their recorded location, still by identity *)
Theorem C10_found_pack_has_the_requested_identity :
  forall main packs fs uuid loc file pos size,
    locate main packs fs uuid loc = Ok (LFound file pos size) ->
    (file = main /\ In (uuid, (pos, size)) packs) \/
    (exists ps, fs_find loc fs = Some file /\ open_as_container file = Ok ps /\ In (uuid, (pos, size)) ps).
Proof. exact locate_found_has_identity. Qed.

(* embedded at the end of another file: for EVERY prefix X that does not itself start with a readable
   pack header and every pack file C, the blind open of X ++ C finds exactly the packs of C, each
   |X| bytes further *)
Theorem C10_embedded_at_the_end_of_another_file :
  forall X C h, pack_file C h -> no_header_at_start (X ++ C) ->
    open_as_container (X ++ C) = res_map (map (shift_ref (lenN X))) (open_as_container C).
Proof. exact open_embedded. Qed.

(* reader programs are translation invariant: the same reads, |X| bytes further, give the same answer *)
Theorem C10_reader_programs_are_translation_invariant :
  forall (A B : Type) (g : A -> B) X f p p', shifted (lenN X) g p p' -> run (X ++ f) p' = res_map g (run f p).
Proof. intros A B g X f p p'. exact (run_shifted g X f p p'). Qed.
Theorem C10_container_pack_listing_is_translation_invariant :
  forall k base, shifted k (map (shift_ref k)) (container_new_p base) (container_new_p (k + base)).
Proof. exact shifted_container_new. Qed.
Theorem C10_lookup_commutes_with_embedding :
  forall k u ps, find_uuid u (map (shift_ref k) ps) = option_map (fun r => (k + fst r, snd r)%N) (find_uuid u ps).
Proof. exact find_uuid_shift. Qed.

(* the packs inside: wherever a content pack, a directory pack or the manifest lies, it decodes to the same
   structure and the same bytes (positions recorded in the answer move with the pack) *)
Theorem C10_content_read_is_translation_invariant :
  forall X f base i,
    run (X ++ f) (pbind (cp_open_p (lenN X + base)) (fun p => cp_read_p p i)) =
    res_map (shift_read (lenN X)) (run f (pbind (cp_open_p base) (fun p => cp_read_p p i))).
Proof. exact content_read_is_translation_invariant. Qed.
Theorem C10_embedded_content_reads_the_same_bytes :
  forall X f base i c b off len d,
    run f (pbind (cp_open_p base) (fun p => cp_read_p p i)) = Ok (Some (c, b, CRaw off len, Some d)) ->
    run (X ++ f) (pbind (cp_open_p (lenN X + base)) (fun p => cp_read_p p i)) = Ok (Some (c, b, CRaw (lenN X + off) len, Some d)).
Proof. exact embedded_content_reads_the_same_bytes. Qed.
Theorem C10_directory_queries_are_translation_invariant :
  forall X f base,
  (forall i, run (X ++ f) (pbind (dp_open_p (lenN X + base)) (fun d => dp_index_p d i)) =
             run f (pbind (dp_open_p base) (fun d => dp_index_p d i))) /\
  (forall i, run (X ++ f) (pbind (dp_open_p (lenN X + base)) (fun d => dp_entry_store_p d i)) =
             run f (pbind (dp_open_p base) (fun d => dp_entry_store_p d i))) /\
  (forall i, run (X ++ f) (pbind (dp_open_p (lenN X + base)) (fun d => dp_value_store_p d i)) =
             run f (pbind (dp_open_p base) (fun d => dp_value_store_p d i))).
Proof. exact directory_queries_are_translation_invariant. Qed.
Theorem C10_manifest_open_is_translation_invariant :
  forall X f pos,
    run (X ++ f) (manifest_open_p (lenN X + pos)) = res_map (shift_manifest (lenN X)) (run f (manifest_open_p pos)).
Proof. exact manifest_open_is_translation_invariant. Qed.

(* through the file: for EVERY file holding a container pack whose blocks are placed where the format says, the reader
   lists exactly the embedded packs, and a lookup by identity finds each of them where the writer recorded it —
   whatever the order in which the packs were concatenated *)
Theorem C10_container_lists_its_packs :
  forall f base h ch locs, container_at f base h ch locs ->
    run f (container_new_p base) = Ok (map (fun l => (pl_uuid l, (base + pl_pos l, pl_size l))%N) locs).
Proof. exact container_lists_its_packs. Qed.
Theorem C10_embedded_pack_is_found_whatever_the_order :
  forall f base h ch locs i l, container_at f base h ch locs -> nth_error locs i = Some l ->
    (forall j l', j < i -> nth_error locs j = Some l' -> list_eqb (pl_uuid l') (pl_uuid l) = false) ->
    exists ps, run f (container_new_p base) = Ok ps /\ find_uuid (pl_uuid l) ps = Some ((base + pl_pos l)%N, pl_size l).
Proof. exact embedded_pack_is_found. Qed.

(* the same bytes however packaged: Container::get_bytes returns the stored blob when the content pack is embedded in
   the file at hand, and the SAME blob when the pack lies in a sibling file at its recorded location (alone or inside
   another container) — same conclusion, two packagings *)
Theorem C10_content_of_an_embedded_pack :
  forall c fs pack_id info pos size h ch infos clusters i k j cl so b,
  find (fun p => (pi_id p =? pack_id)%N) (mf_packs (ct_manifest c)) = Some info ->
  find_uuid (pi_uuid info) (ct_packs c) = Some (pos, size) ->
  content_pack_at (ct_main c) pos h ch infos clusters ->
  nth_error infos i = Some (N.of_nat k, N.of_nat j) ->
  nth_error clusters k = Some (cl, so) -> cl_comp cl = 0%N -> nth_error (cl_blobs cl) j = Some b ->
  (N.of_nat j < 2 ^ 12)%N -> (N.of_nat k < 2 ^ 20)%N ->
  exists off, get_content c fs pack_id (N.of_nat i) = Ok (CFound (N.of_nat k) (N.of_nat j) (CRaw off (lenN b)) (Some b)).
Proof.
  intros c fs pack_id info pos size h ch infos clusters i k j cl so b L.
  exact (embedded_content_reads_back c fs pack_id info L pos size h ch infos clusters i k j cl so b).
Qed.
Theorem C10_content_of_a_pack_in_a_sibling_file :
  forall c fs pack_id info file ps pos size h ch infos clusters i k j cl so b,
  find (fun p => (pi_id p =? pack_id)%N) (mf_packs (ct_manifest c)) = Some info ->
  find_uuid (pi_uuid info) (ct_packs c) = None ->
  fs_find (pi_loc info) fs = Some file -> open_as_container file = Ok ps ->
  find_uuid (pi_uuid info) ps = Some (pos, size) ->
  content_pack_at file pos h ch infos clusters ->
  nth_error infos i = Some (N.of_nat k, N.of_nat j) ->
  nth_error clusters k = Some (cl, so) -> cl_comp cl = 0%N -> nth_error (cl_blobs cl) j = Some b ->
  (N.of_nat j < 2 ^ 12)%N -> (N.of_nat k < 2 ^ 20)%N ->
  exists off, get_content c fs pack_id (N.of_nat i) = Ok (CFound (N.of_nat k) (N.of_nat j) (CRaw off (lenN b)) (Some b)).
Proof.
  intros c fs pack_id info file ps pos size h ch infos clusters i k j cl so b L.
  exact (sibling_content_reads_back c fs pack_id info L file ps pos size h ch infos clusters i k j cl so b).
Qed.

Print Assumptions C10_inside_the_file_first.
Print Assumptions C10_embedded_at_the_end_of_another_file.
Print Assumptions C10_reader_programs_are_translation_invariant.
Print Assumptions C10_container_pack_listing_is_translation_invariant.
Print Assumptions C10_lookup_commutes_with_embedding.
Print Assumptions C10_found_pack_has_the_requested_identity.
Print Assumptions C10_content_read_is_translation_invariant.
Print Assumptions C10_embedded_content_reads_the_same_bytes.
Print Assumptions C10_directory_queries_are_translation_invariant.
Print Assumptions C10_manifest_open_is_translation_invariant.
Print Assumptions C10_container_lists_its_packs.
Print Assumptions C10_embedded_pack_is_found_whatever_the_order.
Print Assumptions C10_content_of_an_embedded_pack.
Print Assumptions C10_content_of_a_pack_in_a_sibling_file.
