(* C14 — Written bytes follow the documented layout; old files keep reading the same.
   The theorems are the codec round trips of every structure of the format (the model reader used
   as the independent decoder is built from exactly these parsers); the decoder itself is run on
   every generated container and on the committed reference corpus by the check. *)
From Coq Require Import List Arith NArith.
From Jbk Require Import Base.ListExtra Base.Bytes Base.Crc Base.Parser Format.Structs Format.Roundtrips
  Content.Pack Dir.Layout Dir.Descr Dir.Variants Manifest.SetLocation Container.Canon
  Dir.EntryStore Dir.EntryStoreVariants Dir.DirFilePack.
Import ListNotations.

Theorem C14_pack_header : forall h r, wf_pack_header h -> p_pack_header (ser_pack_header h ++ r) = Ok (h, r).
Proof. exact p_pack_header_ser. Qed.
Theorem C14_pack_header_is_60_bytes : forall h, wf_pack_header h -> length (ser_pack_header h) = 60.
Proof. exact ser_pack_header_length. Qed.
Theorem C14_container_header : forall h r,
  (ch_locators_pos h < 2 ^ 64)%N -> (ch_count h < 2 ^ 16)%N -> length (ch_free h) = 24 ->
  p_container_header (ser_container_header h ++ r) = Ok (h, r).
Proof. exact p_container_header_ser. Qed.
Theorem C14_pack_locator : forall p r,
  length (pl_uuid p) = 16 -> (pl_size p < 2 ^ 64)%N -> (pl_pos p < 2 ^ 64)%N ->
  p_pack_locator (ser_pack_locator p ++ r) = Ok (p, r).
Proof. exact p_pack_locator_ser. Qed.
Theorem C14_manifest_header : forall h r,
  (mh_count h < 2 ^ 16)%N -> wf_sized_offset (mh_vs h) -> length (mh_free h) = 24 ->
  p_manifest_header (ser_manifest_header h ++ r) = Ok (h, r).
Proof. exact p_manifest_header_ser. Qed.
Theorem C14_pack_info : forall p r, wf_pack_info p -> p_pack_info (ser_pack_info p ++ r) = Ok (p, r).
Proof. exact p_pack_info_ser. Qed.
Theorem C14_content_pack_header : forall h r,
  (cp_content_pos h < 2 ^ 64)%N -> (cp_cluster_pos h < 2 ^ 64)%N -> (cp_content_count h < 2 ^ 32)%N ->
  (cp_cluster_count h < 2 ^ 32)%N -> length (cp_free h) = 24 ->
  p_cp_header (ser_cp_header h ++ r) = Ok (h, r).
Proof. exact p_cp_header_ser. Qed.
Theorem C14_directory_pack_header : forall h r,
  (dh_index_pos h < 2 ^ 64)%N -> (dh_entry_pos h < 2 ^ 64)%N -> (dh_value_pos h < 2 ^ 64)%N ->
  (dh_index_count h < 2 ^ 32)%N -> (dh_entry_count h < 2 ^ 32)%N -> (dh_value_count h < 256)%N -> length (dh_free h) = 24 ->
  p_dir_header (ser_dir_header h ++ r) = Ok (h, r).
Proof. exact p_dir_header_ser. Qed.
Theorem C14_index_header : forall h r,
  (ix_store h < 2 ^ 32)%N -> (ix_count h < 2 ^ 32)%N -> (ix_offset h < 2 ^ 32)%N -> length (ix_free h) = 4 ->
  (ix_prop h < 256)%N -> wf_name (ix_name h) ->
  p_index_header (ser_index_header h ++ r) = Ok (h, r).
Proof. exact p_index_header_ser. Qed.
Theorem C14_sized_offset : forall s r, wf_sized_offset s -> p_sized_offset (ser_sized_offset s ++ r) = Ok (s, r).
Proof. exact sized_offset_roundtrip. Qed.
Theorem C14_content_info : forall cluster blob, (blob < 2 ^ 12)%N -> (cluster < 2 ^ 20)%N ->
  dec_content_info (le_val (ser_content_info cluster blob)) = (cluster, blob).
Proof. exact content_info_rt. Qed.
Theorem C14_cluster_tail : forall comp raw lens r,
  (comp <= 3)%N -> lens <> [] -> (N.of_nat (length lens) < 65536)%N -> (raw < 2 ^ 64)%N -> (sumN lens < 2 ^ 64)%N ->
  (comp = 0%N -> raw = sumN lens) ->
  p_tail (ser_tail comp raw lens ++ r) =
    Ok ({| t_comp := comp; t_raw := raw; t_dsize := sumN lens; t_offs := 0%N :: ends lens |}, r).
Proof. exact p_tail_ser. Qed.
Theorem C14_property_descriptor : forall p r, wf_wprop p -> p_rawprop (ser_wprop p ++ r) = Ok (raw_of p, r).
Proof. exact p_rawprop_ser. Qed.
(* value store tails, both kinds; entry store tails (layout descriptors) without and with variants *)
Theorem C14_plain_value_store_tail : forall sz r, (sz < 2 ^ 64)%N ->
  p_vs_tail (ser_vs_tail_plain sz ++ r) = Ok (VTPlain sz, r).
Proof. exact p_vs_tail_plain. Qed.
Theorem C14_indexed_value_store_tail : forall w lens r,
  1 <= w <= 8 -> lens <> [] -> (N.of_nat (length lens) <= 65535)%N -> (sumN lens < 256 ^ N.of_nat w)%N ->
  p_vs_tail (ser_vs_tail_indexed w lens ++ r) = Ok (VTIndexed (0%N :: ends lens) (sumN lens), r).
Proof. exact p_vs_tail_indexed. Qed.
Theorem C14_entry_store_tail : forall count shape r,
  (count < 2 ^ 32)%N -> length shape <= 255 -> (N.of_nat (psize (map raw_of shape)) < 65536)%N ->
  Forall wf_wprop shape -> Forall (fun w => match w with WVariantId _ => False | _ => True end) shape ->
  p_layout (ser_flat_tail count (psize (map raw_of shape)) shape ++ r) = Ok (flat_layout count shape, r).
Proof. exact flat_layout_parsed. Qed.
Theorem C14_entry_store_tail_with_variants : forall count common vshapes vsize r,
  (count < 2 ^ 32)%N -> vshapes <> [] -> length vshapes <= 255 ->
  length (common ++ variant_descrs vshapes) <= 255 ->
  (N.of_nat (psize (raws common) + 1 + vsize) < 65536)%N ->
  Forall wf_wprop (common ++ variant_descrs vshapes) -> no_vid common ->
  Forall (fun v => no_vid (snd v) /\ psize (raws (snd v)) = vsize) vshapes ->
  p_layout (ser_variant_tail count (psize (raws common) + 1 + vsize) common vshapes ++ r) =
    Ok (variant_layout count common vshapes vsize, r).
Proof. exact variant_layout_parsed. Qed.

Theorem C14_block_checksum : forall data, check_block (mk_block data) = true.
Proof. exact check_block_mk. Qed.
Theorem C14_block_read_back : forall pre data post, read_block (pre ++ mk_block data ++ post) (lenN pre) (lenN data) = Ok data.
Proof. exact read_block_placed. Qed.
Theorem C14_header_tail_mirror : forall block : list N, rev (rev block) = block.
Proof. exact mirror_roundtrip. Qed.

Print Assumptions C14_pack_header.
Print Assumptions C14_pack_header_is_60_bytes.
Print Assumptions C14_container_header.
Print Assumptions C14_pack_locator.
(* what the canonical-form test of the check establishes for a block of a real file: it is the
   specified serialisation of the value it decodes to *)
Theorem C14_canonical_block :
  forall (A : Type) (p : parser A) (ser : A -> list N) b,
    canon_block p ser b = true -> exists a, parse_all p b = Ok a /\ ser a = b.
Proof. intros A p ser b. exact (canon_block_spec p ser b). Qed.

Print Assumptions C14_canonical_block.
Print Assumptions C14_manifest_header.
Print Assumptions C14_pack_info.
Print Assumptions C14_content_pack_header.
Print Assumptions C14_directory_pack_header.
Print Assumptions C14_index_header.
Print Assumptions C14_sized_offset.
Print Assumptions C14_content_info.
Print Assumptions C14_cluster_tail.
Print Assumptions C14_property_descriptor.
Print Assumptions C14_block_checksum.
Print Assumptions C14_block_read_back.
Print Assumptions C14_header_tail_mirror.
Print Assumptions C14_plain_value_store_tail.
Print Assumptions C14_indexed_value_store_tail.
Print Assumptions C14_entry_store_tail.
Print Assumptions C14_entry_store_tail_with_variants.
