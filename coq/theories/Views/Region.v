(* C13 — views of a stored content.
   Concrete model: the Rust structures of src/bases/types/range.rs (Region, cut_rel),
   src/reader/byte_region.rs, byte_slice.rs, byte_stream.rs: a view is an absolute
   [begin, end) range into a source, a stream adds an ABSOLUTE cursor.
   Abstract spec: a view is just a list of bytes (and a stream a list plus a position).
   Theorem: every program of view operations observes the same on both. *)
From Coq Require Import List Arith Lia.
From Jbk Require Import Base.ListExtra.
Import ListNotations.

Section Views.
Context {A : Type}.
Variable src : list A.                         (* the bytes of the source *)

Record region := { rb : nat; re : nat }.       (* absolute [begin, end) in the source *)
Definition rwf (r : region) := rb r <= re r <= length src.
Definition rsize r := re r - rb r.
Definition rbytes r := sub (rb r) (rsize r) src.

(* range.rs:53 Region::cut_rel — bounds are a debug_assert in the Rust; here an explicit guard *)
Definition cut_ok (r : region) (o n : nat) : bool := o + n <=? rsize r.
Definition cut (r : region) (o n : nat) : region := {| rb := rb r + o; re := rb r + o + n |}.

Lemma cut_wf r o n : rwf r -> o + n <= rsize r -> rwf (cut r o n).
Proof. unfold rwf, rsize, cut. cbn [rb re]. lia. Qed.

Lemma cut_bytes r o n : rwf r -> o + n <= rsize r -> rbytes (cut r o n) = sub o n (rbytes r).
Proof.
  intros W H. unfold rbytes. rewrite sub_sub by exact H.
  unfold cut, rsize. cbn [rb re]. f_equal. lia.
Qed.

Lemma rbytes_length r : rwf r -> length (rbytes r) = rsize r.
Proof. intros W. unfold rbytes. apply sub_length. unfold rwf, rsize in *. lia. Qed.

Theorem cut_cut r o1 n1 o2 n2 : rwf r -> o1 + n1 <= rsize r -> o2 + n2 <= n1 ->
  rbytes (cut (cut r o1 n1) o2 n2) = sub (o1 + o2) n2 (rbytes r).
Proof.
  intros W H1 H2.
  assert (E : cut (cut r o1 n1) o2 n2 = cut r (o1 + o2) n2) by (unfold cut; cbn [rb re]; f_equal; lia).
  rewrite E. apply cut_bytes; [assumption|lia].
Qed.

(* byte_stream.rs *)
Record stream := { sr : region; cur : nat }.   (* cur is an ABSOLUTE offset into the source *)
Definition of_region (r : region) : stream := {| sr := r; cur := rb r |}.
(* ByteRegion::stream(), ByteSlice::stream(), Reader::create_stream, and (after the repair of D1)
   From<ByteRegion> for ByteStream *)
Definition of_region_pinned (r : region) : stream := {| sr := r; cur := 0 |}.
(* From<ByteRegion> for ByteStream on the pinned tree: cursor = Offset::zero() *)
Definition size_left s := re (sr s) - cur s.
Definition offset s := cur s - rb (sr s).
Definition ssize s := rsize (sr s).
Definition read (s : stream) (k : nat) : list A * stream :=
  let n := Nat.min k (size_left s) in (sub (cur s) n src, {| sr := sr s; cur := cur s + n |}).
Fixpoint reads (s : stream) (ks : list nat) : list A * stream :=
  match ks with
  | [] => ([], s)
  | k :: ks => let (a, s1) := read s k in let (b, s2) := reads s1 ks in (a ++ b, s2)
  end.

Definition swf s := rwf (sr s) /\ rb (sr s) <= cur s <= re (sr s).

Lemma of_region_wf r : rwf r -> swf (of_region r).
Proof. unfold swf, of_region, rwf. cbn [sr cur]. lia. Qed.

Lemma read_spec s k : swf s ->
  let (out, s') := read s k in
  out = sub (offset s) (Nat.min k (size_left s)) (rbytes (sr s)) /\
  swf s' /\ sr s' = sr s /\ offset s' = offset s + length out /\
  size_left s' = size_left s - length out /\ length out = Nat.min k (size_left s).
Proof.
  intros [W C]. unfold read. set (n := Nat.min k (size_left s)).
  assert (Hn : length (sub (cur s) n src) = n).
  { apply sub_length. subst n. unfold rwf, size_left in *. lia. }
  split; [|split; [|split; [|split; [|split]]]].
  - unfold rbytes. rewrite sub_sub by (subst n; unfold offset, rsize, size_left in *; lia).
    f_equal. unfold offset. lia.
  - unfold swf. cbn [sr cur]. split; [exact W|]. subst n. unfold size_left in *. cbn [sr cur]. lia.
  - reflexivity.
  - unfold offset. cbn [sr cur]. rewrite Hn. lia.
  - unfold size_left. cbn [sr cur]. rewrite Hn. lia.
  - exact Hn.
Qed.

(* any partition into read sizes yields the prefix of the remaining bytes *)
Theorem reads_prefix ks : forall s, swf s ->
  let (out, s') := reads s ks in
  out = sub (cur s) (Nat.min (sum ks) (size_left s)) src /\
  swf s' /\ sr s' = sr s /\ cur s' = cur s + length out /\ length out = Nat.min (sum ks) (size_left s).
Proof.
  induction ks as [|k ks IH]; intros s W.
  - cbn [reads sum]. rewrite Nat.min_0_l. unfold sub. cbn [firstn length].
    split; [reflexivity|]. split; [exact W|]. split; [reflexivity|]. split; lia.
  - cbn [reads]. unfold read. set (n := Nat.min k (size_left s)).
    set (s1 := {| sr := sr s; cur := cur s + n |}).
    assert (W1 : swf s1) by (subst s1 n; unfold swf, rwf, size_left in *; cbn [sr cur]; lia).
    specialize (IH s1 W1). destruct (reads s1 ks) as [b s2].
    destruct IH as [Hb [W2 [Hsr [Hcur Hlen]]]].
    assert (Hn : length (sub (cur s) n src) = n).
    { apply sub_length. subst n. unfold swf, rwf, size_left in *. lia. }
    assert (Hsl : size_left s1 = size_left s - n) by (subst s1; unfold swf, rwf, size_left in *; cbn [sr cur]; lia).
    cbn [sum].
    assert (Hmin : Nat.min (k + sum ks) (size_left s) = n + Nat.min (sum ks) (size_left s1)) by lia.
    split; [|split; [|split; [|split]]].
    + rewrite Hmin, sub_split. f_equal. exact Hb.
    + exact W2.
    + rewrite Hsr. reflexivity.
    + rewrite Hcur, app_length, Hn. unfold s1. cbn [cur]. lia.
    + rewrite app_length, Hn, Hlen. lia.
Qed.

Corollary read_all r ks : rwf r -> rsize r <= sum ks -> fst (reads (of_region r) ks) = rbytes r.
Proof.
  intros W H. pose proof (reads_prefix ks (of_region r)) as P.
  destruct (reads (of_region r) ks) as [out s']. cbn [fst].
  destruct P as [E _]; [apply of_region_wf; exact W|].
  rewrite E. unfold rbytes, of_region, size_left, rsize in *. cbn [sr cur]. f_equal. lia.
Qed.

(* ------------------------------------------------------------------ *)
(* Programs of view operations: the executable model used by the correspondence check. *)

Inductive view :=
| VRegion (r : region)          (* reader::ByteRegion *)
| VSlice (r : region)           (* reader::ByteSlice *)
| VStream (s : stream).         (* reader::ByteStream *)

Inductive vop :=
| OCut (o n : nat)              (* ByteRegion::cut / ByteSlice::cut  -> ByteSlice *)
| OAsSlice                      (* ByteRegion::as_slice *)
| OToRegion                     (* From<ByteSlice> for ByteRegion *)
| OStream                       (* ByteRegion::stream / ByteSlice::stream *)
| OIntoStream                   (* From<ByteRegion> for ByteStream *)
| OGetSlice (o n : nat)         (* get_slice(offset, size) on region or slice *)
| ORead (k : nat)               (* one Read::read call with a buffer of k bytes *)
| OReadAll                      (* Read::read_to_end on the (possibly partly consumed) stream *)
| OSizes.                       (* size() / size(), offset(), size_left() *)

Inductive obs :=
| ObsBytes (l : list A)
| ObsSizes (size off left : nat)     (* for region/slice: off = 0, left = size *)
| ObsNone                            (* the op has no observable output *)
| ObsBad.                            (* op not applicable to this kind of view / out of range *)

Definition step (into_stream : region -> stream) (v : view) (op : vop) : view * obs :=
  match v, op with
  | VRegion r, OCut o n | VSlice r, OCut o n =>
      if cut_ok r o n then (VSlice (cut r o n), ObsNone) else (v, ObsBad)
  | VRegion r, OAsSlice => (VSlice r, ObsNone)
  | VSlice r, OToRegion => (VRegion r, ObsNone)
  | VRegion r, OStream | VSlice r, OStream => (VStream (of_region r), ObsNone)
  | VRegion r, OIntoStream => (VStream (into_stream r), ObsNone)
  | VRegion r, OGetSlice o n | VSlice r, OGetSlice o n =>
      if cut_ok r o n then (v, ObsBytes (rbytes (cut r o n))) else (v, ObsBad)
  | VStream s, ORead k => let (out, s') := read s k in (VStream s', ObsBytes out)
  | VStream s, OReadAll => let (out, s') := read s (size_left s) in (VStream s', ObsBytes out)
  | VRegion r, OSizes | VSlice r, OSizes => (v, ObsSizes (rsize r) 0 (rsize r))
  | VStream s, OSizes => (v, ObsSizes (ssize s) (offset s) (size_left s))
  | _, _ => (v, ObsBad)
  end.

Fixpoint run (into_stream : region -> stream) (v : view) (ops : list vop) : list obs :=
  match ops with
  | [] => []
  | op :: ops => let (v', o) := step into_stream v op in o :: run into_stream v' ops
  end.

(* Abstract spec: a view is a list; a stream is a list and a position. *)
Inductive aview := ASeq (region_kind : bool) (l : list A) | AStream (l : list A) (pos : nat).

Definition astep (v : aview) (op : vop) : aview * obs :=
  match v, op with
  | ASeq _ l, OCut o n => if o + n <=? length l then (ASeq false (sub o n l), ObsNone) else (v, ObsBad)
  | ASeq true l, OAsSlice => (ASeq false l, ObsNone)
  | ASeq false l, OToRegion => (ASeq true l, ObsNone)
  | ASeq _ l, OStream => (AStream l 0, ObsNone)
  | ASeq true l, OIntoStream => (AStream l 0, ObsNone)
  | ASeq _ l, OGetSlice o n => if o + n <=? length l then (v, ObsBytes (sub o n l)) else (v, ObsBad)
  | AStream l pos, ORead k =>
      let n := Nat.min k (length l - pos) in (AStream l (pos + n), ObsBytes (sub pos n l))
  | AStream l pos, OReadAll =>
      let n := length l - pos in (AStream l (pos + n), ObsBytes (sub pos n l))
  | ASeq _ l, OSizes => (v, ObsSizes (length l) 0 (length l))
  | AStream l pos, OSizes => (v, ObsSizes (length l) pos (length l - pos))
  | _, _ => (v, ObsBad)
  end.

Fixpoint arun (v : aview) (ops : list vop) : list obs :=
  match ops with
  | [] => []
  | op :: ops => let (v', o) := astep v op in o :: arun v' ops
  end.

Definition vwf (v : view) : Prop :=
  match v with VRegion r | VSlice r => rwf r | VStream s => swf s end.

Definition abs (v : view) : aview :=
  match v with
  | VRegion r => ASeq true (rbytes r)
  | VSlice r => ASeq false (rbytes r)
  | VStream s => AStream (rbytes (sr s)) (offset s)
  end.

Lemma step_refines v op : vwf v ->
  let (v', o) := step of_region v op in
  vwf v' /\ astep (abs v) op = (abs v', o).
Proof.
  intros W. destruct v as [r|r|s]; destruct op as [o n| | | | |o n|k| |]; cbn [step abs astep vwf] in *;
    try (split; [exact W|reflexivity]).
  - unfold cut_ok. rewrite rbytes_length by exact W.
    destruct (Nat.leb_spec (o + n) (rsize r)) as [H|H]; cbn [vwf abs].
    + split; [apply cut_wf; assumption|]. rewrite cut_bytes by assumption. reflexivity.
    + split; [exact W|reflexivity].
  - split; [apply of_region_wf; exact W|]. cbn [abs of_region sr]. unfold offset. cbn [sr cur of_region].
    rewrite Nat.sub_diag. reflexivity.
  - split; [apply of_region_wf; exact W|]. cbn [abs of_region sr]. unfold offset. cbn [sr cur of_region].
    rewrite Nat.sub_diag. reflexivity.
  - unfold cut_ok. rewrite rbytes_length by exact W.
    destruct (Nat.leb_spec (o + n) (rsize r)) as [H|H]; cbn [vwf abs].
    + split; [exact W|]. rewrite cut_bytes by assumption. reflexivity.
    + split; [exact W|reflexivity].
  - split; [exact W|]. rewrite rbytes_length by exact W. reflexivity.
  - unfold cut_ok. rewrite rbytes_length by exact W.
    destruct (Nat.leb_spec (o + n) (rsize r)) as [H|H]; cbn [vwf abs].
    + split; [apply cut_wf; assumption|]. rewrite cut_bytes by assumption. reflexivity.
    + split; [exact W|reflexivity].
  - split; [apply of_region_wf; exact W|]. cbn [abs of_region sr]. unfold offset. cbn [sr cur of_region].
    rewrite Nat.sub_diag. reflexivity.
  - unfold cut_ok. rewrite rbytes_length by exact W.
    destruct (Nat.leb_spec (o + n) (rsize r)) as [H|H]; cbn [vwf abs].
    + split; [exact W|]. rewrite cut_bytes by assumption. reflexivity.
    + split; [exact W|reflexivity].
  - split; [exact W|]. rewrite rbytes_length by exact W. reflexivity.
  - pose proof (read_spec s k W) as P. destruct (read s k) as [out s'].
    destruct P as [E [W' [Hsr [Hoff [Hleft Hlen]]]]]. cbn [vwf abs]. split; [exact W'|].
    destruct W as [Wr Wc]. rewrite rbytes_length by exact Wr.
    assert (Hsl : rsize (sr s) - offset s = size_left s) by (unfold rsize, offset, size_left in *; lia).
    rewrite Hsl, Hsr, Hoff, Hlen, E. reflexivity.
  - pose proof (read_spec s (size_left s) W) as P. destruct (read s (size_left s)) as [out s'].
    destruct P as [E [W' [Hsr [Hoff [Hleft Hlen]]]]]. cbn [vwf abs]. split; [exact W'|].
    destruct W as [Wr Wc]. rewrite rbytes_length by exact Wr.
    assert (Hsl : rsize (sr s) - offset s = size_left s) by (unfold rsize, offset, size_left in *; lia).
    rewrite Hsl, Hsr, Hoff, Hlen, E. rewrite Nat.min_id. reflexivity.
  - split; [exact W|]. destruct W as [Wr Wc]. rewrite rbytes_length by exact Wr.
    unfold ssize. replace (rsize (sr s) - offset s) with (size_left s)
      by (unfold rsize, offset, size_left in *; lia). reflexivity.
Qed.

(* Refinement: every program of view operations observes, on the concrete structures, exactly
   what it observes on plain byte lists.  No bound on the program length or nesting depth. *)
Theorem views_refine_lists ops : forall v, vwf v -> run of_region v ops = arun (abs v) ops.
Proof.
  induction ops as [|op ops IH]; intros v W; cbn [run arun]; [reflexivity|].
  pose proof (step_refines v op W) as P. destruct (step of_region v op) as [v' o].
  destruct P as [W' E]. rewrite E. f_equal. apply IH. exact W'.
Qed.

End Views.

Arguments ObsBytes {A} _. Arguments ObsSizes {A} _ _ _. Arguments ObsNone {A}. Arguments ObsBad {A}.

(* the pinned From<ByteRegion> is wrong as soon as the region does not begin at 0 (defect D1) *)
Lemma from_region_pinned_refuted :
  exists (src : list nat) r, rwf src r /\
    run src of_region_pinned (VRegion r) [OIntoStream; ORead 2] <> arun (abs src (VRegion r)) [OIntoStream; ORead 2].
Proof. exists [10;11;12;13], {| rb := 2; re := 4 |}. split; [unfold rwf; cbn; lia|]. vm_compute. discriminate. Qed.

(* non-vacuity: a nested, non-zero-based view meets the hypotheses *)
Example views_nonvacuous :
  vwf [1;2;3;4;5;6;7;8] (VRegion {| rb := 2; re := 7 |}) /\
  run [1;2;3;4;5;6;7;8] of_region (VRegion {| rb := 2; re := 7 |}) [OCut 1 3; OStream; ORead 2; OSizes; ORead 5]
  = [ObsNone; ObsNone; ObsBytes [4;5]; ObsSizes 3 2 1; ObsBytes [6]].
Proof. split; [unfold vwf, rwf; cbn; lia|reflexivity]. Qed.
