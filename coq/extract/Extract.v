(* Extraction of the executable model for the correspondence checks.
   Only ExtrOcamlBasic is used: bool, option, unit, list, prod, sumbool, sumor map to OCaml's,
   andb/orb are inlined; nat, N, Z, positive stay the extracted inductive types. *)
Require Extraction.
Require Import ExtrOcamlBasic.
From Jbk Require Import Views.Region Base.Bytes Base.Crc Base.Parser Format.Structs Manifest.SetLocation Content.Cluster Content.Pack Content.Model Conc.ClusterWriter Conc.SyncVec Crash.AtomicFs Dir.Layout Dir.DirModel Dir.Search Container.Reader Container.Canon.

Extraction "model.ml" Region.run Region.of_region Region.arun Region.abs
  SetLocation.set_location SetLocation.manifest_infos SetLocation.manifest_view SetLocation.layout_okb Crc.crc_bytes Bytes.needed_bytes
  Model.plan_plain Model.plan_dedup Model.cp_read_many ClusterWriter.accepts SyncVec.sv_accepts SyncVec.sv_first_reject SyncVec.execs SyncVec.ainit AtomicFs.fs_accepts AtomicFs.crash_states AtomicFs.wf_from AtomicFs.entry_lastb DirModel.dp_dump Search.find_table Reader.container_open Reader.container_open_lenient Reader.container_dir_dump Reader.get_content Reader.open_as_container Reader.file_ranges Canon.canon_file Canon.canon_file_full.
