theories/Base/ListExtra.vo theories/Base/ListExtra.glob theories/Base/ListExtra.v.beautified theories/Base/ListExtra.required_vo: theories/Base/ListExtra.v 
theories/Base/ListExtra.vio: theories/Base/ListExtra.v 
theories/Base/ListExtra.vos theories/Base/ListExtra.vok theories/Base/ListExtra.required_vos: theories/Base/ListExtra.v 
theories/Views/Region.vo theories/Views/Region.glob theories/Views/Region.v.beautified theories/Views/Region.required_vo: theories/Views/Region.v theories/Base/ListExtra.vo
theories/Views/Region.vio: theories/Views/Region.v theories/Base/ListExtra.vio
theories/Views/Region.vos theories/Views/Region.vok theories/Views/Region.required_vos: theories/Views/Region.v theories/Base/ListExtra.vos
theories/Properties/C13.vo theories/Properties/C13.glob theories/Properties/C13.v.beautified theories/Properties/C13.required_vo: theories/Properties/C13.v theories/Base/ListExtra.vo theories/Views/Region.vo
theories/Properties/C13.vio: theories/Properties/C13.v theories/Base/ListExtra.vio theories/Views/Region.vio
theories/Properties/C13.vos theories/Properties/C13.vok theories/Properties/C13.required_vos: theories/Properties/C13.v theories/Base/ListExtra.vos theories/Views/Region.vos
