// C12: tools::set_location on real files; observations after every rewrite.
use crate::dump::dump_container;
use crate::mkcont::std_container;
use crate::util::*;
use jubako as jbk;
use jubako::Pack;

fn manifest_reader(path: &std::path::Path) -> Result<jbk::Reader, String> {
    let c = jbk::tools::open_pack(path).map_err(|e| err_class(&e).to_string())?;
    match c.get_manifest_pack_reader() {
        Ok(Some(r)) => Ok(r),
        Ok(None) => Err("NOMANIFEST".into()),
        Err(e) => Err(err_class(&e).to_string()),
    }
}

fn infos_line(path: &std::path::Path) -> String {
    let r = std::panic::catch_unwind(|| -> Result<String, String> {
        let reader = manifest_reader(path)?;
        let m = jbk::reader::ManifestPack::new(reader).map_err(|e| err_class(&e).to_string())?;
        let mut v = vec![];
        let mut all: Vec<&jbk::reader::PackInfo> = vec![m.get_directory_pack_info()];
        all.extend(m.get_pack_infos().iter());
        for pi in all {
            v.push(format!(
                "{}:{}:{}:{}",
                hex(pi.uuid.as_bytes()),
                pi.pack_kind as u8,
                pi.pack_id.into_u16(),
                hex(pi.pack_location.as_str().as_bytes())
            ));
        }
        v.sort();
        let chk = match m.check() {
            Ok(b) => b.to_string(),
            Err(e) => err_class(&e).to_string(),
        };
        Ok(format!("{} @mcheck={}", v.join(";"), chk))
    });
    match r {
        Ok(Ok(s)) => s,
        Ok(Err(e)) => e,
        Err(_) => "PANIC".into(),
    }
}

fn push_infos(out: &mut Vec<String>, id: &str, step: usize, line: &str) {
    match line.split_once(" @mcheck=") {
        Some((infos, chk)) => {
            out.push(format!("{} {} infos {}", id, step, infos));
            out.push(format!("{} {} @oracle mcheck={}", id, step, chk));
        }
        None => out.push(format!("{} {} infos {}", id, step, line)),
    }
}

pub fn run(c: &Case, tmp: &std::path::Path) -> Vec<String> {
    let mut out = vec![];
    let dir = tmp.join(format!("man_{}", c.id));
    let _ = std::fs::remove_dir_all(&dir);
    std::fs::create_dir_all(&dir).unwrap();
    let main = dir.join("c.jbk");
    let pkg = c.p("pkg");
    let st = match std_container(main.to_str().unwrap(), pkg, c.p("comp"), c.pu("n") as u32, c.pu("extra") as u32, c.pu("seed"), 0, 0, 0, false) {
        Ok(s) => s,
        Err(e) => {
            out.push(format!("{} create CREATE_FAIL {}", c.id, e.replace(' ', "_")));
            return out;
        }
    };
    let _ = st;
    // the file holding the manifest: the container file itself (one/two) or the manifest file (no concat)
    let target = main.clone();
    // optional prefix: embed the manifest-holding file at an offset of a bigger container via concat? (kept simple:
    // `shift` copies the file after `shift` bytes of padding inside a fresh container pack using tools::concat)
    if c.po("groups").is_some() {
        // a manifest as another producer may write it: every pack info carries a non-zero packGroup (a checked byte
        // the library's own creator always leaves at 0); block CRCs and the manifest digest are recomputed
        let mut b = std::fs::read(&target).unwrap();
        match patch_groups(&mut b) {
            Ok(()) => std::fs::write(&target, &b).unwrap(),
            Err(e) => {
                out.push(format!("{} create PATCH_FAIL {}", c.id, e.replace(' ', "_")));
                return out;
            }
        }
    }
    let bytes0 = std::fs::read(&target).unwrap();
    let orig = tmp.join(format!("orig_{}.bin", c.id));
    std::fs::write(&orig, &bytes0).unwrap();
    out.push(format!("{} @model file {}", c.id, orig.display()));
    // resolve pack uuids in manifest order (as the reader lists them: directory first, then the others)
    let reader = manifest_reader(&target).unwrap();
    let m = jbk::reader::ManifestPack::new(reader).unwrap();
    let mut uuids: Vec<Vec<u8>> = vec![m.get_directory_pack_info().uuid.as_bytes().to_vec()];
    let mut origloc: Vec<Vec<u8>> = vec![m.get_directory_pack_info().pack_location.as_str().as_bytes().to_vec()];
    for pi in m.get_pack_infos() {
        uuids.push(pi.uuid.as_bytes().to_vec());
        origloc.push(pi.pack_location.as_str().as_bytes().to_vec());
    }
    drop(m);
    let dump0 = dump_container(&main, &["idx"], true);
    out.push(format!("{} 0 dump {}", c.id, digest(dump0.join("\n").as_bytes())));
    push_infos(&mut out, &c.id, 0, &infos_line(&target));
    out.push(format!("{} 0 file {}", c.id, digest(&bytes0)));
    let mut step = 1;
    for l in &c.lines {
        if l[0] != "setloc" {
            continue;
        }
        let uuid: Vec<u8> = if l[1] == "unknown" {
            (0..16).map(|i| (i * 7 + 1) as u8).collect()
        } else {
            uuids[l[1].parse::<usize>().unwrap() % uuids.len()].clone()
        };
        let loc = if l[2] == "orig" && l[1] != "unknown" {
            origloc[l[1].parse::<usize>().unwrap() % uuids.len()].clone()
        } else {
            unhex(&l[2])
        };
        out.push(format!("{} @model setloc {} {}", c.id, hex(&uuid), hex(&loc)));
        let locs = String::from_utf8(loc).expect("case locations are valid utf-8");
        let u = uuid::Uuid::from_slice(&uuid).unwrap();
        let r = std::panic::catch_unwind(|| jbk::tools::set_location(&target, u, locs.as_str().into()));
        let res = match r {
            Err(_) => "PANIC".to_string(),
            Ok(Err(e)) => err_class(&e).to_string(),
            Ok(Ok(None)) => "none".to_string(),
            Ok(Ok(Some((kind, old)))) => format!("some:{}:{}", kind as u8, hex(old.as_str().as_bytes())),
        };
        out.push(format!("{} {} res {}", c.id, step, res));
        let bytes = std::fs::read(&target).unwrap();
        out.push(format!("{} {} file {}", c.id, step, digest(&bytes)));
        push_infos(&mut out, &c.id, step, &infos_line(&target));
        // oracle-only observations: where the file changed, and the logical dump
        let mut lo = usize::MAX;
        let mut hi = 0;
        if bytes.len() == bytes0.len() {
            for i in 0..bytes.len() {
                if bytes[i] != bytes0[i] {
                    lo = lo.min(i);
                    hi = hi.max(i + 1);
                }
            }
        }
        out.push(format!("{} {} @oracle lenok={} changed={}..{}", c.id, step, bytes.len() == bytes0.len(), if lo == usize::MAX { 0 } else { lo }, hi));
        // reading back: with a location that does not name a file, contents of that pack are MISSING unless the pack
        // is inside the container file; the dump is compared with the initial one only for pkg=one (all packs inside)
        let d = dump_container(&main, &["idx"], true);
        out.push(format!("{} {} dump {}", c.id, step, digest(d.join("\n").as_bytes())));
        step += 1;
    }
    let _ = std::fs::remove_dir_all(&dir);
    out
}

fn le(b: &[u8]) -> u64 {
    b.iter().rev().fold(0u64, |a, x| (a << 8) | *x as u64)
}

/// CRC bytes of a block as stored in the file: the byte order is taken from an existing block of the same file.
fn crc_bytes(data: &[u8], big_endian: bool) -> [u8; 4] {
    let v = jbk::verif_api::crc32(data);
    if big_endian {
        v.to_be_bytes()
    } else {
        v.to_le_bytes()
    }
}

fn patch_groups(b: &mut [u8]) -> Result<(), String> {
    // the manifest pack: first position holding "jbkm" followed by a header block whose CRC verifies
    let mut found = None;
    for pos in 0..b.len().saturating_sub(64) {
        if &b[pos..pos + 4] == b"jbkm" {
            for be in [false, true] {
                if crc_bytes(&b[pos..pos + 60], be) == b[pos + 60..pos + 64] {
                    found = Some((pos, be));
                }
            }
            if found.is_some() {
                break;
            }
        }
    }
    let (mpos, be) = found.ok_or("no manifest pack header found")?;
    let check_pos = le(&b[mpos + 40..mpos + 48]) as usize;
    let count = le(&b[mpos + 64..mpos + 66]) as usize;
    let infos = mpos + check_pos - count * 256;
    for k in 0..count {
        let at = infos + k * 256;
        if crc_bytes(&b[at..at + 252], be) != b[at + 252..at + 256] {
            return Err(format!("pack info {k} does not verify before the patch"));
        }
        b[at + 35] = 0x10 + k as u8;
        let c = crc_bytes(&b[at..at + 252], be);
        b[at + 252..at + 256].copy_from_slice(&c);
    }
    // the digest: blake3 over [0, check_pos) of the pack with location + CRC of every pack info read as zeros
    let mut view = b[mpos..mpos + check_pos].to_vec();
    for k in 0..count {
        let at = check_pos - count * 256 + k * 256;
        for x in &mut view[at + 38..at + 256] {
            *x = 0;
        }
    }
    let cb = mpos + check_pos;
    if b[cb] != 1 {
        return Err("manifest check kind is not blake3".into());
    }
    let digest = blake3::hash(&view);
    b[cb + 1..cb + 33].copy_from_slice(digest.as_bytes());
    let c = crc_bytes(&b[cb..cb + 33], be);
    b[cb + 33..cb + 37].copy_from_slice(&c);
    Ok(())
}
