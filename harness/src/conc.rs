// C07: N reader threads read from ONE opened container at the same time (same content, different
// contents, whole and partial ranges, through every view type) while clusters are being decoded in
// the background and evicted from the cluster cache. The hooks of /repo (cfg jubako_verif) report
// every step of the length-publication protocol to a callback that logs it and perturbs the
// schedule with seeded yields / sleeps. Every byte range read is compared with what was stored.
use crate::mkcont::*;
use crate::util::*;
use jubako as jbk;
use jubako::creator::schema;
use jubako::creator::{BasicCreator, CompHint, EntryStoreTrait};
use jubako::verif_api as va;
use std::cell::Cell;
use std::collections::HashMap;
use std::io::Read;
use std::sync::{Arc, Barrier, Mutex};

thread_local! {
    static TID: Cell<usize> = const { Cell::new(usize::MAX) };
    static CTR: Cell<u64> = const { Cell::new(0) };
}

fn mix(mut x: u64) -> u64 {
    x ^= x >> 33;
    x = x.wrapping_mul(0xff51afd7ed558ccd);
    x ^= x >> 33;
    x = x.wrapping_mul(0xc4ceb9fe1a85ec53);
    x ^ (x >> 33)
}

struct St {
    value_store: jbk::creator::StoreHandle,
    entry_store: Box<jbk::creator::EntryStore<&'static str, &'static str, jbk::creator::BasicEntry<&'static str, &'static str>>>,
    n: u32,
}
impl EntryStoreTrait for St {
    fn finalize(self: Box<Self>, directory_pack: &mut jbk::creator::DirectoryPackCreator) {
        directory_pack.add_value_store(self.value_store);
        let id = directory_pack.add_entry_store(self.entry_store);
        directory_pack.create_index("idx", Default::default(), 0.into(), id, self.n.into(), jbk::EntryIdx::from(0).into());
    }
}

fn build(out: &str, pkg: &str, comp: &str, contents: &[(Vec<u8>, u8)]) -> Result<Vec<jbk::ContentAddress>, String> {
    let mut creator =
        BasicCreator::new(out, concat_mode(pkg), VENDOR, compression(comp), Arc::new(())).map_err(|e| format!("{e}"))?;
    let value_store = jbk::creator::ValueStore::new_plain(None);
    let sch = schema::Schema::new(
        schema::CommonProperties::new(vec![
            schema::Property::new_uint("AInteger"),
            schema::Property::new_content_address("TheContent"),
        ]),
        vec![],
        None,
    );
    let mut entry_store = Box::new(jbk::creator::EntryStore::new(sch, None));
    let mut addrs = vec![];
    for (i, (data, hint)) in contents.iter().enumerate() {
        let rdr = Box::new(std::io::Cursor::new(data.clone()));
        let h = match *hint {
            1 => CompHint::Yes,
            2 => CompHint::No,
            _ => CompHint::Detect,
        };
        let addr = creator.add_content(rdr, h).map_err(|e| format!("{e}"))?;
        addrs.push(addr);
        entry_store.add_entry(jbk::creator::BasicEntry::new_from_schema(
            &entry_store.schema,
            None,
            HashMap::from([("AInteger", jbk::Value::Unsigned(i as u64)), ("TheContent", jbk::Value::Content(addr))]),
        ));
    }
    let n = contents.len() as u32;
    creator.finalize(Box::new(St { value_store, entry_store, n }), vec![]).map_err(|e| format!("{e}"))?;
    Ok(addrs)
}

pub fn run(c: &Case, tmp: &std::path::Path) -> Vec<String> {
    let id = &c.id;
    let mut out = vec![];
    let dir = tmp.join(format!("conc_{}", id));
    let _ = std::fs::remove_dir_all(&dir);
    std::fs::create_dir_all(&dir).unwrap();
    let main = dir.join("c.jbk");
    let seed = c.pu("seed");
    let threads = c.pu("threads") as usize;
    let reads = c.pu("reads") as usize;
    let perturb = c.pu("perturb");
    let mut contents: Vec<(Vec<u8>, u8)> = vec![];
    for l in &c.lines {
        if l[0] == "content" {
            let hint = match l[1].as_str() {
                "y" => 1,
                "n" => 2,
                _ => 0,
            };
            contents.push((payload(&l[2]), hint));
        }
    }
    let addrs = match build(main.to_str().unwrap(), c.p("pkg"), c.p("comp"), &contents) {
        Ok(a) => a,
        Err(e) => {
            out.push(format!("{} create CREATE_FAIL {}", id, e.replace(' ', "_")));
            return out;
        }
    };
    out.push(format!("{} create OK", id));
    // storage damage before opening (decoder failure path): flip bytes of the content pack file
    let damaged = c.po("damage").is_some();
    if let Some(d) = c.po("damage") {
        let target = if c.p("pkg") == "one" { main.clone() } else { dir.join("c.jbkc") };
        let mut b = std::fs::read(&target).unwrap();
        for spec in d.split(',') {
            let (pos, mask) = spec.split_once(':').unwrap();
            let pos: usize = pos.parse().unwrap();
            if pos < b.len() {
                b[pos] ^= u8::from_str_radix(mask, 16).unwrap();
            }
        }
        std::fs::write(&target, &b).unwrap();
    }
    let expected: Arc<Vec<Vec<u8>>> = Arc::new(contents.into_iter().map(|(d, _)| d).collect());
    let addrs = Arc::new(addrs);

    if c.po("pool") == Some("rayon") {
        // the readers are the workers of rayon's global pool (an application reading contents from par_iter / broadcast):
        // every worker reads whole contents at the same moment; a reader that waits must never keep a decoder from running
        let container = match jbk::reader::Container::new(&main) {
            Ok(c) => c,
            Err(e) => {
                out.push(format!("{} open {}", id, err_class(&e)));
                return out;
            }
        };
        let n = expected.len();
        let res: Vec<(usize, usize, usize)> = rayon::broadcast(|ctx| {
            let (mut ok, mut bad, mut errs) = (0usize, 0usize, 0usize);
            for r in 0..reads {
                let i = (ctx.index() + r * 7) % n;
                match container.get_bytes(addrs[i]) {
                    Ok(Some(jbk::reader::MayMissPack::FOUND(Some(region)))) => {
                        let mut buf = vec![];
                        match region.stream().read_to_end(&mut buf) {
                            Ok(_) if buf == expected[i] => ok += 1,
                            Ok(_) => bad += 1,
                            Err(_) => errs += 1,
                        }
                    }
                    Ok(_) => bad += 1,
                    Err(_) => errs += 1,
                }
            }
            (ok, bad, errs)
        });
        let (ok, bad, errs) = res.iter().fold((0, 0, 0), |a, x| (a.0 + x.0, a.1 + x.1, a.2 + x.2));
        out.push(format!("{} reads ok={} bad={} errors={} damaged={} modes=[{},0,0,0,0]", id, ok, bad, errs, damaged as u8, ok + bad + errs));
        return out;
    }
    // event log + schedule perturbation
    let log: Arc<Mutex<Vec<(u8, usize, usize, usize, usize)>>> = Arc::new(Mutex::new(Vec::with_capacity(1 << 18)));
    {
        let log = log.clone();
        va::set_event_callback(Box::new(move |kind, oid, a, b| {
            let t = TID.with(|c| c.get());
            log.lock().unwrap().push((kind, t, oid, a, b));
            if perturb != 0 {
                let n = CTR.with(|c| {
                    let v = c.get() + 1;
                    c.set(v);
                    v
                });
                let x = mix(seed ^ ((t as u64) << 40) ^ n.wrapping_mul(0x9E3779B97F4A7C15) ^ ((kind as u64) << 56));
                match (x % 32, perturb) {
                    (0..=15, _) => {}
                    (16..=23, _) => std::thread::yield_now(),
                    (24..=29, _) => std::thread::sleep(std::time::Duration::from_micros(10 + (x >> 8) % 150)),
                    // perturb=2: the decoder is sometimes much slower than the readers
                    (_, 2) if kind == va::ev::CHUNK => std::thread::sleep(std::time::Duration::from_micros(300 + (x >> 8) % 1500)),
                    _ => std::thread::yield_now(),
                }
            }
        }));
    }

    let container = match jbk::reader::Container::new(&main) {
        Ok(c) => Arc::new(c),
        Err(e) => {
            out.push(format!("{} open {}", id, err_class(&e)));
            return out;
        }
    };
    let barrier = Arc::new(Barrier::new(threads));
    let mut handles = vec![];
    for t in 0..threads {
        let (container, expected, addrs, barrier) = (container.clone(), expected.clone(), addrs.clone(), barrier.clone());
        handles.push(std::thread::spawn(move || {
            TID.with(|c| c.set(t));
            let mut x = mix(seed ^ (t as u64 + 1).wrapping_mul(0x9E3779B97F4A7C15));
            let mut next = move || {
                x ^= x >> 12;
                x ^= x << 25;
                x ^= x >> 27;
                x.wrapping_mul(0x2545F4914F6CDD1D) >> 16
            };
            let (mut ok, mut bad, mut errs, mut modes) = (0usize, vec![], 0usize, [0usize; 5]);
            barrier.wait();
            for _ in 0..reads {
                // half of the reads go to a few "hot" contents so that several threads share a cluster being decoded
                let i = if next() % 2 == 0 { (next() % 3) as usize % expected.len() } else { (next() as usize) % expected.len() };
                let exp = &expected[i];
                let mode = (next() % 5) as usize;
                modes[mode] += 1;
                let len = exp.len();
                let o = if len == 0 { 0 } else { (next() as usize) % (len + 1) };
                let n = if len - o == 0 { 0 } else { (next() as usize) % (len - o + 1) };
                let region = match container.get_bytes(addrs[i]) {
                    Ok(Some(jbk::reader::MayMissPack::FOUND(Some(r)))) => r,
                    Ok(_) => {
                        bad.push(format!("t={} i={} mode={} NOT_FOUND", t, i, mode));
                        continue;
                    }
                    Err(_) => {
                        errs += 1;
                        continue;
                    }
                };
                let got: std::result::Result<(Vec<u8>, usize, usize), ()> = match mode {
                    0 => {
                        // whole content, streamed with varying read sizes
                        let mut s = region.stream();
                        let mut buf = vec![];
                        let mut fail = false;
                        loop {
                            let k = 1 + (next() as usize) % 9000;
                            let mut chunk = vec![0u8; k];
                            match s.read(&mut chunk) {
                                Ok(0) => break,
                                Ok(m) => buf.extend_from_slice(&chunk[..m]),
                                Err(_) => {
                                    fail = true;
                                    break;
                                }
                            }
                        }
                        if fail { Err(()) } else { Ok((buf, 0, len)) }
                    }
                    1 => region.get_slice(jbk::Offset::new(o as u64), n).map(|c| (c.into_owned(), o, n)).map_err(|_| ()),
                    2 => {
                        let mut buf = vec![];
                        region
                            .cut(jbk::Offset::new(o as u64), jbk::Size::new(n as u64))
                            .stream()
                            .read_to_end(&mut buf)
                            .map(|_| (buf, o, n))
                            .map_err(|_| ())
                    }
                    3 => {
                        // a prefix only, then the stream is dropped while the decoder may still be running
                        let mut s = region.stream();
                        let mut buf = vec![0u8; n];
                        s.read_exact(&mut buf).map(|_| (buf, 0, n)).map_err(|_| ())
                    }
                    _ => {
                        // the tail of the content: forces a wait for the end of the cluster
                        let k = n.min(len);
                        region
                            .as_slice()
                            .get_slice(jbk::Offset::new((len - k) as u64), k)
                            .map(|c| (c.into_owned(), len - k, k))
                            .map_err(|_| ())
                    }
                };
                match got {
                    Ok((bytes, o, n)) => {
                        if bytes[..] == exp[o..o + n] {
                            ok += 1;
                        } else {
                            bad.push(format!("t={} i={} mode={} o={} n={} got={}", t, i, mode, o, n, digest(&bytes)));
                        }
                    }
                    Err(()) => errs += 1,
                }
            }
            (ok, bad, errs, modes)
        }));
    }
    let (mut ok, mut bad, mut errs, mut modes) = (0usize, vec![], 0usize, [0usize; 5]);
    for h in handles {
        match h.join() {
            Ok((o, b, e, m)) => {
                ok += o;
                bad.extend(b);
                errs += e;
                for k in 0..5 {
                    modes[k] += m[k];
                }
            }
            Err(_) => bad.push("READER_THREAD_PANICKED".to_string()),
        }
    }
    out.push(format!("{} reads ok={} bad={} errors={} damaged={} modes={:?}", id, ok, bad.len(), errs, damaged as u8, modes).replace(", ", ","));
    for b in bad.iter().take(5) {
        out.push(format!("{} bad {}", id, b));
    }
    // let the decoders that nobody waits for any more finish (their events belong to the trace)
    drop(container);
    std::thread::sleep(std::time::Duration::from_millis(30));
    let log = log.lock().unwrap();
    let (mut gets, mut misses) = (0usize, 0usize);
    let mut distinct = std::collections::HashSet::new();
    for &(kind, t, oid, a, b) in log.iter() {
        match kind {
            k if k == va::ev::CACHE_GET => {
                gets += 1;
                distinct.insert((oid, a));
            }
            k if k == va::ev::CACHE_MISS => misses += 1,
            _ => out.push(format!("{} @model ev {} {} {} {} {}", id, oid, kind, if t == usize::MAX { -1 } else { t as i64 }, a, b)),
        }
    }
    out.push(format!("{} cache gets={} misses={} distinct={}", id, gets, misses, distinct.len()));
    if std::env::var("JBKV_KEEP").is_err() {
        let _ = std::fs::remove_dir_all(&dir);
    }
    out
}
