// C13: run programs of view operations on the real ByteRegion / ByteSlice / ByteStream.
use crate::util::*;
use jubako::reader::{ByteRegion, ByteSlice, ByteStream};
use jubako::verif_api as va;
use jubako::{Offset, Size};
use std::io::{Read, Write};

#[derive(Clone, Debug)]
enum Op {
    Cut(u64, u64),
    AsSlice,
    ToRegion,
    Stream,
    IntoStream,
    Get(u64, u64),
    Read(usize),
    ReadAll,
    Sizes,
}

fn parse_ops(c: &Case) -> Vec<Op> {
    let mut ops = vec![];
    for l in &c.lines {
        assert_eq!(l[0], "ops");
        for t in &l[1..] {
            let p: Vec<&str> = t.split(':').collect();
            ops.push(match p[0] {
                "cut" => Op::Cut(p[1].parse().unwrap(), p[2].parse().unwrap()),
                "asslice" => Op::AsSlice,
                "toregion" => Op::ToRegion,
                "stream" => Op::Stream,
                "intostream" => Op::IntoStream,
                "get" => Op::Get(p[1].parse().unwrap(), p[2].parse().unwrap()),
                "read" => Op::Read(p[1].parse().unwrap()),
                "readall" => Op::ReadAll,
                "sizes" => Op::Sizes,
                _ => panic!("bad op {t}"),
            });
        }
    }
    ops
}

struct Out<'a> {
    id: &'a str,
    n: usize,
    lines: Vec<String>,
}
impl Out<'_> {
    fn emit(&mut self, s: String) {
        self.lines.push(format!("{} {} {}", self.id, self.n, s));
        self.n += 1;
    }
}

fn run_region(r: ByteRegion, ops: &[Op], out: &mut Out) {
    let Some((op, rest)) = ops.split_first() else { return };
    let size = r.size().into_u64();
    match op {
        Op::Cut(o, n) => {
            if o + n <= size {
                out.emit("none".into());
                let s = r.cut(Offset::new(*o), Size::new(*n));
                return run_slice(s, rest, out);
            }
            out.emit("bad".into());
        }
        Op::AsSlice => {
            out.emit("none".into());
            return run_slice(r.as_slice(), rest, out);
        }
        Op::Stream => {
            out.emit("none".into());
            return run_stream(r.stream(), rest, out);
        }
        Op::IntoStream => {
            out.emit("none".into());
            return run_stream(r.into(), rest, out);
        }
        Op::Get(o, n) => {
            if o + n <= size {
                match r.get_slice(Offset::new(*o), *n as usize) {
                    Ok(b) => out.emit(format!("bytes {}", show(&b))),
                    Err(e) => out.emit(format!("err {}", err_class(&e))),
                }
            } else {
                out.emit("bad".into());
            }
        }
        Op::Sizes => out.emit(format!("sizes {} 0 {}", size, size)),
        _ => out.emit("bad".into()),
    }
    run_region(r, rest, out)
}

fn run_slice(s: ByteSlice<'_>, ops: &[Op], out: &mut Out) {
    let Some((op, rest)) = ops.split_first() else { return };
    let size = s.size().into_u64();
    match op {
        Op::Cut(o, n) => {
            if o + n <= size {
                out.emit("none".into());
                let s2 = s.cut(Offset::new(*o), Size::new(*n));
                return run_slice(s2, rest, out);
            }
            out.emit("bad".into());
        }
        Op::ToRegion => {
            out.emit("none".into());
            return run_region(s.into(), rest, out);
        }
        Op::Stream => {
            out.emit("none".into());
            return run_stream(s.stream(), rest, out);
        }
        Op::Get(o, n) => {
            if o + n <= size {
                match s.get_slice(Offset::new(*o), *n as usize) {
                    Ok(b) => out.emit(format!("bytes {}", show(&b))),
                    Err(e) => out.emit(format!("err {}", err_class(&e))),
                }
            } else {
                out.emit("bad".into());
            }
        }
        Op::Sizes => out.emit(format!("sizes {} 0 {}", size, size)),
        _ => out.emit("bad".into()),
    }
    run_slice(s, rest, out)
}

fn run_stream(mut s: ByteStream, ops: &[Op], out: &mut Out) {
    let Some((op, rest)) = ops.split_first() else { return };
    match op {
        Op::Read(k) => {
            // one logical read of k bytes = repeated Read::read until k bytes or end of stream
            // (a single call may legitimately be short; `reads_prefix` justifies the grouping)
            let mut buf = vec![0u8; *k];
            let mut got = 0;
            let mut fail = None;
            while got < *k {
                match s.read(&mut buf[got..]) {
                    Ok(0) => break,
                    Ok(n) => got += n,
                    Err(e) => {
                        fail = Some(e);
                        break;
                    }
                }
            }
            match fail {
                None => out.emit(format!("bytes {}", show(&buf[..got]))),
                Some(_) => out.emit("err ERR_IO".into()),
            }
        }
        Op::ReadAll => {
            let mut buf = vec![];
            match s.read_to_end(&mut buf) {
                Ok(_) => out.emit(format!("bytes {}", show(&buf))),
                Err(_) => out.emit("err ERR_IO".into()),
            }
        }
        Op::Sizes => {
            // offset() underflows when the cursor is before the region: report, do not die
            let sz = s.size();
            let r = std::panic::catch_unwind(std::panic::AssertUnwindSafe(|| (s.offset(), s.size_left())));
            match r {
                Ok((o, l)) => out.emit(format!("sizes {} {} {}", sz, o, l)),
                Err(_) => out.emit("PANIC".into()),
            }
        }
        _ => out.emit("bad".into()),
    }
    run_stream(s, rest, out)
}

pub fn run(c: &Case, tmp: &std::path::Path) -> Vec<String> {
    let ops = parse_ops(c);
    let src = payload(c.p("data"));
    let a = c.pu("a"); // outer window [a, a+m) of the source
    let m = c.pu("m");
    let pre = c.pu("pre"); // content = [pre, pre+len) inside the window
    let len = c.pu("len");
    let kind = c.p("src");
    let mut out = Out { id: &c.id, n: 0, lines: vec![] };
    let path = tmp.join(format!("views_{}.bin", c.id));
    let region: ByteRegion = match kind {
        "mem" => {
            let r = va::reader_from_vec(src.clone());
            va::reader_region(&r, a + pre, len)
        }
        "file" | "filecut" | "incore" => {
            std::fs::File::create(&path).unwrap().write_all(&src).unwrap();
            let r = va::reader_from_file(&path).unwrap();
            match kind {
                "file" => va::reader_region(&r, a + pre, len),
                "filecut" => {
                    let r2 = va::reader_cut(&r, a, m, false).unwrap();
                    va::reader_region(&r2, pre, len)
                }
                _ => {
                    // in-memory cut: a Vec below 4 KiB, an mmap from 4 KiB on
                    let r2 = va::reader_cut(&r, a, m, true).unwrap();
                    va::reader_region(&r2, pre, len)
                }
            }
        }
        "lz4" | "lzma" | "zstd" => {
            let window = &src[a as usize..(a + m) as usize];
            let (algo, comp) = match kind {
                "lz4" => {
                    let mut e = lz4::EncoderBuilder::new().level(3).build(Vec::new()).unwrap();
                    e.write_all(window).unwrap();
                    let (v, r) = e.finish();
                    r.unwrap();
                    (1, v)
                }
                "lzma" => {
                    let mut e = xz2::write::XzEncoder::new_stream(
                        Vec::new(),
                        xz2::stream::Stream::new_lzma_encoder(&xz2::stream::LzmaOptions::new_preset(3).unwrap()).unwrap(),
                    );
                    e.write_all(window).unwrap();
                    (2, e.finish().unwrap())
                }
                _ => {
                    let mut e = zstd::Encoder::new(Vec::new(), 3).unwrap();
                    e.write_all(window).unwrap();
                    (3, e.finish().unwrap())
                }
            };
            let r = va::reader_from_decoder(algo, comp, m as usize).unwrap();
            va::reader_region(&r, pre, len)
        }
        "pack" | "packz" => {
            // through the public API: three contents in one cluster, the middle one is viewed
            use jubako::creator::{CompHint, Compression, ContentPackCreator};
            let comp = if kind == "pack" { Compression::None } else { Compression::zstd() };
            let mut creator = ContentPackCreator::new(
                camino::Utf8Path::from_path(&path).unwrap(),
                jubako::PackId::from(1),
                jubako::VendorId::new([1, 2, 3, 4]),
                Default::default(),
                comp,
            )
            .unwrap();
            let w = &src[a as usize..(a + m) as usize];
            let parts = [&w[..pre as usize], &w[pre as usize..(pre + len) as usize], &w[(pre + len) as usize..]];
            for p in parts {
                creator
                    .add_content(Box::new(std::io::Cursor::new(p.to_vec())), CompHint::Yes)
                    .unwrap();
            }
            creator.finalize().unwrap();
            let pack = jubako::reader::ContentPack::new(va::reader_from_file(&path).unwrap()).unwrap();
            pack.get_content(jubako::ContentIdx::from(1)).unwrap().unwrap()
        }
        _ => panic!("bad src kind {kind}"),
    };
    run_region(region, &ops, &mut out);
    let _ = std::fs::remove_file(&path);
    out.lines
}
