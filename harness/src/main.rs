mod content;
mod dir;
mod dump;
mod manifest;
mod mkcont;
mod pkgs;
mod util;
mod views;

use std::io::Write;

fn main() {
    let args: Vec<String> = std::env::args().collect();
    if args.len() < 3 {
        eprintln!("usage: jbkv <casefile> <outfile> [tmpdir]");
        std::process::exit(2);
    }
    let text = std::fs::read_to_string(&args[1]).expect("case file");
    let tmp = if args.len() > 3 {
        std::path::PathBuf::from(&args[3])
    } else {
        std::env::temp_dir()
    };
    std::fs::create_dir_all(&tmp).unwrap();
    let (_seed, cases) = util::parse_cases(&text);
    let mut out = std::io::BufWriter::new(std::fs::File::create(&args[2]).unwrap());
    // silence panic messages of caught panics; they are reported as observation lines
    std::panic::set_hook(Box::new(|_| {}));
    for c in &cases {
        let id = c.id.clone();
        let r = std::panic::catch_unwind(std::panic::AssertUnwindSafe(|| match c.family.as_str() {
            "views" => views::run(c, &tmp),
            "manifest" => manifest::run(c, &tmp),
            "content" => content::run(c, &tmp),
            "dir" => dir::run(c, &tmp),
            "pkgs" => pkgs::run(c, &tmp),
            "corpus" => {
                // read a committed reference container with the current reader
                let dir = std::path::PathBuf::from(c.p("dir"));
                let main = dir.join(c.p("main"));
                let idx: Vec<&str> = c.p("indexes").split(',').collect();
                let mut out = vec![format!("{} @model main {}", c.id, main.display())];
                for e in std::fs::read_dir(&dir).unwrap() {
                    let e = e.unwrap();
                    if e.path().is_file() && e.path() != main {
                        out.push(format!("{} @model sibling {} {}", c.id, e.file_name().to_str().unwrap(), e.path().display()));
                    }
                }
                for l in dump::dump_container(&main, &idx, true) {
                    out.push(format!("{} {}", c.id, l));
                }
                out
            }
            f => panic!("unknown family {f}"),
        }));
        match r {
            Ok(lines) => {
                for l in lines {
                    writeln!(out, "{}", l).unwrap();
                }
            }
            Err(_) => writeln!(out, "{} PANIC", id).unwrap(),
        }
        out.flush().unwrap();
    }
}
