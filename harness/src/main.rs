mod conc;
mod content;
mod damage;
mod dir;
mod dump;
mod manifest;
mod mkcont;
mod pkgs;
mod util;
mod views;

use std::io::Write;

fn run_case(c: &util::Case, tmp: &std::path::Path) -> Vec<String> {
    match c.family.as_str() {
        "views" => views::run(c, tmp),
        "manifest" => manifest::run(c, tmp),
        "content" => content::run(c, tmp),
        "dir" => dir::run(c, tmp),
        "pkgs" => pkgs::run(c, tmp),
        "damage" => damage::run(c, tmp),
        "conc" => conc::run(c, tmp),
        "dircheck" => {
            // C09: what a destination directory holds after an interrupted or failed creation
            let dir = std::path::PathBuf::from(c.p("dir"));
            let main = dir.join(c.p("main"));
            let mut out = vec![];
            if !main.exists() {
                out.push(format!("{} main ABSENT", c.id));
            } else {
                let ls = dump::dump_container(&main, &["idx"], true);
                let open = ls.first().cloned().unwrap_or_default();
                let check = ls.iter().find(|l| l.starts_with("check ")).cloned().unwrap_or("check NONE".into());
                let errs = ls.iter().filter(|l| l.contains("ERR_") || l.contains("PANIC") || l.contains("MISSING")).count();
                let entries = ls.iter().filter(|l| l.starts_with("entry ")).count();
                out.push(format!("{} main {} {} errors={} entries={}", c.id, open.replace(' ', "_"), check.replace(' ', "_"), errs, entries));
            }
            for l in &c.lines {
                if l[0] == "pack" {
                    let p = dir.join(&l[1]);
                    if !p.exists() {
                        out.push(format!("{} pack {} ABSENT", c.id, l[1]));
                        continue;
                    }
                    let r = std::panic::catch_unwind(|| match jubako::tools::open_pack(&p) {
                        Err(e) => format!("open_{}", util::err_class(&e)),
                        Ok(cp) => match cp.check() {
                            Ok(b) => format!("check_{}", b),
                            Err(e) => format!("check_{}", util::err_class(&e)),
                        },
                    });
                    out.push(format!("{} pack {} {}", c.id, l[1], r.unwrap_or_else(|_| "PANIC".into())));
                }
            }
            out
        }
        "hash" => {
            // C04: blake3 (the crate the library uses) over a byte range of a file, with the given
            // absolute sub-ranges zeroed (the manifest's masked view); the range comes from the model
            let b = std::fs::read(c.p("file")).unwrap();
            let (start, len) = (c.pu("start") as usize, c.pu("len") as usize);
            let mut v = b[start..start + len].to_vec();
            if let Some(z) = c.params.get("zero") {
                for r in z.split(',').filter(|r| !r.is_empty()) {
                    let (a, e) = r.split_once('-').unwrap();
                    let (a, e): (usize, usize) = (a.parse().unwrap(), e.parse().unwrap());
                    for i in a.max(start)..e.min(start + len) {
                        v[i - start] = 0;
                    }
                }
            }
            vec![format!("{} blake3 {}", c.id, blake3::hash(&v).to_hex())]
        }
        "corpus" => {
            // read a committed reference container (or a damaged copy) with the current reader
            let dir = std::path::PathBuf::from(c.p("dir"));
            let main = dir.join(c.p("main"));
            let idx: Vec<&str> = c.p("indexes").split(',').collect();
            let mut out = vec![format!("{} @model main {}", c.id, main.display())];
            for e in std::fs::read_dir(&dir).unwrap() {
                let e = e.unwrap();
                if e.path().is_file() && e.path() != main {
                    out.push(format!("{} @model sibling {} {}", c.id, e.file_name().to_str().unwrap(), e.path().display()));
                }
            }
            for l in dump::dump_container(&main, &idx, true) {
                out.push(format!("{} {}", c.id, l));
            }
            out
        }
        f => panic!("unknown family {f}"),
    }
}

/// `jbkv --isolate <casefile> <outfile> <tmpdir> <timeout_ms>`: every case runs in its own child process so
/// that a panic, an abort, a fault or a hang of the library is an observation, not the end of the batch.
fn isolate(args: &[String]) {
    let text = std::fs::read_to_string(&args[2]).expect("case file");
    let tmp = std::path::PathBuf::from(&args[4]);
    std::fs::create_dir_all(&tmp).unwrap();
    let timeout = std::time::Duration::from_millis(args[5].parse().unwrap());
    let exe = std::env::current_exe().unwrap();
    let mut out = std::io::BufWriter::new(std::fs::File::create(&args[3]).unwrap());
    // split the case file into one-case chunks
    let mut chunks: Vec<(String, String)> = vec![];
    let mut cur = String::new();
    let mut id = String::new();
    for line in text.lines() {
        if line.starts_with("case ") {
            cur.clear();
            id = line.split(' ').nth(1).unwrap().to_string();
        }
        cur.push_str(line);
        cur.push('\n');
        if line.trim() == "end" {
            chunks.push((id.clone(), cur.clone()));
        }
    }
    let jobs = std::thread::available_parallelism().map(|n| n.get()).unwrap_or(4).min(12);
    let chunks = std::sync::Arc::new(chunks);
    let next = std::sync::Arc::new(std::sync::atomic::AtomicUsize::new(0));
    let results = std::sync::Arc::new(std::sync::Mutex::new(vec![String::new(); chunks.len()]));
    let mut handles = vec![];
    for j in 0..jobs {
        let (chunks, next, results, exe, tmp) = (chunks.clone(), next.clone(), results.clone(), exe.clone(), tmp.clone());
        handles.push(std::thread::spawn(move || loop {
            let k = next.fetch_add(1, std::sync::atomic::Ordering::SeqCst);
            if k >= chunks.len() {
                break;
            }
            let (id, text) = &chunks[k];
            let cf = tmp.join(format!("one_{}_{}.case", j, k));
            let of = tmp.join(format!("one_{}_{}.out", j, k));
            std::fs::write(&cf, text).unwrap();
            let _ = std::fs::remove_file(&of);
            let mut child = std::process::Command::new(&exe)
                .arg(&cf)
                .arg(&of)
                .arg(&tmp)
                .stdout(std::process::Stdio::null())
                .stderr(std::process::Stdio::null())
                .spawn()
                .unwrap();
            let t0 = std::time::Instant::now();
            let status = loop {
                match child.try_wait().unwrap() {
                    Some(st) => break Some(st),
                    None => {
                        if t0.elapsed() > timeout {
                            let _ = child.kill();
                            let _ = child.wait();
                            break None;
                        }
                        std::thread::sleep(std::time::Duration::from_millis(2));
                    }
                }
            };
            let mut text_out = std::fs::read_to_string(&of).unwrap_or_default();
            use std::os::unix::process::ExitStatusExt;
            match status {
                None => text_out.push_str(&format!("{} outcome TIMEOUT\n", id)),
                Some(st) if st.success() => text_out.push_str(&format!("{} outcome EXIT0\n", id)),
                Some(st) => match st.signal() {
                    Some(sig) => text_out.push_str(&format!("{} outcome SIGNAL{}\n", id, sig)),
                    None => text_out.push_str(&format!("{} outcome EXIT{}\n", id, st.code().unwrap_or(-1))),
                },
            }
            let _ = std::fs::remove_file(&cf);
            let _ = std::fs::remove_file(&of);
            results.lock().unwrap()[k] = text_out;
        }));
    }
    for h in handles {
        h.join().unwrap();
    }
    for t in results.lock().unwrap().iter() {
        out.write_all(t.as_bytes()).unwrap();
    }
}

fn main() {
    let args: Vec<String> = std::env::args().collect();
    if args.len() >= 8 && args[1] == "--create" {
        // C09: one creation through the high-level creator, as a process that can be killed or made to fail
        let r = mkcont::std_container(&args[2], &args[3], &args[4], args[5].parse().unwrap(), args[6].parse().unwrap(), args[7].parse().unwrap(), 0, 0, 0, false);
        match r {
            Ok(_) => std::process::exit(0),
            Err(e) => {
                eprintln!("creation failed: {e}");
                std::process::exit(3)
            }
        }
    }
    if args.len() >= 6 && args[1] == "--isolate" {
        return isolate(&args);
    }
    if args.len() < 3 {
        eprintln!("usage: jbkv <casefile> <outfile> [tmpdir] | jbkv --isolate <casefile> <outfile> <tmpdir> <timeout_ms>");
        std::process::exit(2);
    }
    let text = std::fs::read_to_string(&args[1]).expect("case file");
    let tmp = if args.len() > 3 {
        std::path::PathBuf::from(&args[3])
    } else {
        std::env::temp_dir()
    };
    std::fs::create_dir_all(&tmp).unwrap();
    let (_seed, cases) = util::parse_cases(&text);
    let mut out = std::io::BufWriter::new(std::fs::File::create(&args[2]).unwrap());
    // silence panic messages of caught panics; they are reported as observation lines
    if std::env::var("JBKV_DEBUG").is_err() {
        std::panic::set_hook(Box::new(|_| {}));
    }
    for c in &cases {
        let id = c.id.clone();
        let r = std::panic::catch_unwind(std::panic::AssertUnwindSafe(|| run_case(c, &tmp)));
        match r {
            Ok(lines) => {
                for l in lines {
                    writeln!(out, "{}", l).unwrap();
                }
            }
            Err(_) => writeln!(out, "{} PANIC", id).unwrap(),
        }
        out.flush().unwrap();
    }
}
