// C01 / C16 / C08: ContentPackCreator (optionally behind CachedContentAdder) driven by an
// insertion sequence; read back through reader::ContentPack; Progress events logged.
use crate::mkcont::{compression, VENDOR};
use crate::util::*;
use jubako as jbk;
use jubako::creator::{CachedContentAdder, CompHint, ContentAdder, ContentPackCreator, InputFile, InputReader};
use jubako::verif_api as va;
use jubako::Pack;
use std::io::Write;
use std::sync::{Arc, Mutex};

struct Prog {
    log: Mutex<Vec<String>>,
    delay_seed: u64,
    slow_ms: u64,
    rev_ms: u64,
    ctr: std::sync::atomic::AtomicU64,
}
impl Prog {
    fn ev(&self, s: String) {
        if self.delay_seed != 0 {
            // seeded schedule perturbation at every worker / writer / creator step
            let n = self.ctr.fetch_add(1, std::sync::atomic::Ordering::SeqCst);
            let mut x = self.delay_seed.wrapping_mul(0x9E3779B97F4A7C15).wrapping_add(n.wrapping_mul(0xD1B54A32D192ED03)) | 1;
            x ^= x >> 12;
            x ^= x << 25;
            x ^= x >> 27;
            let r = x.wrapping_mul(0x2545F4914F6CDD1D) >> 58; // 0..63
            if r < 24 {
                std::thread::sleep(std::time::Duration::from_micros(r * 120));
            } else if r < 40 {
                std::thread::yield_now();
            }
        }
        self.log.lock().unwrap().push(s);
    }
}
impl jbk::creator::Progress for Prog {
    fn new_cluster(&self, idx: u32, compressed: bool) {
        self.ev(format!("new:{}:{}", idx, compressed as u8));
    }
    fn handle_cluster(&self, idx: u32, compressed: bool) {
        // slow compression workers: the producer outruns them and meets the back-pressure limit
        if compressed && self.slow_ms != 0 {
            std::thread::sleep(std::time::Duration::from_millis(self.slow_ms));
        }
        // reversed completion: the earlier a cluster was closed the longer its worker holds it, so that with several
        // workers the clusters reach the writer in decreasing index order
        if compressed && self.rev_ms != 0 {
            std::thread::sleep(std::time::Duration::from_millis(self.rev_ms * (24 - (idx as u64).min(23))));
        }
        self.ev(format!("handle:{}:{}", idx, compressed as u8));
    }
    fn handle_cluster_written(&self, idx: u32) {
        self.ev(format!("written:{}", idx));
    }
}

fn reader_for(tmp: &std::path::Path, id: &str, k: usize, src: &str, data: &[u8]) -> Box<dyn InputReader> {
    if src == "mem" {
        return Box::new(std::io::Cursor::new(data.to_vec()));
    }
    let p = tmp.join(format!("in_{}_{}.bin", id, k));
    let (pre, post) = if let Some(r) = src.strip_prefix("range:") {
        let (a, b) = r.split_once(':').unwrap();
        (a.parse::<usize>().unwrap(), b.parse::<usize>().unwrap())
    } else {
        (0, 0)
    };
    let mut f = std::fs::File::create(&p).unwrap();
    f.write_all(&vec![0xEE; pre]).unwrap();
    f.write_all(data).unwrap();
    f.write_all(&vec![0xDD; post]).unwrap();
    drop(f);
    let file = std::fs::File::open(&p).unwrap();
    if src == "file" {
        Box::new(InputFile::new(file).unwrap())
    } else {
        Box::new(InputFile::new_range(file, pre as u64, Some(data.len() as u64)).unwrap())
    }
}

pub fn run(c: &Case, tmp: &std::path::Path) -> Vec<String> {
    let id = &c.id;
    let mut out = vec![];
    let path = tmp.join(format!("pack_{}.jbkc", id));
    let prog = Arc::new(Prog {
        log: Mutex::new(vec![]),
        delay_seed: c.po("delays").map(|s| s.parse().unwrap()).unwrap_or(0),
        slow_ms: c.po("slow").map(|s| s.parse().unwrap()).unwrap_or(0),
        rev_ms: c.po("rev").map(|s| s.parse().unwrap()).unwrap_or(0),
        ctr: Default::default(),
    });
    let creator = ContentPackCreator::new_with_progress(
        camino::Utf8Path::from_path(&path).unwrap(),
        jbk::PackId::from(1),
        VENDOR,
        Default::default(),
        compression(c.p("comp")),
        prog.clone(),
    )
    .unwrap();
    let dedup = c.po("dedup") == Some("1");
    let mut adds: Vec<(u32, Vec<u8>)> = vec![];
    let (mut plain, mut cached) = if dedup {
        (None, Some(CachedContentAdder::new(creator, std::rc::Rc::new(()))))
    } else {
        (Some(creator), None)
    };
    for (k, l) in c.lines.iter().enumerate() {
        if l[0] != "add" {
            continue;
        }
        let hint = match l[1].as_str() {
            "y" => CompHint::Yes,
            "n" => CompHint::No,
            _ => CompHint::Detect,
        };
        let data = payload(&l[3]);
        let rdr = reader_for(tmp, id, k, &l[2], &data);
        let r = match (&mut plain, &mut cached) {
            (Some(p), _) => p.add_content(rdr, hint),
            (_, Some(cd)) => cd.add_content(rdr, hint),
            _ => unreachable!(),
        };
        match r {
            Ok(a) => {
                out.push(format!("{} addr {} {}:{}", id, adds.len(), a.pack_id.into_u16(), a.content_id.into_u32()));
                adds.push((a.content_id.into_u32(), data));
            }
            Err(_) => {
                out.push(format!("{} addr {} ERR_IO", id, adds.len()));
                adds.push((u32::MAX, data));
            }
        }
    }
    let creator = match (plain, cached) {
        (Some(p), _) => p,
        (_, Some(cd)) => cd.into_inner(),
        _ => unreachable!(),
    };
    match creator.finalize() {
        Ok(_) => out.push(format!("{} create OK", id)),
        Err(_) => {
            out.push(format!("{} create CREATE_FAIL", id));
            return out;
        }
    }
    out.push(format!("{} @oracle events {}", id, prog.log.lock().unwrap().join(" ")));
    out.push(format!("{} @model file {}", id, path.display()));
    // read back
    let pack = match jbk::reader::ContentPack::new(va::reader_from_file(&path).unwrap()) {
        Ok(p) => p,
        Err(e) => {
            out.push(format!("{} open {}", id, err_class(&e)));
            return out;
        }
    };
    let count = pack.get_content_count().into_u32();
    out.push(format!("{} count {}", id, count));
    for (i, (cid, _)) in adds.iter().enumerate() {
        if *cid == u32::MAX {
            continue;
        }
        let r = std::panic::catch_unwind(std::panic::AssertUnwindSafe(|| match pack.get_content(jbk::ContentIdx::from(*cid)) {
            Err(e) => err_class(&e).to_string(),
            Ok(None) => "NONE".to_string(),
            Ok(Some(region)) => {
                use std::io::Read;
                let mut buf = vec![];
                match region.stream().read_to_end(&mut buf) {
                    Ok(_) => show(&buf),
                    Err(_) => "ERR_IO".into(),
                }
            }
        }));
        out.push(format!("{} content {} {}", id, i, r.unwrap_or_else(|_| "PANIC".into())));
    }
    for extra in [0u32, 1, 4096] {
        let r = std::panic::catch_unwind(std::panic::AssertUnwindSafe(|| match pack.get_content(jbk::ContentIdx::from(count + extra)) {
            Err(e) => err_class(&e).to_string(),
            Ok(None) => "NONE".to_string(),
            Ok(Some(_)) => "SOME".to_string(),
        }));
        out.push(format!("{} past {} {}", id, extra, r.unwrap_or_else(|_| "PANIC".into())));
    }
    let chk = std::panic::catch_unwind(std::panic::AssertUnwindSafe(|| match pack.check() {
        Ok(b) => b.to_string(),
        Err(e) => err_class(&e).to_string(),
    }));
    out.push(format!("{} check {}", id, chk.unwrap_or_else(|_| "PANIC".into())));
    out
}
