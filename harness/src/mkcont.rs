// A standard small container built through the public creator API (BasicCreator), used by the
// manifest / packaging / damage families.
use crate::util::*;
use jubako as jbk;
use jubako::creator::schema;
use jubako::creator::{BasicCreator, CompHint, Compression, ConcatMode, ContentPackCreator, EntryStoreTrait};
use std::collections::HashMap;
use std::sync::Arc;

pub const VENDOR: jbk::VendorId = jbk::VendorId::new([1, 2, 3, 4]);

pub fn compression(s: &str) -> Compression {
    let (name, level) = match s.split_once(':') {
        Some((n, l)) => (n, Some(l.parse::<i32>().unwrap())),
        None => (s, None),
    };
    match name {
        "none" => Compression::None,
        "lz4" => Compression::Lz4(deranged_u32::<0, 15>(level.unwrap_or(3) as u32)),
        "lzma" => Compression::Lzma(deranged_u32::<0, 9>(level.unwrap_or(3) as u32)),
        "zstd" => Compression::Zstd(jbk_zstd(level.unwrap_or(5))),
        _ => panic!("bad compression {s}"),
    }
}

// deranged types are not re-exported by jubako; build them through the defaults + transmute-free path
fn deranged_u32<const A: u32, const B: u32>(v: u32) -> deranged::RangedU32<A, B> {
    deranged::RangedU32::<A, B>::new(v).expect("level in range")
}
fn jbk_zstd(v: i32) -> deranged::RangedI32<-22, 22> {
    deranged::RangedI32::<-22, 22>::new(v).expect("level in range")
}

pub fn concat_mode(s: &str) -> ConcatMode {
    match s {
        "one" => ConcatMode::OneFile,
        "two" => ConcatMode::TwoFiles,
        "no" => ConcatMode::NoConcat,
        _ => panic!("bad pkg {s}"),
    }
}

struct Store {
    value_store: jbk::creator::StoreHandle,
    entry_store: Box<jbk::creator::EntryStore<&'static str, &'static str, jbk::creator::BasicEntry<&'static str, &'static str>>>,
    n: u32,
}

impl EntryStoreTrait for Store {
    fn finalize(self: Box<Self>, directory_pack: &mut jbk::creator::DirectoryPackCreator) {
        directory_pack.add_value_store(self.value_store);
        let id = directory_pack.add_entry_store(self.entry_store);
        directory_pack.create_index("idx", Default::default(), 0.into(), id, self.n.into(), jbk::EntryIdx::from(0).into());
    }
}

pub struct Std {
    pub contents: Vec<(u16, u32, Vec<u8>)>, // (pack id, content idx, bytes) per First-variant entry
    pub extra_paths: Vec<String>,
}

/// entries i = 0..n: even -> FirstVariant (a content), odd -> SecondVariant.
/// Contents go round-robin to the main content pack (id 1) and the `extra` packs (ids 2..).
/// `idgap`: the extra packs get ids 2 + idgap + k (pack ids need not be contiguous).
/// `cmax` > 0 caps the content sizes (length % (cmax + 1)): many contents in a small file.
pub fn std_container(out: &str, pkg: &str, comp: &str, n: u32, extra: u32, seed: u64, idgap: u32, cmax: usize, orphans: u32, indexed: bool) -> Result<Std, String> {
    let mut creator = BasicCreator::new(out, concat_mode(pkg), VENDOR, compression(comp), Arc::new(()))
        .map_err(|e| format!("{e}"))?;
    let dir = std::path::Path::new(out).parent().unwrap().to_path_buf();
    let stem = std::path::Path::new(out).file_stem().unwrap().to_str().unwrap().to_string();
    let mut extras = vec![];
    let mut extra_paths = vec![];
    for k in 0..extra {
        let p = dir.join(format!("{stem}.extra{k}.jbkc"));
        let ps = p.to_str().unwrap().to_string();
        let f: Box<dyn jbk::creator::PackRecipient> = jbk::creator::AtomicOutFile::new(&ps).map_err(|e| format!("{e}"))?;
        let c = ContentPackCreator::new_from_output(f, jbk::PackId::from((2 + idgap + k) as u16), VENDOR, Default::default(), compression(comp))
            .map_err(|e| format!("{e}"))?;
        extras.push(c);
        extra_paths.push(ps);
    }
    // `indexed`: the strings go to an indexed value store instead of a plain one
    let value_store = if indexed { jbk::creator::ValueStore::new_indexed() } else { jbk::creator::ValueStore::new_plain(None) };
    let sch = schema::Schema::new(
        schema::CommonProperties::new(vec![
            schema::Property::new_array(1, value_store.clone(), "AString"),
            schema::Property::new_uint("AInteger"),
        ]),
        vec![
            ("FirstVariant", schema::VariantProperties::new(vec![schema::Property::new_content_address("TheContent")])),
            ("SecondVariant", schema::VariantProperties::new(vec![schema::Property::new_uint("AnotherInt")])),
        ],
        None,
    );
    let mut entry_store = Box::new(jbk::creator::EntryStore::new(sch, None));
    let mut contents = vec![];
    // `orphans` tiny contents that no entry refers to: they only make the tables of the content pack big
    for k in 0..orphans {
        let data = gen(3, seed + 7000 + k as u64, "r");
        creator.add_content(Box::new(std::io::Cursor::new(data)), CompHint::Detect).map_err(|e| format!("{e}"))?;
    }
    for i in 0..n {
        let name = format!("name{}-{}", i, seed % 97).into_bytes();
        if i % 2 == 0 {
            let len = [0usize, 5, 52, 300, 1000, 4100][(i as usize / 2 + seed as usize) % 6];
            let len = if cmax > 0 { len % (cmax + 1) } else { len };
            let data = gen(len, seed + i as u64, if i % 4 == 0 { "t" } else { "r" });
            let slot = (i / 2) % (1 + extra);
            let rdr = Box::new(std::io::Cursor::new(data.clone()));
            let addr = if slot == 0 {
                creator.add_content(rdr, CompHint::Detect).map_err(|e| format!("{e}"))?
            } else {
                extras[(slot - 1) as usize].add_content(rdr, CompHint::Detect).map_err(|e| format!("{e}"))?
            };
            contents.push((addr.pack_id.into_u16(), addr.content_id.into_u32(), data));
            entry_store.add_entry(jbk::creator::BasicEntry::new_from_schema(
                &entry_store.schema,
                Some("FirstVariant"),
                HashMap::from([
                    ("AString", jbk::Value::Array(name.into())),
                    ("AInteger", jbk::Value::Unsigned(1000 + i as u64 * 69000)),
                    ("TheContent", jbk::Value::Content(addr)),
                ]),
            ));
        } else {
            entry_store.add_entry(jbk::creator::BasicEntry::new_from_schema(
                &entry_store.schema,
                Some("SecondVariant"),
                HashMap::from([
                    ("AString", jbk::Value::Array(name.into())),
                    ("AInteger", jbk::Value::Unsigned(7 + i as u64)),
                    ("AnotherInt", jbk::Value::Unsigned(i as u64 * 3)),
                ]),
            ));
        }
    }
    let store = Box::new(Store { value_store, entry_store, n });
    creator.finalize(store, extras).map_err(|e| format!("{e}"))?;
    Ok(Std { contents, extra_paths })
}
