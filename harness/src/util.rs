// Shared helpers: case-file parsing, hex, deterministic payload generator.
use std::collections::HashMap;

pub struct Case {
    pub id: String,
    pub family: String,
    pub params: HashMap<String, String>,
    pub lines: Vec<Vec<String>>,
}

impl Case {
    pub fn p(&self, k: &str) -> &str {
        self.params
            .get(k)
            .map(|s| s.as_str())
            .unwrap_or_else(|| panic!("case {}: missing param {}", self.id, k))
    }
    pub fn pu(&self, k: &str) -> u64 {
        self.p(k).parse().unwrap()
    }
    pub fn po(&self, k: &str) -> Option<&str> {
        self.params.get(k).map(|s| s.as_str())
    }
}

pub fn parse_cases(text: &str) -> (u64, Vec<Case>) {
    let mut seed = 0u64;
    let mut cases = vec![];
    let mut cur: Option<Case> = None;
    for line in text.lines() {
        let line = line.trim();
        if line.is_empty() || line.starts_with('#') {
            continue;
        }
        let toks: Vec<String> = line.split(' ').map(|s| s.to_string()).collect();
        match toks[0].as_str() {
            "seed" => seed = toks[1].parse().unwrap(),
            "case" => {
                let mut params = HashMap::new();
                for t in &toks[3..] {
                    if let Some((k, v)) = t.split_once('=') {
                        params.insert(k.to_string(), v.to_string());
                    }
                }
                cur = Some(Case {
                    id: toks[1].clone(),
                    family: toks[2].clone(),
                    params,
                    lines: vec![],
                });
            }
            "end" => cases.push(cur.take().unwrap()),
            _ => cur.as_mut().unwrap().lines.push(toks),
        }
    }
    (seed, cases)
}

pub fn hex(b: &[u8]) -> String {
    if b.is_empty() {
        return "-".to_string();
    }
    let mut s = String::with_capacity(b.len() * 2);
    for x in b {
        s.push_str(&format!("{:02x}", x));
    }
    s
}

pub fn unhex(s: &str) -> Vec<u8> {
    if s == "-" {
        return vec![];
    }
    (0..s.len() / 2)
        .map(|i| u8::from_str_radix(&s[2 * i..2 * i + 2], 16).unwrap())
        .collect()
}

/// xorshift64* byte generator shared with the OCaml driver and the orchestrator.
pub fn gen(len: usize, seed: u64, kind: &str) -> Vec<u8> {
    match kind {
        "z" => vec![0u8; len],
        "t" => (0..len).map(|i| b"abcdefg"[(i + seed as usize) % 7]).collect(),
        _ => {
            let mut x = seed.wrapping_mul(0x9E3779B97F4A7C15).wrapping_add(1);
            if x == 0 {
                x = 1;
            }
            let mut out = Vec::with_capacity(len);
            for _ in 0..len {
                x ^= x >> 12;
                x ^= x << 25;
                x ^= x >> 27;
                out.push((x.wrapping_mul(0x2545F4914F6CDD1D) >> 56) as u8);
            }
            out
        }
    }
}

/// payload token: `x:<hex>` or `g:<len>:<seed>:<kind>`
pub fn payload(tok: &str) -> Vec<u8> {
    if let Some(h) = tok.strip_prefix("x:") {
        unhex(h)
    } else if let Some(g) = tok.strip_prefix("g:") {
        let p: Vec<&str> = g.split(':').collect();
        gen(p[0].parse().unwrap(), p[1].parse().unwrap(), p[2])
    } else {
        panic!("bad payload {tok}")
    }
}

/// short digest for long byte strings: `len:crc32` (IEEE, as zlib.crc32)
pub fn digest(b: &[u8]) -> String {
    static TABLE: std::sync::OnceLock<[u32; 256]> = std::sync::OnceLock::new();
    let t = TABLE.get_or_init(|| {
        let mut t = [0u32; 256];
        for i in 0..256u32 {
            let mut c = i;
            for _ in 0..8 {
                c = if c & 1 != 0 { 0xEDB88320 ^ (c >> 1) } else { c >> 1 };
            }
            t[i as usize] = c;
        }
        t
    });
    let mut c = 0xFFFFFFFFu32;
    for x in b {
        c = t[((c ^ *x as u32) & 0xFF) as usize] ^ (c >> 8);
    }
    format!("{}:{:08x}", b.len(), c ^ 0xFFFFFFFF)
}

/// bytes as hex when short, digest otherwise (the model side prints the same)
pub fn show(b: &[u8]) -> String {
    if b.len() <= 64 {
        format!("x:{}", hex(b))
    } else {
        format!("d:{}", digest(b))
    }
}

pub fn err_class(e: &jubako::Error) -> &'static str {
    use jubako::ErrorKind::*;
    match &**e {
        Io(_) => "ERR_IO",
        Corrupted(_) => "ERR_CORRUPT",
        Format(_) => "ERR_FORMAT",
        Version(_) => "ERR_VERSION",
        NotAJbk => "ERR_NOTJBK",
        MissingFeature(_) => "ERR_FEATURE",
    }
}
