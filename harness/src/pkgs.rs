// C10 / C11 / C14: the same logical container under different packagings and with packs
// made unavailable; dumps through reader::Container.
use crate::dump::dump_container;
use crate::mkcont::std_container;
use crate::util::*;

pub fn run(c: &Case, tmp: &std::path::Path) -> Vec<String> {
    let id = &c.id;
    let mut out = vec![];
    let dir = tmp.join(format!("pk_{}", id));
    let _ = std::fs::remove_dir_all(&dir);
    std::fs::create_dir_all(&dir).unwrap();
    let mut main = dir.join("c.jbk");
    let pkg = c.p("pkg");
    let extra = c.pu("extra") as usize;
    let _st = match std_container(main.to_str().unwrap(), pkg, c.p("comp"), c.pu("n") as u32, extra as u32, c.pu("seed"), c.po("idgap").map(|s| s.parse().unwrap()).unwrap_or(0), c.po("cmax").map(|s| s.parse().unwrap()).unwrap_or(0), c.po("orphans").map(|s| s.parse().unwrap()).unwrap_or(0), c.po("vs") == Some("indexed")) {
        Ok(s) => s,
        Err(e) => {
            out.push(format!("{} create CREATE_FAIL {}", id, e.replace(' ', "_")));
            return out;
        }
    };
    out.push(format!("{} create OK", id));
    for (p, i, data) in &_st.contents {
        out.push(format!("{} @oracle content {}:{} {}", id, p, i, show(data)));
    }
    // pack uuids by pack id, from the manifest
    if let Ok(cp) = jubako::tools::open_pack(&main) {
        if let Ok(Some(r)) = cp.get_manifest_pack_reader() {
            if let Ok(m) = jubako::reader::ManifestPack::new(r) {
                out.push(format!("{} @oracle uuid 0 {}", id, hex(m.get_directory_pack_info().uuid.as_bytes())));
                for pi in m.get_pack_infos() {
                    out.push(format!("{} @oracle uuid {} {}", id, pi.pack_id.into_u16(), hex(pi.uuid.as_bytes())));
                }
            }
        }
    }
    // baseline snapshot and dump
    let base = tmp.join(format!("pk_{}_base", id));
    let _ = std::fs::remove_dir_all(&base);
    std::fs::create_dir_all(&base).unwrap();
    for e in std::fs::read_dir(&dir).unwrap() {
        let e = e.unwrap();
        if e.path().is_file() {
            std::fs::copy(e.path(), base.join(e.file_name())).unwrap();
        }
    }
    emit_state(&mut out, id, "base", &base.join("c.jbk"), &base);
    // file holding pack #k: 0 = directory, 1 = main content pack, 2.. = extra packs
    let file_of = |k: usize| -> std::path::PathBuf {
        match (k, pkg) {
            (0, "no") => dir.join("c..jbkd"),
            (0, _) => dir.join("c.jbk"),
            (1, "one") => dir.join("c.jbk"),
            (1, _) => dir.join("c.jbkc"),
            (k, _) => dir.join(format!("c.extra{}.jbkc", k - 2)),
        }
    };
    for l in &c.lines {
        match l[0].as_str() {
            "concat" => {
                // concat the listed files (by pack number of the file they hold; "m" = the entry-point file) into a new file
                let files: Vec<std::path::PathBuf> = l[1]
                    .split(',')
                    .map(|t| if t == "m" { dir.join("c.jbk") } else { file_of(t.parse().unwrap()) })
                    .collect();
                let outp = dir.join("cat.jbk");
                let r = std::panic::catch_unwind(|| jubako::tools::concat(&files, camino::Utf8Path::from_path(&outp).unwrap()));
                match r {
                    Ok(Ok(())) => main = outp,
                    Ok(Err(e)) => out.push(format!("{} concat {}", id, err_class(&e))),
                    Err(_) => out.push(format!("{} concat PANIC", id)),
                }
            }
            "prefix" => {
                let mut b = payload(&l[1]);
                b.extend(std::fs::read(&main).unwrap());
                let p = dir.join("emb.bin");
                std::fs::write(&p, b).unwrap();
                main = p;
            }
            "remove" => {
                let _ = std::fs::remove_file(file_of(l[1].parse().unwrap()));
            }
            "dirat" => {
                let p = file_of(l[1].parse().unwrap());
                let _ = std::fs::remove_file(&p);
                std::fs::create_dir_all(&p).unwrap();
            }
            "corrupt" => {
                // flip one byte of the first cluster's data of pack #k (inside the range covered by its checksum)
                let k: usize = l[1].parse().unwrap();
                let p = file_of(k);
                let mut b = std::fs::read(&p).unwrap();
                let pos = if k == 1 && pkg != "one" { 128 + 128 } else { 128 };
                if pos < b.len() {
                    b[pos] ^= 0x40;
                }
                std::fs::write(&p, b).unwrap();
            }
            "group" => {
                // the files of packs a,b,.. are concatenated into ONE sibling file and every one of these packs is
                // recorded at that single location (what tools::concat + tools::set_location produce); originals removed
                let files: Vec<std::path::PathBuf> = l[1].split(',').map(|t| file_of(t.parse().unwrap())).collect();
                let outp = dir.join(&l[2]);
                let r = std::panic::catch_unwind(|| -> Result<(), String> {
                    jubako::tools::concat(&files, camino::Utf8Path::from_path(&outp).unwrap()).map_err(|e| err_class(&e).to_string())?;
                    for f in &files {
                        // the file may be the pack itself or a container pack holding it
                        let cp = jubako::tools::open_pack(f).map_err(|e| err_class(&e).to_string())?;
                        let uuids: Vec<uuid::Uuid> = cp.iter().map(|(u, _)| *u).collect();
                        for u in uuids {
                            jubako::tools::set_location(&main, u, l[2].as_str().into()).map_err(|e| err_class(&e).to_string())?;
                        }
                    }
                    Ok(())
                });
                match r {
                    Ok(Ok(())) => {
                        for f in &files {
                            let _ = std::fs::remove_file(f);
                        }
                    }
                    Ok(Err(e)) => out.push(format!("{} group {}", id, e)),
                    Err(_) => out.push(format!("{} group PANIC", id)),
                }
            }
            "fileis" => {
                // the file <name> is replaced by the file that held pack #k alone (a different valid pack at that location)
                let k: usize = l[2].parse().unwrap();
                let src = base.join(file_of(k).file_name().unwrap());
                std::fs::copy(&src, dir.join(&l[1])).unwrap();
            }
            "corruptin" => {
                // flip one byte inside pack #k's checked range, inside the file <name> which holds it alone
                let p = dir.join(&l[1]);
                let k: usize = l[2].parse().unwrap();
                let mut b = std::fs::read(&p).unwrap();
                let pos = if k == 1 && pkg != "one" { 128 + 128 } else { 128 };
                if pos < b.len() {
                    b[pos] ^= 0x40;
                }
                std::fs::write(&p, b).unwrap();
            }
            "swap" => {
                let src = file_of(l[2].parse().unwrap());
                let dst = file_of(l[1].parse().unwrap());
                std::fs::copy(&src, &dst).unwrap();
            }
            _ => {}
        }
    }
    emit_state(&mut out, id, "final", &main, &dir);
    out
}

fn emit_state(out: &mut Vec<String>, id: &str, tag: &str, main: &std::path::Path, dir: &std::path::Path) {
    out.push(format!("{} @model {} main {}", id, tag, main.display()));
    for e in std::fs::read_dir(dir).unwrap() {
        let e = e.unwrap();
        if e.path().is_file() && e.path() != main {
            out.push(format!("{} @model {} sibling {} {}", id, tag, e.file_name().to_str().unwrap(), e.path().display()));
        }
    }
    for l in dump_container(main, &["idx"], true) {
        out.push(format!("{} {} {}", id, tag, l));
    }
}
