// C04 / C05 / C06: read a damaged copy of a base container. The damage is applied here on a
// private copy of the base directory; the same operation is applied by the model driver in memory.
use crate::dump::dump_container;
use crate::util::*;

pub fn apply(bytes: &mut Vec<u8>, op: &str) {
    let p: Vec<&str> = op.split(':').collect();
    match p[0] {
        "none" => {}
        "flip" => {
            let pos: usize = p[1].parse().unwrap();
            let mask = u8::from_str_radix(p[2], 16).unwrap();
            if pos < bytes.len() {
                bytes[pos] ^= mask;
            }
        }
        "xor" => {
            let pos: usize = p[1].parse().unwrap();
            for (i, b) in unhex(p[2]).iter().enumerate() {
                if pos + i < bytes.len() {
                    bytes[pos + i] ^= b;
                }
            }
        }
        "zero" => {
            let pos: usize = p[1].parse().unwrap();
            let len: usize = p[2].parse().unwrap();
            for i in pos..(pos + len).min(bytes.len()) {
                bytes[i] = 0;
            }
        }
        "write" => {
            let pos: usize = p[1].parse().unwrap();
            for (i, b) in unhex(p[2]).iter().enumerate() {
                if pos + i < bytes.len() {
                    bytes[pos + i] = *b;
                }
            }
        }
        "trunc" => {
            let len: usize = p[1].parse().unwrap();
            bytes.truncate(len);
        }
        "append" => bytes.extend(payload(&p[1..].join(":"))),
        "replace" => *bytes = payload(&p[1..].join(":")),
        _ => panic!("bad damage op {op}"),
    }
}

pub fn run(c: &Case, tmp: &std::path::Path) -> Vec<String> {
    let base = std::path::PathBuf::from(c.p("base"));
    let dir = tmp.join(format!("dmg_{}", c.id));
    let _ = std::fs::remove_dir_all(&dir);
    std::fs::create_dir_all(&dir).unwrap();
    for e in std::fs::read_dir(&base).unwrap() {
        let e = e.unwrap();
        if e.path().is_file() {
            std::fs::copy(e.path(), dir.join(e.file_name())).unwrap();
        }
    }
    let target = dir.join(c.p("file"));
    if c.p("op") == "remove" {
        std::fs::remove_file(&target).unwrap();
    } else {
        let mut bytes = std::fs::read(&target).unwrap();
        apply(&mut bytes, c.p("op"));
        std::fs::write(&target, &bytes).unwrap();
    }
    let main = dir.join(c.p("main"));
    let mut out = vec![];
    let lines = dump_container(&main, &["idx"], true);
    if let Some(t) = c.po("mt") {
        // the contents the single-threaded read met, read again by several threads at once
        let mut addrs: Vec<(u16, u32)> = vec![];
        for l in &lines {
            for tok in l.split(' ') {
                if let Some((_, rest)) = tok.split_once("=c") {
                    let a = rest.split('=').next().unwrap_or("");
                    if let Some((p, i)) = a.split_once(':') {
                        if let (Ok(p), Ok(i)) = (p.parse(), i.parse()) {
                            if !addrs.contains(&(p, i)) {
                                addrs.push((p, i));
                            }
                        }
                    }
                }
            }
        }
        for l in crate::dump::mt_pass(&main, &addrs, t.parse().unwrap()) {
            out.push(format!("{} @oracle {}", c.id, l));
        }
    }
    for l in lines {
        out.push(format!("{} {}", c.id, l));
    }
    let _ = std::fs::remove_dir_all(&dir);
    out
}
