// C02 / C03 / C15: directory packs built from a schema + entries described in the case file,
// read back through reader::Container (dump.rs), lookups through RangeTrait::find.
use crate::dump::{dump_container, show_value};
use crate::mkcont::VENDOR;
use crate::util::*;
use jubako as jbk;
use jubako::creator::schema;
use jubako::reader::{EntryTrait, Range};
use std::collections::HashMap;

fn leak(s: &str) -> &'static str {
    Box::leak(s.to_string().into_boxed_str())
}

fn parse_value(tok: &str, bounds: &[jbk::Bound<jbk::EntryIdx>], delayed: bool) -> jbk::Value {
    let (k, rest) = tok.split_at(1);
    match k {
        // `delayed`: the same integers handed over as delayed values (Value::UnsignedWord / SignedWord), resolved at write time
        "u" if delayed => jbk::Value::UnsignedWord(rest.parse::<u64>().unwrap().into()),
        "s" if delayed => jbk::Value::SignedWord(rest.parse::<i64>().unwrap().into()),
        "u" => jbk::Value::Unsigned(rest.parse().unwrap()),
        "s" => jbk::Value::Signed(rest.parse().unwrap()),
        "a" => jbk::Value::Array(payload(rest.strip_prefix(":").unwrap_or(rest)).into()),
        "c" => {
            let (p, i) = rest.split_once(':').unwrap();
            jbk::Value::Content(jbk::ContentAddress::new(
                jbk::PackId::from(p.parse::<u16>().unwrap()),
                jbk::ContentIdx::from(i.parse::<u32>().unwrap()),
            ))
        }
        "r" => {
            // reference to the final position of entry #k
            let b = bounds[rest.parse::<usize>().unwrap()].clone();
            jbk::Value::UnsignedWord(b.into())
        }
        _ => panic!("bad value {tok}"),
    }
}

struct Cmp<'a> {
    inner: jbk::reader::builder::AnyBuilder,
    names: Vec<String>,
    values: Vec<jbk::Value>,
    ordered: bool,
    _p: std::marker::PhantomData<&'a ()>,
}
// A comparator with ordered() selectable (the crate's PropertyCompare is always unordered).
impl jbk::reader::CompareTrait for Cmp<'_> {
    fn ordered(&self) -> bool {
        self.ordered
    }
    fn compare_entry(&self, idx: jbk::EntryIdx) -> jbk::Result<std::cmp::Ordering> {
        use jubako::reader::builder::BuilderTrait;
        let entry = self.inner.create_entry(idx)?.expect("valid idx");
        for (name, value) in self.names.iter().zip(self.values.iter()) {
            let raw = entry.get_value(name)?.expect("name in entry");
            let o = jbk::verif_api::raw_value_cmp(&raw, value)?.expect("comparable");
            if o.is_ne() {
                return Ok(o);
            }
        }
        Ok(std::cmp::Ordering::Equal)
    }
}

pub fn run(c: &Case, tmp: &std::path::Path) -> Vec<String> {
    let id = &c.id;
    let mut out = vec![];
    let dir = tmp.join(format!("dir_{}", id));
    let _ = std::fs::remove_dir_all(&dir);
    std::fs::create_dir_all(&dir).unwrap();
    let dpath = dir.join("d.jbkd");
    let mpath = dir.join("d.jbkm");
    // ---- parse the case ----
    let mut stores: Vec<jbk::creator::StoreHandle> = vec![];
    let mut common: Vec<schema::Property<&'static str>> = vec![];
    let mut variants: Vec<(&'static str, Vec<schema::Property<&'static str>>)> = vec![];
    let mut sort: Option<Vec<&'static str>> = None;
    let mut nentries = 0usize;
    for l in &c.lines {
        match l[0].as_str() {
            "store" => stores.push(if l[2] == "plain" {
                jbk::creator::ValueStore::new_plain(None)
            } else {
                jbk::creator::ValueStore::new_indexed()
            }),
            "prop" => {
                let name = leak(&l[4]);
                let p = match l[3].as_str() {
                    "u" => schema::Property::new_uint(name),
                    "s" => schema::Property::new_sint(name),
                    "c" => schema::Property::new_content_address(name),
                    "a" => schema::Property::new_array(l[5].parse().unwrap(), stores[l[6].parse::<usize>().unwrap()].clone(), name),
                    _ => panic!("bad prop"),
                };
                if l[1] == "common" {
                    common.push(p);
                } else {
                    let vn = leak(&l[2]);
                    match variants.iter_mut().find(|(n, _)| *n == vn) {
                        Some((_, v)) => v.push(p),
                        None => variants.push((vn, vec![p])),
                    }
                }
            }
            "variant" => {
                // declares a variant (possibly with no property)
                let vn = leak(&l[1]);
                if !variants.iter().any(|(n, _)| *n == vn) {
                    variants.push((vn, vec![]));
                }
            }
            "sort" => sort = Some(l[1..].iter().map(|s| leak(s)).collect()),
            "entry" => nentries += 1,
            _ => {}
        }
    }
    let mut vows: Vec<Option<jbk::Vow<jbk::EntryIdx>>> = (0..nentries).map(|_| Some(Default::default())).collect();
    let prebound: Vec<jbk::Bound<jbk::EntryIdx>> = vows.iter().map(|v| v.as_ref().unwrap().bind()).collect();
    let delayed = c.lines.iter().any(|l| l[0] == "delayed");
    let sch = schema::Schema::new(
        schema::CommonProperties::new(common),
        variants.into_iter().map(|(n, v)| (n, schema::VariantProperties::new(v))).collect(),
        sort,
    );
    let created = std::panic::catch_unwind(std::panic::AssertUnwindSafe(|| -> Result<Vec<jbk::Bound<jbk::EntryIdx>>, String> {
        let mut entry_store = Box::new(jbk::creator::EntryStore::new(sch, None));
        let mut bounds = vec![];
        let mut k = 0;
        for l in &c.lines {
            if l[0] != "entry" {
                continue;
            }
            let variant = if l[1] == "-" { None } else { Some(leak(&l[1])) };
            let mut values = HashMap::new();
            for kv in &l[2..] {
                let (n, v) = kv.split_once('=').unwrap();
                values.insert(leak(n), parse_value(v, &prebound, delayed));
            }
            let e = jbk::creator::BasicEntry::new_from_schema_idx(&entry_store.schema, vows[k].take().unwrap(), variant, values);
            // bind our own vow to this entry's final position: BasicEntry owns its Vow; we keep the Bound it returns
            let b = entry_store.add_entry(e);
            bounds.push(b);
            k += 1;
        }
        let _ = k;
        // free data: `packfree <48 hex>` for the directory pack, `indexfree <name> <8 hex>` for an index
        let mut pack_free = [0u8; 24];
        let mut index_free: std::collections::HashMap<String, [u8; 4]> = Default::default();
        for l in &c.lines {
            if l[0] == "packfree" {
                pack_free.copy_from_slice(&unhex(&l[1]));
            } else if l[0] == "indexfree" {
                let mut f = [0u8; 4];
                f.copy_from_slice(&unhex(&l[2]));
                index_free.insert(l[1].clone(), f);
            }
        }
        let mut directory_pack = jbk::creator::DirectoryPackCreator::new(jbk::PackId::from(0), VENDOR, pack_free.into());
        for s in &stores {
            directory_pack.add_value_store(s.clone());
        }
        let sid = directory_pack.add_entry_store(entry_store);
        let mut has_index = false;
        for l in &c.lines {
            if l[0] == "index" {
                has_index = true;
                directory_pack.create_index(&l[1], index_free.get(&l[1]).copied().unwrap_or_default().into(), 0.into(), sid, (l[3].parse::<u32>().unwrap()).into(),
                    jbk::EntryIdx::from(l[2].parse::<u32>().unwrap()).into());
            }
        }
        if !has_index {
            directory_pack.create_index("idx", Default::default(), 0.into(), sid, (nentries as u32).into(), jbk::EntryIdx::from(0).into());
        }
        let mut dfile = std::fs::OpenOptions::new().read(true).write(true).create(true).truncate(true).open(&dpath).map_err(|e| e.to_string())?;
        let dinfo = directory_pack.finalize().map_err(|e| e.to_string())?.write(&mut dfile).map_err(|e| e.to_string())?;
        let mut m = jbk::creator::ManifestPackCreator::new(VENDOR, Default::default());
        m.add_pack(dinfo, "d.jbkd");
        let mut mfile = std::fs::OpenOptions::new().read(true).write(true).create(true).truncate(true).open(&mpath).map_err(|e| e.to_string())?;
        m.finalize(&mut mfile).map_err(|e| e.to_string())?;
        Ok(bounds)
    }));
    let bounds = match created {
        Ok(Ok(b)) => b,
        Ok(Err(e)) => {
            out.push(format!("{} create CREATE_FAIL {}", id, e.replace(' ', "_").replace('\n', "")));
            return out;
        }
        Err(_) => {
            out.push(format!("{} create CREATE_FAIL PANIC", id));
            return out;
        }
    };
    out.push(format!("{} create OK", id));
    let keep = tmp.join(format!("dirpack_{}.jbkd", id));
    std::fs::copy(&dpath, &keep).unwrap();
    out.push(format!("{} @model file {}", id, keep.display()));
    // references: vows of case-level references are separate from the entries' own idx; refs use entry bounds
    out.push(format!("{} bounds {}", id, bounds.iter().map(|b| b.get().into_u32().to_string()).collect::<Vec<_>>().join(",")));
    let mut names: Vec<String> = c.lines.iter().filter(|l| l[0] == "index").map(|l| l[1].clone()).collect();
    if names.is_empty() {
        names.push("idx".into());
    }
    let nrefs: Vec<&str> = names.iter().map(|s| s.as_str()).collect();
    for l in dump_container(&mpath, &nrefs, true) {
        out.push(format!("{} {}", id, l));
    }
    // lookups
    if c.lines.iter().any(|l| l[0] == "find") {
        if let Ok(container) = jbk::reader::Container::new(&mpath) {
            for (fi, l) in c.lines.iter().filter(|l| l[0] == "find").enumerate() {
                let r = std::panic::catch_unwind(std::panic::AssertUnwindSafe(|| -> Result<String, String> {
                    let index = container.get_index_for_name(&l[1]).map_err(|e| err_class(&e).to_string())?.ok_or("NOINDEX")?;
                    let store = index.get_store(container.get_entry_storage()).map_err(|e| err_class(&e).to_string())?;
                    let builder = jbk::reader::builder::AnyBuilder::new(store, container.get_value_storage().as_ref()).map_err(|e| err_class(&e).to_string())?;
                    let mut names = vec![];
                    let mut values = vec![];
                    for kv in &l[3..] {
                        let (n, v) = kv.split_once('=').unwrap();
                        names.push(n.to_string());
                        values.push(parse_value(v, &[], false));
                    }
                    let cmp = Cmp { inner: builder, names, values, ordered: l[2] == "ordered=1", _p: Default::default() };
                    let found = index.find(&cmp).map_err(|e| err_class(&e).to_string())?;
                    Ok(match found {
                        None => "none".to_string(),
                        Some(i) => {
                            // report the index and the key actually found there
                            let b2 = jbk::reader::builder::AnyBuilder::new(index.get_store(container.get_entry_storage()).unwrap(), container.get_value_storage().as_ref()).unwrap();
                            let e = index.get_entry(&b2, i).unwrap().unwrap();
                            let mut s = format!("{}", i.into_u32());
                            for kv in &l[3..] {
                                let (n, _) = kv.split_once('=').unwrap();
                                let v = e.get_value(n).unwrap().unwrap();
                                s.push_str(&format!(" {}={}", n, show_value(&container, &v, false)));
                            }
                            s
                        }
                    })
                }));
                out.push(format!("{} find {} {}", id, fi, match r { Ok(Ok(s)) => s, Ok(Err(e)) => e, Err(_) => "PANIC".into() }));
            }
        }
    }
    if std::env::var("JBKV_KEEP").is_err() {
        let _ = std::fs::remove_dir_all(&dir);
    }
    out
}
