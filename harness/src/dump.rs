// Logical dump of a container through the public reader API: pack list, indexes, entries,
// property values, content bytes, check results. One canonical line per observation.
use crate::util::*;
use jubako as jbk;
use jubako::reader::builder::BuilderTrait;
use jubako::reader::{EntryTrait, MayMissPack, Range};
use std::panic::{catch_unwind, AssertUnwindSafe};

fn guard<T>(f: impl FnOnce() -> Result<T, String>) -> Result<T, String> {
    match catch_unwind(AssertUnwindSafe(f)) {
        Ok(r) => r,
        Err(_) => Err("PANIC".to_string()),
    }
}

fn cls<T>(r: jbk::Result<T>) -> Result<T, String> {
    r.map_err(|e| {
        if std::env::var("JBKV_DEBUG").is_ok() {
            eprintln!("DEBUG error: {e}");
        }
        err_class(&e).to_string()
    })
}

pub fn show_value(container: &jbk::reader::Container, v: &jbk::reader::RawValue, with_content: bool) -> String {
    use jbk::reader::RawValue::*;
    match v {
        Content(c) => {
            let mut s = format!("c{}:{}", c.pack_id.into_u16(), c.content_id.into_u32());
            if with_content {
                s.push('=');
                s.push_str(&content_obs(container, *c));
            }
            s
        }
        U8(_) | U16(_) | U32(_) | U64(_) => format!("u{}", v.as_unsigned()),
        I8(_) | I16(_) | I32(_) | I64(_) => format!("s{}", v.as_signed()),
        Array(_) => match guard(|| cls(v.as_vec())) {
            Ok(b) => format!("a{}", show(&b)),
            Err(e) => e,
        },
    }
}

pub fn content_obs(container: &jbk::reader::Container, c: jbk::ContentAddress) -> String {
    let r = guard(|| {
        let b = cls(container.get_bytes(c))?;
        Ok(match b {
            None => "NOPACK".to_string(),
            Some(MayMissPack::MISSING(pi)) => format!("MISSING:{}", hex(pi.uuid.as_bytes())),
            Some(MayMissPack::FOUND(None)) => "NOCONTENT".to_string(),
            Some(MayMissPack::FOUND(Some(region))) => {
                let n = region.size().into_u64() as usize;
                let mut buf = Vec::with_capacity(n.min(1 << 26));
                use std::io::Read;
                match region.stream().read_to_end(&mut buf) {
                    Ok(_) => show(&buf),
                    Err(_) => "ERR_IO".to_string(),
                }
            }
        })
    });
    match r {
        Ok(s) => s,
        Err(e) => e,
    }
}

/// Dump everything reachable from index names `indexes`.
pub fn dump_container(path: &std::path::Path, indexes: &[&str], with_check: bool) -> Vec<String> {
    let mut out = vec![];
    let container = match guard(|| cls(jbk::reader::Container::new(path))) {
        Ok(c) => c,
        Err(e) => {
            out.push(format!("open {e}"));
            return out;
        }
    };
    out.push("open OK".to_string());
    out.push(format!("packcount {}", container.pack_count().into_u16()));
    for name in indexes {
        let index = match guard(|| cls(container.get_index_for_name(name))) {
            Ok(Some(i)) => i,
            Ok(None) => {
                out.push(format!("index {name} NONE"));
                continue;
            }
            Err(e) => {
                out.push(format!("index {name} {e}"));
                continue;
            }
        };
        out.push(format!(
            "index {name} store={} offset={} count={}",
            index.get_store_id().into_u32(),
            index.offset().into_u32(),
            index.count().into_u32()
        ));
        let builder = match guard(|| {
            let store = cls(index.get_store(container.get_entry_storage()))?;
            cls(jbk::reader::builder::AnyBuilder::new(store, container.get_value_storage().as_ref()))
        }) {
            Ok(b) => b,
            Err(e) => {
                out.push(format!("store {name} {e}"));
                continue;
            }
        };
        let store = index.get_store(container.get_entry_storage()).unwrap();
        let layout = store.layout();
        let mut common: Vec<String> = layout.common.iter().map(|(n, _)| n.to_string()).collect();
        common.sort();
        let mut variants: Vec<Vec<String>> = vec![];
        if let Some(vp) = &layout.variant_part {
            for v in vp.variants.iter() {
                let mut names: Vec<String> = v.iter().map(|(n, _)| n.to_string()).collect();
                names.sort();
                variants.push(names);
            }
        }
        out.push(format!("layout {name} common={} variants={}", common.join(","), variants.iter().map(|v| v.join(",")).collect::<Vec<_>>().join("|")));
        // the dump shows the first 200000 entries of an index (a damaged count may be huge)
        for j in 0..index.count().into_u32().min(200000) {
            let line = guard(|| {
                let entry = cls(index.get_entry(&builder, jbk::EntryIdx::from(j)))?;
                let entry = match entry {
                    None => return Ok("NONE".to_string()),
                    Some(e) => e,
                };
                let vid = cls(entry.get_variant_id())?;
                let mut s = match vid {
                    None => "v=-".to_string(),
                    Some(v) => format!("v={}", v.into_u8()),
                };
                let mut names = common.clone();
                if let Some(v) = vid {
                    if let Some(vn) = variants.get(v.into_u8() as usize) {
                        names.extend(vn.iter().cloned());
                    }
                }
                for n in names {
                    let val = guard(|| cls(entry.get_value(&n)));
                    s.push(' ');
                    s.push_str(&n);
                    s.push('=');
                    match val {
                        Ok(Some(v)) => s.push_str(&show_value(&container, &v, true)),
                        Ok(None) => s.push_str("ABSENT"),
                        Err(e) => s.push_str(&e),
                    }
                }
                Ok(s)
            });
            out.push(format!("entry {name} {j} {}", line.unwrap_or_else(|e| e)));
        }
        // one past the window must answer "no such entry"
        let past = guard(|| Ok(cls(index.get_entry(&builder, jbk::EntryIdx::from(index.count().into_u32())))?.is_none()));
        out.push(format!("past {name} {}", match past { Ok(true) => "NONE".to_string(), Ok(false) => "SOME".to_string(), Err(e) => e }));
    }
    if with_check {
        let r = guard(|| cls(container.check()));
        out.push(format!("check {}", match r { Ok(b) => b.to_string(), Err(e) => e }));
    }
    out
}

/// C06 with several readers: `threads` threads read each listed content of a freshly opened container at the
/// same moment, while the background decoder is held back at every chunk (event hook), so that the readers
/// are asleep on the decoder's condition variable when it publishes or fails. Every read must terminate.
pub fn mt_pass(path: &std::path::Path, addrs: &[(u16, u32)], threads: usize) -> Vec<String> {
    use jubako::verif_api as va;
    va::set_event_callback(Box::new(|kind, _, _, _| {
        if kind == va::ev::CHUNK {
            std::thread::sleep(std::time::Duration::from_millis(12));
        }
    }));
    let container = match guard(|| cls(jbk::reader::Container::new(path))) {
        Ok(c) => std::sync::Arc::new(c),
        Err(e) => return vec![format!("mt open {e}")],
    };
    let mut out = vec![];
    for (p, i) in addrs {
        let addr = jbk::ContentAddress::new(jbk::PackId::from(*p), jbk::ContentIdx::from(*i));
        let barrier = std::sync::Arc::new(std::sync::Barrier::new(threads));
        let hs: Vec<_> = (0..threads)
            .map(|_| {
                let (c, b) = (container.clone(), barrier.clone());
                std::thread::spawn(move || {
                    b.wait();
                    content_obs(&c, addr)
                })
            })
            .collect();
        let rs: Vec<String> = hs.into_iter().map(|h| h.join().unwrap_or_else(|_| "PANIC".to_string())).collect();
        let same = rs.iter().all(|r| r == &rs[0]);
        out.push(format!("mt c{}:{} {} {}", p, i, if same { "same" } else { "DIFFER" }, rs[0]));
    }
    out
}
