#!/bin/bash
# Builds the whole framework offline from files on disk: Coq development (full .vo), extraction +
# OCaml driver, Rust harness (debug and release) against /repo's current tree with hooks enabled.
set -e
cd "$(dirname "$0")"
export CARGO_NET_OFFLINE=true
mkdir -p work evidence
( cd coq && coq_makefile -f _CoqProject -o Makefile && timeout 3000 make -j16 )
python3 - <<'PY'
import sys
sys.path.insert(0, ".")
from vlib import common as C
ok, log = C.build_ocaml()
print("ocaml driver:", "ok" if ok else "FAILED\n" + log[-3000:])
ok1, log1, _ = C.build_harness(False)
print("harness debug:", "ok" if ok1 else "FAILED\n" + log1[-3000:])
ok2, log2, _ = C.build_harness(True)
print("harness release:", "ok" if ok2 else "FAILED\n" + log2[-3000:])
sys.exit(0 if ok and ok1 and ok2 else 1)
PY
