#!/usr/bin/env python3
"""Re-derives /verif/corpus from the PINNED version of jubako (commit fc3306d + the verif hooks only).
Builds the harness against a scratch worktree of the pinned tree, writes ~45 small containers covering
all compressions, packagings, store kinds and property kinds (only inputs on which the pinned writer is
correct: no D3-D6 triggers), and stores each with the logical content that was written.
usage: gen_corpus.py   (needs /repo; uses /tmp/pinned*, removed at the end)"""
import json, os, random, shutil, subprocess, sys
sys.path.insert(0, "/verif")
from vlib import common as C, pkgfam as P, dirfam as D

PINNED = "fc3306d"
HOOKS = ["5b9512c", "26d34d2"]
WT, HW, WORK = "/tmp/pinned", "/tmp/pinned_harness", "/tmp/pinned_work"


def sh(cmd, **kw):
    print("+", cmd)
    subprocess.run(cmd, shell=True, check=True, **kw)


def main():
    for p in (HW, WORK):
        shutil.rmtree(p, ignore_errors=True)
    subprocess.run("git -C /repo worktree remove --force %s" % WT, shell=True)
    sh("git -C /repo worktree add -q --detach %s %s" % (WT, PINNED))
    sh("git -C %s cherry-pick %s" % (WT, " ".join(HOOKS)))
    shutil.copytree("/verif/harness", HW, ignore=shutil.ignore_patterns("target"))
    t = open(HW + "/Cargo.toml").read().replace('path = "/repo"', 'path = "%s"' % WT)
    open(HW + "/Cargo.toml", "w").write(t)
    sh("cd %s && CARGO_NET_OFFLINE=true cargo build --offline 2>&1 | tail -2" % HW)
    rng = random.Random(20260930)
    cases, meta = [], []
    k = 0
    for pkg in ("one", "two", "no"):
        for comp in ("none", "zstd", "lz4", "lzma"):
            for n, extra in ((5, 0), (8, 1)) if comp != "lzma" else ((5, 1),):
                cid = "p%02d" % k; k += 1
                cases.append("case %s pkgs pkg=%s comp=%s n=%d extra=%d seed=%d\nend\n" % (cid, pkg, comp, n, extra, 100 + k))
                meta.append(dict(id=cid, family="pkgs", pkg=pkg, comp=comp, n=n, extra=extra, seed=100 + k))
    # directory packs: store kinds x property kinds; values chosen so that the pinned writer is right
    dcases = []
    for i in range(14):
        stores = [["plain"], ["indexed"], ["plain", "indexed"]][i % 3]
        props, entries = [], []
        props.append(dict(variant=None, kind="u", name="u"))
        props.append(dict(variant=None, kind="a", name="a", fixed=[0, 1, 2, 3, 31][i % 5], store=0))
        props.append(dict(variant=None, kind="c", name="c"))
        if i % 2:
            props.append(dict(variant=None, kind="a", name="b", fixed=0, store=len(stores) - 1))
        vorder = []
        if i % 3:
            vorder = ["V0", "V1"]
            props.append(dict(variant="V0", kind="u", name="x"))
            props.append(dict(variant="V0", kind="a", name="y", fixed=2, store=0))
            props.append(dict(variant="V1", kind="u", name="z"))
        for j in range([0, 1, 3, 9, 30][i % 5]):
            v = rng.choice(vorder) if vorder else None
            vals = {"u": ("u", rng.choice(D.U_BOUNDS)), "a": ("a", "g:%d:%d:r" % (rng.choice([0, 1, 2, 3, 30, 31, 32, 300]), j + 1)),
                    "c": ("c", rng.choice([1, 2, 300]), rng.choice([0, 255, 256, 70000]))}
            if i % 2:
                vals["b"] = ("a", "g:%d:%d:t" % (rng.choice([0, 5, 400]), j + 7))
            if v == "V0":
                vals["x"] = ("u", rng.randrange(2**33)); vals["y"] = ("a", "g:%d:%d:r" % (rng.choice([0, 1, 2, 3, 50]), j + 3))
            if v == "V1":
                vals["z"] = ("u", j * 1000 + rng.randrange(7))   # varying, never constant (pinned D5)
            entries.append(dict(variant=v, values=vals))
        c = dict(id="d%02d" % i, stores=stores, props=props, variant_order=vorder, entries=entries, sort=None, finds=[],
                 indexes=[("all", 0, len(entries))] + ([("win", 1, len(entries) - 2)] if len(entries) > 3 else []))
        dcases.append(c)
        cases.append(D.case_text(c, 0).split("\n", 1)[1])
        meta.append(dict(id=c["id"], family="dir"))
    os.makedirs(WORK)
    open(WORK + "/cases.txt", "w").write("seed 0\n" + "".join(cases))
    sh("cd %s && JBKV_KEEP=1 target/debug/jbkv %s/cases.txt %s/rust.out %s/tmp" % (HW, WORK, WORK, WORK))
    R = C.read_obs(WORK + "/rust.out")
    corpus = "/verif/corpus"
    shutil.rmtree(corpus, ignore_errors=True)
    os.makedirs(corpus)
    index = []
    for m in meta:
        cid = m["id"]
        assert any(l == "create OK" for l in R[cid]), (cid, R[cid][:3])
        dst = os.path.join(corpus, cid)
        if m["family"] == "pkgs":
            shutil.copytree("%s/tmp/pk_%s_base" % (WORK, cid), dst)
            exp = P.expected_std(m["n"], m["extra"], m["seed"])
            m.update(main="c.jbk", indexes=["idx"])
        else:
            shutil.copytree("%s/tmp/dir_%s" % (WORK, cid), dst)
            c = next(x for x in dcases if x["id"] == cid)
            exp = [l for l in D.expected_dump(c)]
            exp = [__import__("re").sub(r"(c\d+:\d+)(?=( |$))", r"\1=NOPACK", l) for l in exp]
            m.update(main="d.jbkm", indexes=[nm for nm, _, _ in c["indexes"]])
        m["expected"] = exp
        index.append(m)
    json.dump({"pinned": PINNED, "hooks": HOOKS, "generator": "tools/gen_corpus.py", "entries": index},
              open(os.path.join(corpus, "index.json"), "w"), indent=0)
    sh("git -C /repo worktree remove --force %s" % WT)
    shutil.rmtree(HW, ignore_errors=True); shutil.rmtree(WORK, ignore_errors=True)
    sh("du -sh /verif/corpus; ls /verif/corpus | wc -l")


main()
