#!/usr/bin/env python3
"""runs the quick check of every property claimed in MANIFEST.json on the current tree and validates the evidence files"""
import json, subprocess, sys, time
m = json.load(open("/verif/MANIFEST.json"))
bad = 0
assert subprocess.run("git -C /repo status --porcelain", shell=True, capture_output=True, text=True).stdout.strip() == "", "/repo is dirty"
for c in m["checks"]:
    t0 = time.time()
    p = subprocess.run(c["quick_cmd"], shell=True, cwd="/verif", capture_output=True, text=True)
    last = (p.stdout.strip().splitlines() or ["<no output>"])[-1]
    v = subprocess.run(["python3-vt", "-c", "import json,jsonschema,sys; jsonschema.validate(json.load(open('/verif/%s')), json.load(open('/root/.vp/EVIDENCE.schema.json')))" % c["evidence_file"]], capture_output=True, text=True)
    e = json.load(open("/verif/" + c["evidence_file"]))
    okev = v.returncode == 0 and e["coverage"].get("discharged") == e["coverage"].get("obligations") and e.get("violations") == 0
    print("%s rc=%d %.0fs evidence=%s  %s" % (c["property_id"], p.returncode, time.time() - t0, "ok" if okev else "BAD", last))
    if p.returncode != 0 or not okev:
        bad += 1
sys.exit(1 if bad else 0)
