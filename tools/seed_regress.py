#!/usr/bin/env python3
"""Re-run every seeded change against the CURRENT /repo: apply the patch (3-way when the tree moved on),
run the quick check of its property, undo, record. Do not run other checks while this runs: it edits /repo.
usage: seed_regress.py [seed ids...]"""
import json, os, subprocess, sys, time
def sh(cmd, timeout=3600):
    p = subprocess.run(cmd, shell=True, stdout=subprocess.PIPE, stderr=subprocess.STDOUT, text=True, timeout=timeout)
    return p.returncode, p.stdout
assert sh("git -C /repo status --porcelain")[1].strip() == "", "/repo is dirty"
head = sh("git -C /repo rev-parse --short HEAD")[1].strip()
ids = sys.argv[1:] or sorted(os.listdir("/verif/seeded"))
rows = []
for sid in ids:
    d = os.path.join("/verif/seeded", sid)
    meta = json.load(open(os.path.join(d, "meta.json")))
    pid = meta["property"]
    patches = sorted((f for f in os.listdir(d) if f.endswith(".diff")), key=lambda f: (not f.startswith("patch_rebased"), f))
    applied = None
    for pf in patches:
        rc, out = sh("git -C /repo apply --3way %s" % os.path.join(d, pf))
        if rc == 0:
            applied = pf
            break
        sh("git -C /repo reset -q ; git -C /repo checkout -- .")
    if not applied:
        rows.append((sid, pid, "PATCH DOES NOT APPLY", 0)); print(rows[-1]); continue
    sh("git -C /repo reset -q")
    rc, out = sh("cd /repo && cargo build --offline 2>&1 | tail -2")
    t0 = time.time()
    rc, out = sh("cd /verif && ./check %s --tier quick 2>&1" % pid)
    det = ("VIOLATION property=%s" % pid) in out
    first = next((l for l in out.splitlines() if l.startswith("#")), "")[:200]
    sh("git -C /repo checkout -- .")
    assert sh("git -C /repo status --porcelain")[1].strip() == "", "/repo not restored"
    meta.setdefault("regress", {})[head] = dict(applied=applied, detected=det, first=first, wall_s=round(time.time() - t0))
    json.dump(meta, open(os.path.join(d, "meta.json"), "w"), indent=1)
    rows.append((sid, pid, "DETECTED" if det else "MISSED", round(time.time() - t0))); print(rows[-1], first[:120], flush=True)
print("missed:", [r[0] for r in rows if r[2] != "DETECTED"])
