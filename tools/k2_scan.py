#!/usr/bin/env python3
"""lists the panic sites reached when metadata is altered with the CRC-32C kernel pattern (known finding K2):
every position of the damage bases of the last quick exploration. usage: k2_scan.py [step]"""
import subprocess, os, re, collections, concurrent.futures, sys, glob
step = int(sys.argv[1]) if len(sys.argv) > 1 else 1
root = '/verif/work/damage_quick/bases'
jobs = []
for b in sorted(os.listdir(root)):
    for fn in sorted(os.listdir(os.path.join(root, b))):
        size = os.path.getsize(os.path.join(root, b, fn))
        for pos in range(0, size - 5, step if size < 4000 else step * 3):
            jobs.append((b, fn, pos))
os.makedirs('/tmp/ks', exist_ok=True)
def run(j):
    b, fn, pos = j
    cf = '/tmp/ks/c_%s_%s_%d.txt' % (b, fn, pos)
    open(cf, 'w').write("case k damage base=%s/%s main=c.jbk file=%s op=xor:%d:011edc6f41\nend\n" % (root, b, fn, pos))
    try:
        p = subprocess.run(['/verif/harness/target/debug/jbkv', cf, cf + '.out', '/tmp/ks/tmp_%s_%s_%d' % (b, fn, pos)], capture_output=True, text=True,
                           timeout=40, env=dict(os.environ, JBKV_DEBUG='1', RUST_BACKTRACE='0'))
        locs = re.findall(r"panicked at ([^\n]*):\n([^\n]*)", p.stderr)
        r = (j, p.returncode, locs)
    except subprocess.TimeoutExpired:
        r = (j, 'TIMEOUT', [])
    for x in (cf, cf + '.out'):
        try: os.remove(x)
        except OSError: pass
    return r
sites, ex = collections.Counter(), {}
with concurrent.futures.ThreadPoolExecutor(14) as e:
    for j, rc, locs in e.map(run, jobs):
        if rc != 0:
            sites[('rc', rc)] += 1; ex.setdefault(('rc', rc), j)
        for l in locs:
            k = (re.sub(r"^/repo/", "", l[0]), re.sub(r"\d+", "N", l[1])[:60]); sites[k] += 1; ex.setdefault(k, j)
for k, v in sites.most_common():
    print(v, k, ex[k])
print(len(jobs), "positions")
subprocess.run(['rm', '-rf', '/tmp/ks'])
