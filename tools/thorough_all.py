#!/usr/bin/env python3
"""runs the thorough command of every claimed property on the unchanged tree (hours); prints one line per property"""
import json, subprocess, sys, time, os
m = json.load(open("/verif/MANIFEST.json"))
assert subprocess.run("git -C /repo status --porcelain", shell=True, capture_output=True, text=True).stdout.strip() == "", "/repo is dirty"
only = sys.argv[1:]
for c in m["checks"]:
    if only and c["property_id"] not in only:
        continue
    t0 = time.time()
    p = subprocess.run(c["thorough_cmd"], shell=True, cwd="/verif", capture_output=True, text=True)
    lines = p.stdout.strip().splitlines() or ["<no output>"]
    print("%s rc=%d %.0fs %s" % (c["property_id"], p.returncode, time.time() - t0, lines[-1][:200]), flush=True)
    if p.returncode != 0:
        os.makedirs("/verif/work/thorough", exist_ok=True)
        open("/verif/work/thorough/%s.log" % c["property_id"], "w").write(p.stdout[-30000:])
        for l in lines:
            if l.startswith("#"):
                print("   " + l[:300], flush=True)
