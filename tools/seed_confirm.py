#!/usr/bin/env python3
"""Confirm a seeded change produced in a scratch worktree and file it under /verif/seeded/<id>/.
usage: seed_confirm.py <worktree> <seed id> <property id> <demo test name> "<needs>"
Checks: (1) with the patch the crate's own test-suite passes, (2) the demo fails with the patch,
(3) the demo passes without it. Then runs ./check <property> against /repo with the patch applied
(and undoes it) and records everything in meta.json."""
import json, os, subprocess, sys, shutil, time

wt, sid, pid, demo, needs = sys.argv[1:6]
def sh(cmd, cwd=None, timeout=3600):
    p = subprocess.run(cmd, cwd=cwd, shell=True, stdout=subprocess.PIPE, stderr=subprocess.STDOUT, text=True, timeout=timeout)
    return p.returncode, p.stdout
env = "CARGO_NET_OFFLINE=true "
ran = []
patch = os.path.join(wt, "patch.diff")
# normalise: patch must be the diff of src only
rc, out = sh("git diff -- src > patch.diff.now; git checkout -- src && git apply patch.diff && git diff --stat -- src", cwd=wt)
ran.append(("re-apply patch.diff on clean src", rc, out[-300:]))
rc1, out1 = sh(env + "cargo test --offline --no-fail-fast 2>&1 | grep -E '^test result|FAILED|failed|panicked' | head -40", cwd=wt)
suite_lines = out1.strip().splitlines()
# the demo itself is part of `cargo test`; evaluate the pinned suite = everything except the demo binary
rc2, out2 = sh(env + "cargo test --offline --lib 2>&1 | grep -E '^test result'", cwd=wt)
rc3, out3 = sh(env + "cargo test --offline --test creator_jubako --test jubako 2>&1 | grep -E '^test result'", cwd=wt)
suite_ok = "125 passed; 0 failed" in out2 and "FAILED" not in out3 and out3.count("ok.") >= 2
ran.append(("cargo test --offline --lib (with patch)", rc2, out2.strip()))
ran.append(("cargo test --offline --test creator_jubako --test jubako (with patch)", rc3, out3.strip()))
rc4, out4 = sh(env + "cargo test --offline --test %s 2>&1 | tail -15" % demo, cwd=wt)
demo_fails_with = "FAILED" in out4 or "failed" in out4
ran.append(("cargo test --offline --test %s (with patch)" % demo, rc4, out4[-600:]))
sh("git checkout -- src", cwd=wt)
rc5, out5 = sh(env + "cargo test --offline --test %s 2>&1 | grep -E '^test result'" % demo, cwd=wt)
demo_passes_without = "ok." in out5 and "FAILED" not in out5
ran.append(("cargo test --offline --test %s (without patch)" % demo, rc5, out5.strip()))
sh("git apply patch.diff", cwd=wt)
confirmed = suite_ok and demo_fails_with and demo_passes_without
dst = os.path.join("/verif/seeded", sid)
os.makedirs(dst, exist_ok=True)
shutil.copy(patch, os.path.join(dst, "patch.diff"))
shutil.copy(os.path.join(wt, "tests", demo + ".rs"), os.path.join(dst, demo + ".rs"))
if os.path.exists(os.path.join(wt, "NOTES.md")):
    shutil.copy(os.path.join(wt, "NOTES.md"), os.path.join(dst, "NOTES.md"))
# run my check against it
detected = None
check_out = ""
if confirmed:
    rc, out = sh("git -C /repo status --porcelain")
    assert out.strip() == "", "repo dirty: " + out
    sh("git -C /repo apply %s" % os.path.join(dst, "patch.diff"))
    t0 = time.time()
    rc, check_out = sh("cd /verif && ./check %s --tier quick 2>&1 | head -12" % pid, timeout=3000)
    detected = "VIOLATION property=%s" % pid in check_out
    sh("git -C /repo checkout -- .")
    ran.append(("./check %s --tier quick with the patch applied to /repo (%.0fs)" % (pid, time.time() - t0), rc, check_out[-800:]))
meta = {"id": sid, "property": pid, "needs_to_manifest": needs, "confirmed": confirmed,
        "suite_passes_with_change": suite_ok, "demo_fails_with_change": demo_fails_with,
        "demo_passes_without_change": demo_passes_without, "detected_by_quick_check": detected,
        "ran": [{"cmd": c, "rc": r, "out": o} for c, r, o in ran]}
json.dump(meta, open(os.path.join(dst, "meta.json"), "w"), indent=1)
print(json.dumps({k: meta[k] for k in ("id", "confirmed", "detected_by_quick_check")}))
