#!/usr/bin/env python3
"""runs every quick check with several VERIF_SEED values on the unchanged tree; any non-zero exit is a false alarm to fix.
usage: seed_sweep.py seed [seed...]"""
import json, subprocess, sys, os, time
m = json.load(open("/verif/MANIFEST.json"))
assert subprocess.run("git -C /repo status --porcelain", shell=True, capture_output=True, text=True).stdout.strip() == "", "/repo is dirty"
bad = []
for seed in sys.argv[1:]:
    for c in m["checks"]:
        t0 = time.time()
        p = subprocess.run(c["quick_cmd"], shell=True, cwd="/verif", capture_output=True, text=True, env=dict(os.environ, VERIF_SEED=seed))
        last = (p.stdout.strip().splitlines() or ["<no output>"])[-1]
        if p.returncode != 0:
            first = next((l for l in p.stdout.splitlines() if l.startswith("#")), "")
            bad.append((seed, c["property_id"], first[:300]))
            print("FAIL seed=%s %s %s" % (seed, c["property_id"], first[:300]), flush=True)
            os.makedirs("/verif/work/sweep", exist_ok=True)
            open("/verif/work/sweep/%s_%s.log" % (c["property_id"], seed), "w").write(p.stdout[-20000:])
        else:
            print("ok   seed=%s %s %.0fs" % (seed, c["property_id"], time.time() - t0), flush=True)
print("failures:", bad)
