#!/usr/bin/env python3
"""prints the standard prompt for a mutation sub-agent: mutant_prompt.py <property id> <worktree> <focus text>"""
import json, sys
pid, wt, focus = sys.argv[1], sys.argv[2], sys.argv[3]
p = next(json.loads(l) for l in open('/verif/properties.jsonl') if json.loads(l)['id'] == pid)
low = pid.lower()
print(f"""You are helping test a verification effort for the Rust crate `jubako` (a container file format library). You work ONLY inside the git worktree `{wt}` (a checkout of the crate). Do NOT read or touch `/verif` or `/repo`. There is no network: always pass `--offline` to cargo (e.g. `cargo build --offline`, `cargo test --offline`). Features lz4, lzma, zstd are available offline (`--features lz4,lzma,zstd`), default feature is zstd.

Here is a semantic property the library is supposed to satisfy:

"{pid} — {p['title']}. {p['statement']} (Quantified over: {p['quantifier']['text']}.)"

Relevant code: {', '.join('`'+f+'`' for f in p['anchors']['files'])}.

YOUR TASK: produce ONE realistic change (a bug a developer could plausibly introduce in a refactor/optimisation/cleanup) to the library source under `{wt}/src` that BREAKS this property, while (1) the crate still compiles, and (2) the existing test suite still passes: `cd {wt} && cargo test --offline` (125 unit tests + integration tests; a test named `test_content_pack` in tests/ may be flaky, ignore it). The change should NOT be something ordinary use would expose at once: prefer a bug that needs something specific to manifest — a particular interleaving, a crash or fault at a particular point, a multi-step sequence of operations, an unusual input (a boundary value, a particular size or count), or two cooperating sites that each look fine alone. {focus} Do not touch anything guarded by `cfg(jubako_verif)` (src/verif_api.rs) and do not change the existing tests.

Also write a demonstration: a small Rust integration test file at `{wt}/tests/demo_{low}.rs`, using only the public API of the crate (see `examples/*.rs` and `tests/*.rs` for how to build and read containers; `jubako::reader::ContentPack::new(jubako::FileSource::open(path)?.into())` opens a content pack file) that FAILS with your change and PASSES without it. Verify both: `git diff -- src > patch.diff; git checkout -- src` to test without the change, then `git apply patch.diff` to re-apply; run it with `cargo test --offline --test demo_{low}`.

Deliverables (write these files):
- `{wt}/patch.diff`: output of `git diff -- src` (only the library change, not the demo test).
- `{wt}/tests/demo_{low}.rs`: the demonstration.
- `{wt}/NOTES.md`: what the change is, why it breaks the property, what specific condition it needs to manifest, and the exact commands you ran with their outcomes (existing suite passes with the change; demo fails with it, passes without it).
Leave the worktree with your change APPLIED. Keep the change small (a few lines). Report back a short summary (what, where, condition to manifest).""")
