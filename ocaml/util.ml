(* Helpers shared by the driver: conversions between OCaml ints and the extracted
   inductive numbers, hex, the payload generator, case-file parsing. No model logic. *)
open Model

let rec nat_of_int (n : int) : nat = if n <= 0 then O else S (nat_of_int (n - 1))
let nat_of_int n =
  (* tail-recursive version for large n *)
  let rec go acc k = if k <= 0 then acc else go (S acc) (k - 1) in
  ignore nat_of_int; go O n
let int_of_nat (n : nat) : int =
  let rec go acc = function O -> acc | S m -> go (acc + 1) m in go 0 n

(* binary numbers *)
let rec pos_of_int (n : int) : positive =
  if n <= 1 then XH else if n land 1 = 0 then XO (pos_of_int (n lsr 1)) else XI (pos_of_int (n lsr 1))
let n_of_int (n : int) : n = if n <= 0 then N0 else Npos (pos_of_int n)
let rec int_of_pos (p : positive) : int =
  match p with XH -> 1 | XO q -> 2 * int_of_pos q | XI q -> 2 * int_of_pos q + 1
let int_of_n (x : n) : int = match x with N0 -> 0 | Npos p -> int_of_pos p
(* decimal string of an N that may exceed 63 bits *)
let string_of_n (x : n) : string =
  let rec bits p acc = match p with XH -> 1 :: acc | XO q -> bits q (0 :: acc) | XI q -> bits q (1 :: acc) in
  match x with
  | N0 -> "0"
  | Npos p ->
    (* most significant first *)
    let bs = bits p [] in
    let digits = ref [0] in  (* little-endian decimal digits *)
    List.iter (fun b ->
      let carry = ref b in
      digits := List.map (fun d -> let v = 2 * d + !carry in carry := v / 10; v mod 10) !digits;
      if !carry > 0 then digits := !digits @ [!carry]) bs;
    String.concat "" (List.rev_map string_of_int !digits)
let string_of_z (x : z) : string =
  match x with Z0 -> "0" | Zpos p -> string_of_n (Npos p) | Zneg p -> "-" ^ string_of_n (Npos p)
let string_of_bytes (l : n list) : string =
  String.init (List.length l) (fun i -> Char.chr (int_of_n (List.nth l i)))
let n_of_string (s : string) : n =
  (* decimal -> N via repeated doubling on strings would be slow; values fit 64 bits: use Int64 unsigned halves *)
  let hi = ref N0 in
  String.iter (fun c ->
    let d = Char.code c - 48 in
    hi := Model.N.add (Model.N.mul !hi (n_of_int 10)) (n_of_int d)) s;
  !hi
let nbytes (l : int list) : n list = List.map n_of_int l
let ibytes (l : n list) : int list = List.map int_of_n l

let read_file (path : string) : int list =
  let ic = open_in_bin path in
  let len = in_channel_length ic in
  let b = really_input_string ic len in
  close_in ic;
  List.init len (fun i -> Char.code b.[i])

let hex_of_bytes (b : int list) : string =
  if b = [] then "-" else String.concat "" (List.map (Printf.sprintf "%02x") b)

let bytes_of_hex (s : string) : int list =
  if s = "-" then [] else
  List.init (String.length s / 2) (fun i -> int_of_string ("0x" ^ String.sub s (2*i) 2))

(* xorshift64* generator, identical to harness/src/util.rs *)
let gen (len : int) (seed : int64) (kind : string) : int list =
  match kind with
  | "z" -> List.init len (fun _ -> 0)
  | "t" -> List.init len (fun i ->
             Char.code "abcdefg".[Int64.to_int (Int64.rem (Int64.add (Int64.of_int i) seed) 7L)])
  | _ ->
    let x = ref (Int64.add (Int64.mul seed 0x9E3779B97F4A7C15L) 1L) in
    if !x = 0L then x := 1L;
    let out = ref [] in
    for _ = 1 to len do
      x := Int64.logxor !x (Int64.shift_right_logical !x 12);
      x := Int64.logxor !x (Int64.shift_left !x 25);
      x := Int64.logxor !x (Int64.shift_right_logical !x 27);
      let v = Int64.shift_right_logical (Int64.mul !x 0x2545F4914F6CDD1DL) 56 in
      out := Int64.to_int v :: !out
    done;
    List.rev !out

let payload (tok : string) : int list =
  match String.split_on_char ':' tok with
  | ["x"; h] -> bytes_of_hex h
  | ["g"; len; seed; kind] -> gen (int_of_string len) (Int64.of_string seed) kind
  | _ -> failwith ("bad payload " ^ tok)

let crc_table = lazy (Array.init 256 (fun i ->
  let c = ref i in
  for _ = 1 to 8 do
    c := if !c land 1 <> 0 then 0xEDB88320 lxor (!c lsr 1) else !c lsr 1
  done; !c))
let digest (b : int list) : string =
  let t = Lazy.force crc_table in
  let c = ref 0xFFFFFFFF in
  List.iter (fun x -> c := t.((!c lxor x) land 0xFF) lxor (!c lsr 8)) b;
  Printf.sprintf "%d:%08x" (List.length b) ((!c lxor 0xFFFFFFFF) land 0xFFFFFFFF)

let show (b : int list) : string =
  if List.length b <= 64 then "x:" ^ hex_of_bytes b else "d:" ^ digest b

type case = { id : string; family : string; params : (string * string) list; lines : string list list }

let p c k = try List.assoc k c.params with Not_found -> failwith ("case " ^ c.id ^ ": missing " ^ k)
let pi c k = int_of_string (p c k)

let parse_cases (path : string) : case list =
  let ic = open_in path in
  let cases = ref [] and cur = ref None in
  (try while true do
    let line = String.trim (input_line ic) in
    if line <> "" && line.[0] <> '#' then begin
      let toks = String.split_on_char ' ' line in
      match toks with
      | "seed" :: _ -> ()
      | "case" :: id :: family :: rest ->
        let params = List.filter_map (fun t ->
          match String.index_opt t '=' with
          | Some i -> Some (String.sub t 0 i, String.sub t (i+1) (String.length t - i - 1))
          | None -> None) rest in
        cur := Some { id; family; params; lines = [] }
      | ["end"] -> (match !cur with Some c -> cases := { c with lines = List.rev c.lines } :: !cases; cur := None | None -> ())
      | _ -> (match !cur with Some c -> cur := Some { c with lines = toks :: c.lines } | None -> ())
    end
  done with End_of_file -> close_in ic);
  List.rev !cases
