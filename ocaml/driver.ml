(* Runs the extracted Coq model on a case file and prints the same observation lines as
   the Rust harness. Parsing, calling, printing only. *)
open Model
open Util

let views_case (c : case) (out : out_channel) =
  let src = payload (p c "data") in
  let a = pi c "a" and pre = pi c "pre" and len = pi c "len" in
  let ops = List.concat_map (fun l ->
    match l with
    | "ops" :: toks -> List.map (fun t ->
        match String.split_on_char ':' t with
        | ["cut"; o; n] -> OCut (nat_of_int (int_of_string o), nat_of_int (int_of_string n))
        | ["asslice"] -> OAsSlice
        | ["toregion"] -> OToRegion
        | ["stream"] -> OStream
        | ["intostream"] -> OIntoStream
        | ["get"; o; n] -> OGetSlice (nat_of_int (int_of_string o), nat_of_int (int_of_string n))
        | ["read"; k] -> ORead (nat_of_int (int_of_string k))
        | ["readall"] -> OReadAll
        | ["sizes"] -> OSizes
        | _ -> failwith ("bad op " ^ t)) toks
    | _ -> failwith "bad line") c.lines in
  let r = { rb = nat_of_int (a + pre); re = nat_of_int (a + pre + len) } in
  let obs = run src of_region (VRegion r) ops in
  List.iteri (fun i o ->
    let s = match o with
      | ObsBytes l -> "bytes " ^ show l
      | ObsSizes (x, y, z) -> Printf.sprintf "sizes %d %d %d" (int_of_nat x) (int_of_nat y) (int_of_nat z)
      | ObsNone -> "none"
      | ObsBad -> "bad" in
    Printf.fprintf out "%s %d %s\n" c.id i s) obs

let kind_num k = int_of_n (kind_byte k)

let show_res_err e = match e with
  | ECorrupt -> "ERR_CORRUPT" | EFormat -> "ERR_FORMAT" | EVersion -> "ERR_VERSION" | EIo -> "ERR_IO"
  | ENotJbk -> "ERR_NOTJBK" | EFeature -> "ERR_FEATURE" | EOob -> "ERR_OOB"

let infos_line (f : n list) : string =
  match manifest_infos f with
  | Err e -> show_res_err e
  | Ok infos ->
    let l = List.map (fun (_, pi) ->
      Printf.sprintf "%s:%d:%d:%s" (hex_of_bytes (ibytes pi.pi_uuid)) (kind_num pi.pi_kind)
        (int_of_n pi.pi_id) (hex_of_bytes (ibytes pi.pi_loc))) infos in
    String.concat ";" (List.sort compare l)

let manifest_case (c : case) (out : out_channel) =
  let file = ref [] and step = ref 1 in
  List.iter (fun l ->
    match l with
    | ["file"; path] ->
      file := nbytes (read_file path);
      Printf.fprintf out "%s 0 infos %s\n" c.id (infos_line !file);
      Printf.fprintf out "%s 0 file %s\n" c.id (digest (ibytes !file));
      Printf.fprintf out "%s 0 layout %b\n" c.id (layout_okb !file);
      (match manifest_view !file with
       | Ok v -> Printf.fprintf out "%s 0 view %s\n" c.id (digest (ibytes v))
       | Err e -> Printf.fprintf out "%s 0 view %s\n" c.id (show_res_err e))
    | ["setloc"; u; loc] ->
      let r = set_location !file (nbytes (bytes_of_hex u)) (nbytes (bytes_of_hex loc)) in
      (match r with
       | Err e -> Printf.fprintf out "%s %d res %s\n" c.id !step (show_res_err e)
       | Ok None -> Printf.fprintf out "%s %d res none\n" c.id !step
       | Ok (Some ((f', k), old)) ->
         file := f';
         Printf.fprintf out "%s %d res some:%d:%s\n" c.id !step (kind_num k) (hex_of_bytes (ibytes old)));
      Printf.fprintf out "%s %d file %s\n" c.id !step (digest (ibytes !file));
      Printf.fprintf out "%s %d infos %s\n" c.id !step (infos_line !file);
      (match manifest_view !file with
       | Ok v -> Printf.fprintf out "%s %d view %s\n" c.id !step (digest (ibytes v))
       | Err e -> Printf.fprintf out "%s %d view %s\n" c.id !step (show_res_err e));
      incr step
    | _ -> failwith "bad manifest line") c.lines

let content_case (c : case) (out : out_channel) =
  let file = ref [] and pc = ref false and dedup = ref false and ops = ref [] in
  let evs = ref [] and expected = ref [] and sample = ref None in
  List.iter (fun l ->
    match l with
    | ["file"; path] -> file := nbytes (read_file path)
    | ["cfg"; a; b] -> pc := (a = "pc=1"); dedup := (b = "dedup=1")
    | ["add"; h; len; det; key] ->
      let hint = (match h with "y" -> HYes | "n" -> HNo | _ -> HDetect) in
      ops := { co_len = n_of_string len; co_hint = hint; co_detect = (det = "1"); co_key = n_of_string key } :: !ops
    | ["sample"; ids] -> sample := Some (List.map int_of_string (String.split_on_char ',' ids))
    | "events" :: toks ->
      evs := List.map (fun t -> match String.split_on_char ':' t with
        | ["new"; id; cp] -> ENew (nat_of_int (int_of_string id), cp = "1")
        | ["handle"; id; cp] -> EHandle (nat_of_int (int_of_string id), cp = "1")
        | ["written"; id] -> EWritten (nat_of_int (int_of_string id))
        | _ -> failwith ("bad event " ^ t)) toks
    | ["expected"; ids] ->
      expected := if ids = "-" then [] else List.map (fun s -> nat_of_int (int_of_string s)) (String.split_on_char ',' ids)
    | _ -> failwith "bad content line") c.lines;
  let ops = List.rev !ops in
  let (plan, clusters) = if !dedup then plan_dedup !pc ops else plan_plain !pc ops in
  List.iteri (fun i ((ci, cl), bl) ->
    Printf.fprintf out "%s plan %d %d %d %d\n" c.id i (int_of_nat ci) (int_of_nat cl) (int_of_nat bl)) plan;
  List.iteri (fun k (comp, lens) ->
    Printf.fprintf out "%s cluster %d %d %d %s\n" c.id k (if comp then 1 else 0) (List.length lens)
      (string_of_n (List.fold_left N.add N0 lens))) clusters;
  let planl = List.mapi (fun i x -> (i, x)) plan in
  let planl = (match !sample with None -> planl | Some ids -> List.filter (fun (i, _) -> List.mem i ids) planl) in
  (match !sample with Some _ -> Printf.fprintf out "%s sampled 1\n" c.id | None -> ());
  let idxs = List.map (fun (_, ((ci, _), _)) -> n_of_int (int_of_nat ci)) planl in
  (match cp_read_many !file (idxs @ [n_of_int 1000000000]) with
   | Err e -> Printf.fprintf out "%s count %s\n" c.id (show_res_err e)
   | Ok (n, rs) ->
     Printf.fprintf out "%s count %s\n" c.id (string_of_n n);
     List.iteri (fun k r ->
       if k < List.length planl then
       let i = fst (List.nth planl k) in
       match r with
       | None -> Printf.fprintf out "%s loc %d NONE\n" c.id i
       | Some (((cl, bl), loc), data) ->
         (match loc with
          | CRaw (_, len) -> Printf.fprintf out "%s loc %d %s %s raw %s\n" c.id i (string_of_n cl) (string_of_n bl) (string_of_n len)
          | CComp (algo, _, plen, dsize, _, len) ->
            Printf.fprintf out "%s loc %d %s %s comp:%s %s\n" c.id i (string_of_n cl) (string_of_n bl) (string_of_n algo) (string_of_n len);
            (* stored (compressed) size and plain size of the cluster holding it *)
            Printf.fprintf out "%s stored %d %s %s\n" c.id i (string_of_n plen) (string_of_n dsize));
         (match data with
          | Some d -> Printf.fprintf out "%s content %d %s\n" c.id i (show (ibytes d))
          | None -> ())
       else Printf.fprintf out "%s past far %s\n" c.id (match r with None -> "NONE" | Some _ -> "SOME")) rs;
     (match cp_read_many !file [n; N.add n (n_of_int 1); N.add n (n_of_int 4096)] with
      | Ok (_, [a; b; c3]) ->
        List.iter2 (fun k r -> Printf.fprintf out "%s past %d %s\n" c.id k (match r with None -> "NONE" | Some _ -> "SOME")) [0; 1; 4096] [a; b; c3]
      | Ok _ -> ()
      | Err e -> Printf.fprintf out "%s past 0 %s\n" c.id (show_res_err e)));
  let exp = if !expected = [] then List.init (List.length clusters) nat_of_int else !expected in
  Printf.fprintf out "%s accepts %b\n" c.id (accepts !evs exp)

let show_value_c (cf : (n -> n -> string) option) (v : value res) : string =
  match v with
  | Err e -> show_res_err e
  | Ok (VUnsigned n) -> "u" ^ string_of_n n
  | Ok (VSigned z) -> "s" ^ string_of_z z
  | Ok (VContent (p, c)) ->
    (match cf with
     | None -> Printf.sprintf "c%s:%s" (string_of_n p) (string_of_n c)
     | Some f -> Printf.sprintf "c%s:%s=%s" (string_of_n p) (string_of_n c) (f p c))
  | Ok (VArray b) -> "a" ^ show (ibytes b)

let show_value = show_value_c None

let print_indexes (id : string) (cf : (n -> n -> string) option) (idxs : index_dump res list) (out : out_channel) =
    let show_value = show_value_c cf in
    List.iter (fun r ->
      match r with
      | Err e -> Printf.fprintf out "%s index ? %s\n" id (show_res_err e)
      | Ok d ->
        let ih = d.id_header in
        let name = string_of_bytes ih.ix_name in
        let free = ibytes ih.ix_free in
        Printf.fprintf out "%s index %s store=%s offset=%s count=%s%s\n" id name
          (string_of_n ih.ix_store) (string_of_n ih.ix_offset) (string_of_n ih.ix_count)
          (if List.for_all (fun b -> b = 0) free then "" else " free=" ^ hex_of_bytes free);
        (match d.id_store with
         | Err e -> Printf.fprintf out "%s store %s %s\n" id name (show_res_err e)
         | Ok (ly, entries) ->
           let names ps = List.sort compare (List.map (fun p -> string_of_bytes p.pr_name) ps) in
           let vnames = match ly.l_variants with
             | None -> []
             | Some (_, vs) -> List.map (fun (_, ps) -> String.concat "," (names ps)) vs in
           Printf.fprintf out "%s layout %s common=%s variants=%s\n" id name
             (String.concat "," (names ly.l_common)) (String.concat "|" vnames);
           List.iteri (fun j e ->
             match e with
             | None -> Printf.fprintf out "%s entry %s %d NONE\n" id name j
             | Some (vid, vals) ->
               let ncommon = List.length ly.l_common in
               let common = List.filteri (fun i _ -> i < ncommon) vals
               and var = List.filteri (fun i _ -> i >= ncommon) vals in
               let srt l = List.sort compare (List.map (fun (n, v) -> (string_of_bytes n, v)) l) in
               let parts = List.map (fun (n, v) -> n ^ "=" ^ show_value v) (srt common @ srt var) in
               Printf.fprintf out "%s entry %s %d v=%s%s\n" id name j
                 (match vid with None -> "-" | Some v -> string_of_n v)
                 (String.concat "" (List.map (fun s -> " " ^ s) parts))) entries)) idxs

let dir_dump_of (id : string) dumped (out : out_channel) =
  match dumped with
  | Err e -> Printf.fprintf out "%s open %s\n" id (show_res_err e)
  | Ok idxs ->
    Printf.fprintf out "%s open OK\n" id;
    print_indexes id None idxs out

(* the damage operations of harness/src/damage.rs, on byte lists *)
let apply_damage (b : int list) (op : string) : int list =
  let p = String.split_on_char ':' op in
  let mapi_range pos len f = List.mapi (fun i x -> if i >= pos && i < pos + len then f (i - pos) x else x) b in
  match p with
  | ["none"] -> b
  | ["flip"; pos; mask] -> mapi_range (int_of_string pos) 1 (fun _ x -> x lxor (int_of_string ("0x" ^ mask)))
  | ["xor"; pos; hx] -> let d = Array.of_list (bytes_of_hex hx) in mapi_range (int_of_string pos) (Array.length d) (fun i x -> x lxor d.(i))
  | ["zero"; pos; len] -> mapi_range (int_of_string pos) (int_of_string len) (fun _ _ -> 0)
  | ["write"; pos; hx] -> let d = Array.of_list (bytes_of_hex hx) in mapi_range (int_of_string pos) (Array.length d) (fun i _ -> d.(i))
  | ["trunc"; len] -> List.filteri (fun i _ -> i < int_of_string len) b
  | "append" :: rest -> b @ payload (String.concat ":" rest)
  | "replace" :: rest -> payload (String.concat ":" rest)
  | _ -> failwith ("bad damage op " ^ op)

let container_case (c : case) (out : out_channel) =
  let main = ref [] and fs = ref [] in
  let files = ref [] in
  List.iter (fun l ->
    match l with
    | ["main"; path] -> files := ("", path) :: !files
    | ["sibling"; name; path] -> files := (name, path) :: !files
    | _ -> ()) c.lines;
  let dmg = List.filter_map (fun l -> match l with ["damage"; name; op] -> Some (name, op) | _ -> None) c.lines in
  List.iter (fun (name, path) ->
    let base = Filename.basename path in
    if List.mem (base, "remove") dmg then () else
    let b = read_file path in
    let b = List.fold_left (fun b (n, op) -> if n = base then apply_damage b op else b) b dmg in
    if name = "" then main := nbytes b
    else fs := (nbytes (List.init (String.length name) (fun i -> Char.code name.[i])), nbytes b) :: !fs) !files;
  if List.exists (fun l -> l = ["ranges"]) c.lines then begin
    let pr name f = match file_ranges f with
      | Err _ -> ()
      | Ok rs -> List.iter (fun ((((pos, cp), cs), kb), cnt) ->
          Printf.fprintf out "%s range %s %s %s %s %s %s\n" c.id name (string_of_n pos) (string_of_n cp) (string_of_n cs) (string_of_n kb) (string_of_n cnt)) rs in
    List.iter (fun (name, path) -> pr (Filename.basename path) (nbytes (read_file path))) !files
  end;
  let dump id ct =
    (* Container::new opens the directory pack (its two headers): a failure there fails the open *)
    match container_dir_dump ct with
    | Err e -> Printf.fprintf out "%s open %s\n" id (show_res_err e)
    | Ok idxs ->
    Printf.fprintf out "%s open OK\n" id;
    Printf.fprintf out "%s packcount %s\n" id (string_of_n ct.ct_manifest.mf_mh.mh_count);
    let cf p ci =
      match get_content ct !fs p ci with
      | Err e -> show_res_err e
      | Ok CNoPack -> "NOPACK"
      | Ok (CMissing info) -> "MISSING:" ^ hex_of_bytes (ibytes info.pi_uuid)
      | Ok CNoContent -> "NOCONTENT"
      | Ok (CFound (_, _, loc, data)) ->
        (match loc, data with
         | CRaw (_, _), Some d -> show (ibytes d)
         | CComp (algo, _, _, _, _, len), _ -> Printf.sprintf "COMP:%s:%s" (string_of_n algo) (string_of_n len)
         | _, _ -> "?") in
    print_indexes id (Some cf) idxs out in
  if List.exists (fun l -> l = ["canon"]) c.lines then begin
    (* C14: every structure block re-serialises to the bytes it was parsed from *)
    let pr name f = match canon_file_full f with
      | Err e -> Printf.fprintf out "%s canon %s OPEN_%s\n" c.id name (show_res_err e)
      | Ok rs -> List.iter (fun ((code, pos), okb) ->
          Printf.fprintf out "%s canon %s %s %s %s\n" c.id name (string_of_n code) (string_of_n pos) (if okb then "ok" else "DIFF")) rs in
    List.iter (fun (_, path) -> pr (Filename.basename path) (nbytes (read_file path))) !files
  end;
  match container_open !main !fs with
  | Err e ->
    Printf.fprintf out "%s open %s\n" c.id (show_res_err e);
    (* the manifest search walks a hash map: the other admissible order (manifest met first) *)
    (match container_open_lenient !main !fs with
     | Err _ -> ()
     | Ok ct -> dump (c.id ^ " alt") ct)
  | Ok ct -> dump c.id ct

(* comparison of a decoded value with a probe value token (u<dec>, s<dec>, a:<payload>) *)
let cmp_value (v : value res) (tok : string) : comparison option =
  let of_int c = if c < 0 then Lt else if c > 0 then Gt else Eq in
  match v with
  | Ok (VUnsigned n) when tok.[0] = 'u' ->
    Some (N.compare n (n_of_string (String.sub tok 1 (String.length tok - 1))))
  | Ok (VSigned z) when tok.[0] = 's' ->
    let t = String.sub tok 1 (String.length tok - 1) in
    let zz = if t.[0] = '-' then (match n_of_string (String.sub t 1 (String.length t - 1)) with N0 -> Z0 | Npos p -> Zneg p)
             else (match n_of_string t with N0 -> Z0 | Npos p -> Zpos p) in
    Some (Z.compare z zz)
  | Ok (VArray b) when tok.[0] = 'a' ->
    let p = String.sub tok 2 (String.length tok - 2) in
    Some (of_int (compare (ibytes b) (payload p)))
  | _ -> None

let dir_case (c : case) (out : out_channel) =
  let dumped = ref (Err EFormat) in          (* the decoded pack, computed once per case *)
  let nfind = ref 0 in
  List.iter (fun l ->
    match l with
    | ["file"; path] -> dumped := dp_dump (nbytes (read_file path)); dir_dump_of c.id !dumped out
    | "find" :: iname :: ordered :: keys ->
      let fi = !nfind in incr nfind;
      (match !dumped with
       | Err e -> Printf.fprintf out "%s find %d %s\n" c.id fi (show_res_err e)
       | Ok idxs ->
         let found = List.find_opt (fun r -> match r with
           | Ok d -> string_of_bytes d.id_header.ix_name = iname | Err _ -> false) idxs in
         (match found with
          | Some (Ok { id_store = Ok (_, entries); _ }) ->
            let keyl = List.map (fun kv -> match String.index_opt kv '=' with
              | Some i -> (String.sub kv 0 i, String.sub kv (i+1) (String.length kv - i - 1))
              | None -> failwith "bad key") keys in
            let table = List.map (fun e ->
              match e with
              | None -> Gt
              | Some (_, vals) ->
                let rec go = function
                  | [] -> Eq
                  | (n, tok) :: rest ->
                    let v = (try List.assoc n (List.map (fun (nm, v) -> (string_of_bytes nm, v)) vals)
                             with Not_found -> Err EFormat) in
                    (match cmp_value v tok with
                     | Some Eq -> go rest
                     | Some c -> c
                     | None -> Gt) in
                go keyl) entries in
            (match find_table (ordered = "ordered=1") table with
             | None -> Printf.fprintf out "%s find %d none\n" c.id fi
             | Some i -> Printf.fprintf out "%s find %d %d\n" c.id fi (int_of_nat i))
          | _ -> Printf.fprintf out "%s find %d NOINDEX\n" c.id fi))
    | _ -> ()) c.lines

(* C07: event traces of the background decoder, one recognizer run per shared buffer *)
let conc_case (c : case) (out : out_channel) =
  let threads = pi c "threads" in
  let bufs : (string, (int * label) list ref * int ref) Hashtbl.t = Hashtbl.create 64 in
  let order = ref [] in
  List.iter (fun l ->
    match l with
    | ["ev"; oid; kind; t; a; b] ->
      let (evs, total) =
        (try Hashtbl.find bufs oid with Not_found ->
           let e = (ref [], ref (-1)) in Hashtbl.add bufs oid e; order := oid :: !order; e) in
      let a = int_of_string a and b = int_of_string b and t = int_of_string t and kind = int_of_string kind in
      let lab = match kind with
        | 1 -> total := b; LChunk (n_of_int a)
        | 2 -> LPublish (n_of_int a)
        | 3 -> LFail (n_of_int a)
        | 4 -> total := b; LWaitBegin (nat_of_int t, n_of_int a)
        | 5 -> LWaitEnd (nat_of_int t, n_of_int a, n_of_int (b / 2), b mod 2 = 1)
        | 6 -> LSlice (nat_of_int t, n_of_int a)
        | k -> failwith ("bad event kind " ^ string_of_int k) in
      evs := (kind, lab) :: !evs
    | _ -> ()) c.lines;
  List.iter (fun oid ->
    let (evs, total) = Hashtbl.find bufs oid in
    let labs = List.rev_map snd !evs in
    let total_n = n_of_int !total in
    let nfail = List.length (List.filter (fun (k, _) -> k = 3) !evs) in
    let verdict =
      if sv_accepts total_n (nat_of_int threads) labs then "accepted"
      else match sv_first_reject total_n (ainit (nat_of_int threads)) labs N0 with
        | Some k -> "rejected at " ^ string_of_n k
        | None -> "rejected at end (a wait never returned)" in
    Printf.fprintf out "%s buf %s total=%d events=%d fails=%d %s\n" c.id oid !total (List.length labs) nfail verdict)
    (List.rev !order)

(* C09: abstracted system-call trace of one creation *)
let crash_case (c : case) (out : out_channel) =
  let entry = ref 0 and paths = ref [] and ops = ref [] in
  List.iter (fun l ->
    match l with
    | ["entry"; e] -> entry := int_of_string e
    | "paths" :: ps -> paths := List.map int_of_string ps
    | ["mktemp"; t] -> ops := MkTemp (nat_of_int (int_of_string t)) :: !ops
    | ["write"; t; pos; len] -> ops := Write (nat_of_int (int_of_string t), n_of_string pos, n_of_string len) :: !ops
    | ["persist"; t; p] -> ops := Persist (nat_of_int (int_of_string t), nat_of_int (int_of_string p)) :: !ops
    | ["drop"; t] -> ops := Drop (nat_of_int (int_of_string t)) :: !ops
    | _ -> ()) c.lines;
  let tr = List.rev !ops in
  let e = nat_of_int !entry in
  Printf.fprintf out "%s accepts %b wf=%b entry_last=%b ops=%d\n" c.id (fs_accepts e tr) (wf_from [] [] tr) (entry_lastb e tr) (List.length tr);
  let sts = crash_states tr (List.map nat_of_int !paths) in
  let strs = List.map (fun v -> String.concat "" (List.map (fun b -> if b then "1" else "0") v)) sts in
  let rec uniq acc = function [] -> List.rev acc | x :: r -> if List.mem x acc then uniq acc r else uniq (x :: acc) r in
  Printf.fprintf out "%s states %s\n" c.id (String.concat "," (uniq [] strs))

let () =
  let cases = parse_cases Sys.argv.(1) in
  let out = open_out Sys.argv.(2) in
  List.iter (fun c ->
    try
      match c.family with
      | "views" -> views_case c out
      | "manifest" -> manifest_case c out
      | "content" -> content_case c out
      | "dir" -> dir_case c out
      | "container" -> container_case c out
      | "conc" -> conc_case c out
      | "crash" -> crash_case c out
      | f -> failwith ("unknown family " ^ f)
    with e -> Printf.fprintf out "%s MODEL_EXN %s\n" c.id (Printexc.to_string e)) cases;
  close_out out
