(* Runs the extracted Coq model on a case file and prints the same observation lines as
   the Rust harness. Parsing, calling, printing only. *)
open Model
open Util

let views_case (c : case) (out : out_channel) =
  let src = payload (p c "data") in
  let a = pi c "a" and pre = pi c "pre" and len = pi c "len" in
  let ops = List.concat_map (fun l ->
    match l with
    | "ops" :: toks -> List.map (fun t ->
        match String.split_on_char ':' t with
        | ["cut"; o; n] -> OCut (nat_of_int (int_of_string o), nat_of_int (int_of_string n))
        | ["asslice"] -> OAsSlice
        | ["toregion"] -> OToRegion
        | ["stream"] -> OStream
        | ["intostream"] -> OIntoStream
        | ["get"; o; n] -> OGetSlice (nat_of_int (int_of_string o), nat_of_int (int_of_string n))
        | ["read"; k] -> ORead (nat_of_int (int_of_string k))
        | ["sizes"] -> OSizes
        | _ -> failwith ("bad op " ^ t)) toks
    | _ -> failwith "bad line") c.lines in
  let r = { rb = nat_of_int (a + pre); re = nat_of_int (a + pre + len) } in
  let obs = run src of_region (VRegion r) ops in
  List.iteri (fun i o ->
    let s = match o with
      | ObsBytes l -> "bytes " ^ show l
      | ObsSizes (x, y, z) -> Printf.sprintf "sizes %d %d %d" (int_of_nat x) (int_of_nat y) (int_of_nat z)
      | ObsNone -> "none"
      | ObsBad -> "bad" in
    Printf.fprintf out "%s %d %s\n" c.id i s) obs

let () =
  let cases = parse_cases Sys.argv.(1) in
  let out = open_out Sys.argv.(2) in
  List.iter (fun c ->
    try
      match c.family with
      | "views" -> views_case c out
      | f -> failwith ("unknown family " ^ f)
    with e -> Printf.fprintf out "%s MODEL_EXN %s\n" c.id (Printexc.to_string e)) cases;
  close_out out
