(* Runs the extracted Coq model on a case file and prints the same observation lines as
   the Rust harness. Parsing, calling, printing only. *)
open Model
open Util

let views_case (c : case) (out : out_channel) =
  let src = payload (p c "data") in
  let a = pi c "a" and pre = pi c "pre" and len = pi c "len" in
  let ops = List.concat_map (fun l ->
    match l with
    | "ops" :: toks -> List.map (fun t ->
        match String.split_on_char ':' t with
        | ["cut"; o; n] -> OCut (nat_of_int (int_of_string o), nat_of_int (int_of_string n))
        | ["asslice"] -> OAsSlice
        | ["toregion"] -> OToRegion
        | ["stream"] -> OStream
        | ["intostream"] -> OIntoStream
        | ["get"; o; n] -> OGetSlice (nat_of_int (int_of_string o), nat_of_int (int_of_string n))
        | ["read"; k] -> ORead (nat_of_int (int_of_string k))
        | ["sizes"] -> OSizes
        | _ -> failwith ("bad op " ^ t)) toks
    | _ -> failwith "bad line") c.lines in
  let r = { rb = nat_of_int (a + pre); re = nat_of_int (a + pre + len) } in
  let obs = run src of_region (VRegion r) ops in
  List.iteri (fun i o ->
    let s = match o with
      | ObsBytes l -> "bytes " ^ show l
      | ObsSizes (x, y, z) -> Printf.sprintf "sizes %d %d %d" (int_of_nat x) (int_of_nat y) (int_of_nat z)
      | ObsNone -> "none"
      | ObsBad -> "bad" in
    Printf.fprintf out "%s %d %s\n" c.id i s) obs

let kind_num k = int_of_n (kind_byte k)

let show_res_err e = match e with
  | ECorrupt -> "ERR_CORRUPT" | EFormat -> "ERR_FORMAT" | EVersion -> "ERR_VERSION" | EIo -> "ERR_IO"
  | ENotJbk -> "ERR_NOTJBK" | EFeature -> "ERR_FEATURE" | EOob -> "ERR_OOB"

let infos_line (f : n list) : string =
  match manifest_infos f with
  | Err e -> show_res_err e
  | Ok infos ->
    let l = List.map (fun (_, pi) ->
      Printf.sprintf "%s:%d:%d:%s" (hex_of_bytes (ibytes pi.pi_uuid)) (kind_num pi.pi_kind)
        (int_of_n pi.pi_id) (hex_of_bytes (ibytes pi.pi_loc))) infos in
    String.concat ";" (List.sort compare l)

let manifest_case (c : case) (out : out_channel) =
  let file = ref [] and step = ref 1 in
  List.iter (fun l ->
    match l with
    | ["file"; path] ->
      file := nbytes (read_file path);
      Printf.fprintf out "%s 0 infos %s\n" c.id (infos_line !file);
      Printf.fprintf out "%s 0 file %s\n" c.id (digest (ibytes !file));
      Printf.fprintf out "%s 0 layout %b\n" c.id (layout_okb !file);
      (match manifest_view !file with
       | Ok v -> Printf.fprintf out "%s 0 view %s\n" c.id (digest (ibytes v))
       | Err e -> Printf.fprintf out "%s 0 view %s\n" c.id (show_res_err e))
    | ["setloc"; u; loc] ->
      let r = set_location !file (nbytes (bytes_of_hex u)) (nbytes (bytes_of_hex loc)) in
      (match r with
       | Err e -> Printf.fprintf out "%s %d res %s\n" c.id !step (show_res_err e)
       | Ok None -> Printf.fprintf out "%s %d res none\n" c.id !step
       | Ok (Some ((f', k), old)) ->
         file := f';
         Printf.fprintf out "%s %d res some:%d:%s\n" c.id !step (kind_num k) (hex_of_bytes (ibytes old)));
      Printf.fprintf out "%s %d file %s\n" c.id !step (digest (ibytes !file));
      Printf.fprintf out "%s %d infos %s\n" c.id !step (infos_line !file);
      (match manifest_view !file with
       | Ok v -> Printf.fprintf out "%s %d view %s\n" c.id !step (digest (ibytes v))
       | Err e -> Printf.fprintf out "%s %d view %s\n" c.id !step (show_res_err e));
      incr step
    | _ -> failwith "bad manifest line") c.lines

let () =
  let cases = parse_cases Sys.argv.(1) in
  let out = open_out Sys.argv.(2) in
  List.iter (fun c ->
    try
      match c.family with
      | "views" -> views_case c out
      | "manifest" -> manifest_case c out
      | f -> failwith ("unknown family " ^ f)
    with e -> Printf.fprintf out "%s MODEL_EXN %s\n" c.id (Printexc.to_string e)) cases;
  close_out out
